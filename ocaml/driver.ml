(* driver.ml — line-oriented driver around the extracted model (Model.entry).
   One S-expression per input line, one per output line.
   Text syntax:  ( ... )  lists;  x<hex>  byte-string atoms (x alone = empty);
                 'name      symbol atoms (bytes of name; printable, no blanks/parens). *)

let ascii_of_int n =
  Model.Ascii (n land 1 <> 0, n land 2 <> 0, n land 4 <> 0, n land 8 <> 0,
         n land 16 <> 0, n land 32 <> 0, n land 64 <> 0, n land 128 <> 0)

let int_of_ascii (Model.Ascii (b0, b1, b2, b3, b4, b5, b6, b7)) =
  let f b k = if b then k else 0 in
  f b0 1 + f b1 2 + f b2 4 + f b3 8 + f b4 16 + f b5 32 + f b6 64 + f b7 128

let hexv c = match c with
  | '0'..'9' -> Char.code c - 48
  | 'a'..'f' -> Char.code c - 87
  | 'A'..'F' -> Char.code c - 55
  | _ -> failwith "bad hex"

exception Parse of string

(* returns (sx, next index) *)
let rec parse s i =
  let n = String.length s in
  let i = skip s i in
  if i >= n then raise (Parse "eof") else
  match s.[i] with
  | '(' -> parse_list s (i + 1) []
  | 'x' ->
      let j = ref (i + 1) in
      while !j < n && (match s.[!j] with '0'..'9' | 'a'..'f' | 'A'..'F' -> true | _ -> false) do incr j done;
      let len = !j - (i + 1) in
      if len mod 2 <> 0 then raise (Parse "odd hex");
      let rec build k acc =
        if k < 0 then acc
        else build (k - 1) (ascii_of_int (16 * hexv s.[i + 1 + 2 * k] + hexv s.[i + 2 + 2 * k]) :: acc) in
      (Model.SA (build (len / 2 - 1) []), !j)
  | '\'' ->
      let j = ref (i + 1) in
      while !j < n && (match s.[!j] with ' ' | '(' | ')' | '\t' | '\n' | '\r' -> false | _ -> true) do incr j done;
      let rec build k acc =
        if k <= i then acc else build (k - 1) (ascii_of_int (Char.code s.[k]) :: acc) in
      (Model.SA (build (!j - 1) []), !j)
  | c -> raise (Parse (Printf.sprintf "unexpected %c at %d" c i))
and parse_list s i acc =
  let n = String.length s in
  let i = skip s i in
  if i >= n then raise (Parse "eof in list") else
  if s.[i] = ')' then (Model.SL (List.rev acc), i + 1)
  else let (x, j) = parse s i in parse_list s j (x :: acc)
and skip s i =
  let n = String.length s in
  let j = ref i in
  while !j < n && (s.[!j] = ' ' || s.[!j] = '\t' || s.[!j] = '\r' || s.[!j] = '\n') do incr j done;
  !j

let is_symbol_bytes l =
  l <> [] && List.for_all (fun a -> let c = int_of_ascii a in
    (c >= 48 && c <= 57) || (c >= 65 && c <= 90) || (c >= 97 && c <= 122)
    || c = 45 || c = 95 || c = 46) l

let rec print buf x =
  match x with
  | Model.SA l ->
      if is_symbol_bytes l then begin
        Buffer.add_char buf '\'';
        List.iter (fun a -> Buffer.add_char buf (Char.chr (int_of_ascii a))) l
      end else begin
        Buffer.add_char buf 'x';
        List.iter (fun a -> Buffer.add_string buf (Printf.sprintf "%02x" (int_of_ascii a))) l
      end
  | Model.SL l ->
      Buffer.add_char buf '(';
      List.iteri (fun k y -> if k > 0 then Buffer.add_char buf ' '; print buf y) l;
      Buffer.add_char buf ')'

let () =
  let buf = Buffer.create 65536 in
  (try
    while true do
      let line = input_line stdin in
      Buffer.clear buf;
      (try
        let (x, _) = parse line 0 in
        print buf (Model.entry x)
      with
      | Parse m -> Buffer.add_string buf ("(\'driver-error \'parse-" ^ String.map (fun c -> if c = ' ' then '-' else c) m ^ ")")
      | Stack_overflow -> Buffer.add_string buf "(\'driver-error \'stack-overflow)"
      | Failure m -> Buffer.add_string buf ("(\'driver-error \'failure)"));
      Buffer.add_char buf '\n';
      print_string (Buffer.contents buf);
      flush stdout
    done
  with End_of_file -> ())
