#!/bin/sh
# Build the framework from files on disk only (offline). Idempotent.
set -e
cd "$(dirname "$0")"
exec ./check --setup
