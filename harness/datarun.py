"""datarun.py — run the real DataProviderServer under the deterministic scheduler
on a scenario (requests, adapter behaviour, listener calls, pool size) and a
schedule; turn the executed trace into per-item label sequences for
Model/Item.v (correspondence); evaluate the oracles of C01, C02, C03, C17, C19
on implementation observables only."""
import collections

import ari
import dsched
import shims
import sx
from sx import sym, A

LATE_MSG = 'Subscribe request come too late'
TS = '1700000000000'


# ---------------------------------------------------------------- scenario
class Scenario:
    """
    pool      : thread_pool_size
    chunks    : list of lists of requests (rid, 'SUB'|'USB', item) — one recv each
    behav     : item -> dict(snap=[...], sub=[...], usb=[...], nest=[...], nest_usb=[...])
                (an element of a nest list may be [kind, other item]: cross-item re-entrancy; such scenarios are judged by the
                 oracles only — the per-item model has no label for it)
                outcomes per successive call: snap: True/False/('raise', cls); sub/usb: 'ret' | ('raise', cls)
                nest: per successive subscribe() call a list of listener kinds ('upd','eos','cls') performed inside it
    free      : list of adapter-owned threads, each a list of (kind, item)
    """

    def __init__(self, pool, chunks, behav, free=(), sizes=None, fail_send=None):
        self.pool = pool
        self.chunks = chunks
        self.behav = behav
        self.free = [list(f) for f in free]
        self.sizes = dict(sizes or {})          # listener call index -> payload size (C16: large updates)
        self.fail_send = fail_send

    def requests(self):
        return [r for c in self.chunks for r in c]

    def describe(self):
        return {'pool': self.pool, 'chunks': self.chunks, 'behav': self.behav, 'free': self.free, 'sizes': self.sizes, 'fail_send': self.fail_send}


EXC = {}


def exc_class(name):
    if not EXC:
        import lightstreamer_adapter.interfaces.data as idt
        EXC.update({'SubscribeError': idt.SubscribeError, 'FailureError': idt.FailureError, 'RuntimeError': RuntimeError,
                    'DataProviderError': idt.DataProviderError, 'KeyError': KeyError,
                    # user-defined exceptions whose instances are falsy (they define __len__ and hold nothing)
                    'EmptyError': type('EmptyError', (Exception,), {'__len__': lambda self: 0}),
                    'EmptySubscribeError': type('EmptySubscribeError', (idt.SubscribeError,), {'__bool__': lambda self: False})})
    return EXC[name]


def mk_exc(name, text, nonstr=False):
    # nonstr: the detail handed to the exception is not a str but an object whose str() is the text (an adapter
    # wrapping a caught low-level error): str(SubscribeError(ConnectionError(t))) == t
    return exc_class(name)(ConnectionError(text) if nonstr else text)


class Call:
    __slots__ = ('name', 'item', 'thread', 'b', 'e', 'outcome', 'idx')

    def __init__(self, name, item, thread, b):
        self.name, self.item, self.thread, self.b = name, item, thread, b
        self.e = None
        self.outcome = None


class LisCall:
    __slots__ = ('kind', 'item', 'thread', 'origin', 'b', 'e', 'within', 'tag', 'payload')

    def __init__(self, kind, item, thread, origin, b, within, tag):
        self.kind, self.item, self.thread, self.origin, self.b, self.within, self.tag = kind, item, thread, origin, b, within, tag
        self.e = None
        self.payload = None


def make_adapter(S, sc, log):
    from lightstreamer_adapter.interfaces.data import DataProvider
    counters = collections.defaultdict(int)

    class Stub(DataProvider):
        def __init__(self):
            self.listener = None

        def initialize(self, parameters, config_file=None):
            pass

        def set_listener(self, event_listener):
            self.listener = event_listener

        def _next(self, item, what):
            k = counters[(item, what)]
            counters[(item, what)] += 1
            seq = sc.behav.get(item, {}).get(what, [])
            return (seq[k] if k < len(seq) else None), k

        def _call(self, name, item, what, default):
            out, k = self._next(item, what)
            if out is None:
                out = default
            S.yield_('callB', (name, item))
            c = Call(name, item, S.me().name if S.me() else 'ctl', S.step_no)
            log['calls'].append(c)
            nest, _ = self._next(item, 'nest' if name == 'subscribe' else 'nest_usb') if name in ('subscribe', 'unsubscribe') else (None, 0)
            for kind in (nest or []):
                # an element is a listener kind (for the item of the call) or [kind, other item]: the adapter may report
                # on ANY item from inside subscribe() / unsubscribe() of this one
                if isinstance(kind, (list, tuple)):
                    do_listener(S, self, log, kind[0], kind[1], 'nested', within=c)
                else:
                    do_listener(S, self, log, kind, item, 'nested', within=c)
            S.yield_('callE', (name, item, out))
            c.e = S.step_no
            c.outcome = out
            if isinstance(out, tuple) and out[0] == 'raise':
                raise mk_exc(out[1], '%s failed for %s' % (name, item), nonstr=(len(out) > 2 and out[2] == 'nonstr' and out[1] != 'KeyError'))
            return out

        def issnapshot_available(self, item_name):
            return self._call('issnapshot_available', item_name, 'snap', True)

        def subscribe(self, item_name):
            r = self._call('subscribe', item_name, 'sub', 'ret')
            return None

        def unsubscribe(self, item_name):
            r = self._call('unsubscribe', item_name, 'usb', 'ret')
            return None
    return Stub()


def do_listener(S, ad, log, kind, item, origin, within=None):
    log['ntag'] = log.get('ntag', 0) + 1       # unique per call (two threads may be between here and the append below)
    tag = 'e%d' % log['ntag']
    S.yield_('lis-begin', (kind, item, origin, tag), cond=lambda: ad.listener is not None)
    listener = ad.listener
    lc = LisCall(kind, item, S.me().name if S.me() else 'ctl', origin, S.step_no, within, tag)
    log['lis'].append(lc)
    if kind == 'upd':
        n = log.get('sizes', {}).get(len(log['lis']) - 1)
        lc.payload = tag if not n else tag + ':' + 'x' * n
        listener.update(item, {'k': lc.payload}, False)
    elif kind == 'fal':
        lc.payload = 'failure ' + tag
        listener.failure(Exception(lc.payload))
    elif kind == 'eos':
        listener.end_of_snapshot(item)
    else:
        listener.clear_snapshot(item)
    lc.e = S.step_no


class Run:
    pass


FINE_FILES = ('lightstreamer_adapter/server.py', 'lightstreamer_adapter/subscription.py', 'lightstreamer_adapter/protocol.py',
              'lightstreamer_adapter/data_protocol.py', 'lightstreamer_adapter/metadata_protocol.py')


def run_scenario(sc, chooser, eager=('writer',), max_steps=6000, probe=True, fine=False, fine_seed=0, fine_p=0.12):
    """-> Run with: status, trace, events, calls, lis, lines (queue order), sent (bytes), final (dict), taken.
    fine: every source line of server.py / subscription.py is a preemption point (oracle-only runs)"""
    from lightstreamer_adapter.server import DataProviderServer
    import wire
    S = dsched.Sched(fine=FINE_FILES if fine else None, fine_seed=fine_seed, fine_p=fine_p)
    if fine:
        max_steps = max_steps * 8
    log = {'calls': [], 'lis': [], 'sizes': {int(k): v for k, v in sc.sizes.items()}}
    stream = [b'1|DPI|S|ARI.version|S|1.9.1\r\n']
    for ch in sc.chunks:
        stream.append(b''.join(wire.encode_line(r[0].encode(), r[1], ('WItem', r[2])) for r in ch))
    r = Run()
    with shims.install(S, chunks=stream, end='block', cpu=4, fail_send=sc.fail_send) as env:
        ad = make_adapter(S, sc, log)
        srv = DataProviderServer(ad, ('h', 1), name='D', keep_alive=0, thread_pool_size=sc.pool)
        srv.start()
        for l, script in enumerate(sc.free):
            def body(script=script, l=l):
                for kind, item in script:
                    do_listener(S, ad, log, kind, item, ('free', l))
            S.spawn('free%d' % l, 'free', body)
        r.status = S.run(chooser, max_steps=max_steps, eager=eager)
        # end state of the library's per-item bookkeeping, read through the private attribute names of the current
        # source; when a refactoring renamed them the end-state comparison is skipped (final_available False), not failed
        r.final = {}
        r.final_available = True
        try:
            mgr = srv._subscription_mgr
            for item, m in list(mgr._active_items.items()):
                r.final[item] = (len(m._tasks_deq), m._code, m._isrunning, m._queued, m._last_subscribe_outcome)
        except AttributeError:
            r.final = {}
            r.final_available = False
        r.queue_log = list(env.queues[0].log) if env.queues else []
        r.sent = list(env.sock.sent)
        r.wire = list(env.sock.wire)
        r.pending_chunks = len(env.sock.chunks)
        r.n_events = len(S.events)
        # after quiescence: one listener call per item from the controller thread (not scheduled)
        r.probe = {}
        if probe and r.status == "quiescent" and env.queues:
            q = env.queues[0]
            for item in sorted(set(x[2] for x in sc.requests())):
                n0 = len(q.log)
                ad.listener.update(item, {'k': 'probe'}, False)
                r.probe[item] = list(q.log[n0:])
        S.kill_all()
        r.crashes = [e for e in S.events if e[0] in ('thread-crash', 'job-error')]
        r.lock_violations = list(env.lock_violations)
    r.S = S
    r.trace = S.trace
    r.events = S.events
    r.calls = log['calls']
    r.lis = log['lis']
    r.sc = sc
    r.taken = getattr(chooser, 'taken', [])
    return r


def strip_ts(msg):
    """queue item -> (is_notification, line without timestamp)"""
    p = msg.split('|', 2)
    if len(p) >= 2 and p[1] in ('UD3', 'EOS', 'CLS', 'FAL'):
        return True, msg.split('|', 1)[1]
    return False, msg


# ---------------------------------------------------------------- trace -> per-item labels
def sx_outcome(name, out):
    if isinstance(out, tuple) and out[0] == 'raise':
        cls = out[1]
        if cls in ('SubscribeError', 'FailureError', 'DataProviderError'):
            c = [sym('lib'), sym(cls)]
        else:
            c = sym('foreign')
        return c
    return None


def label_outcome(name, item, out):
    if isinstance(out, tuple) and out[0] == 'raise':
        cls = out[1]
        c = [sym('lib'), sym(cls)] if cls in ('SubscribeError', 'FailureError', 'DataProviderError') else \
            [sym('usersub'), sym('SubscribeError')] if cls == 'EmptySubscribeError' else sym('foreign')
        text = '%s failed for %s' % (name, item)
        if cls == 'KeyError':
            text = repr(text)
        return [sym('raise'), [sym('exn'), c, text.encode('utf-8'), A(0), sym('none'), sym('none')]]
    return [sym('ret'), A(name == 'issnapshot_available' and out is False)]


def lkind_sx(kind, tag):
    if kind == 'upd':
        return [sym('update'), A(False), [[[sym('some'), b'k'], [sym('text'), [sym('some'), tag.encode()]]]]]
    return sym(kind)


def item_labels(r):
    """-> (dict item -> list of (label sexp, step_no)), problems)"""
    reqs = r.sc.requests()
    per = collections.defaultdict(list)
    problems = []
    ev_by_step = collections.defaultdict(list)
    for e in r.events:
        ev_by_step[e[1]].append(e)
    reader_m = 0
    jobs_per_item = collections.defaultdict(list)     # item -> [global job id]
    worker_job = {}                                   # worker name -> (item, j)
    free_idx = collections.defaultdict(dict)          # item -> {thread name: l}
    cur_lis = {}                                      # thread name -> LisCall tag data
    for e in r.events:
        if e[0] == 'submit':
            jobs_per_item[e[4]].append(e[3])
    for st in r.trace:
        tid, role, kind, data, no = st['tid'], st['role'], st['kind'], st['data'], st['step']
        if kind in ('start', 'released', 'clock'):
            continue
        if role == 'reader':
            if kind == 'acquire' and data[0] == 'M':
                if reader_m >= len(reqs):
                    problems.append('reader entered the manager lock more often than there are requests')
                    continue
                rid, meth, item = reqs[reader_m]
                reader_m += 1
                per[item].append(([sym('R1'), rid.encode(), A(meth == 'SUB')], no))
            elif kind == 'acquire' and data[0] == 'I':
                per[data[1]].append((sym('R2'), no))
        elif role == 'worker':
            if kind == 'job':
                js = [e for e in ev_by_step[no] if e[0] == 'job-start']
                if not js:
                    worker_job.pop(tid, None)
                    continue
                item = js[0][4]
                j = jobs_per_item[item].index(js[0][3])
                worker_job[tid] = (item, j)
                per[item].append(([sym('JobStart'), A(j)], no))
                continue
            if tid not in worker_job:
                problems.append('step of worker %s outside any job: %r' % (tid, kind))
                continue
            item, j = worker_job[tid]
            if kind == 'acquire':
                per[item].append(([sym('LockI' if data[0] == 'I' else 'LockM'), A(j)], no))
            elif kind == 'put':
                per[item].append(([sym('Put'), A(j)], no))
            elif kind == 'callB':
                per[item].append(([sym('CallB'), A(j)], no))
            elif kind == 'callE':
                per[item].append(([sym('CallE'), A(j), label_outcome(data[0], data[1], data[2])], no))
            elif kind == 'lis-begin':
                per[item].append(([sym('Nest'), A(j), lkind_sx(data[0], data[3])], no))
            else:
                problems.append('unexpected yield %r in a dequeuer job' % (kind,))
        elif role == 'free':
            if kind == 'start':
                continue
            if kind == 'lis-begin':
                item = data[1]
                d = free_idx[item]
                if tid not in d:
                    d[tid] = len(d)
                cur_lis[tid] = item
                per[item].append(([sym('FreeBegin'), A(d[tid]), lkind_sx(data[0], data[3])], no))
            elif kind == 'acquire':
                item = cur_lis[tid]
                per[item].append(([sym('FreeLockM'), A(free_idx[item][tid])], no))
            elif kind == 'put':
                item = cur_lis[tid]
                per[item].append(([sym('FreePut'), A(free_idx[item][tid])], no))
            else:
                problems.append('unexpected yield %r in an adapter thread' % (kind,))
    return per, problems


def puts_by_step(r):
    d = collections.defaultdict(list)
    for e in r.events[:r.n_events]:
        if e[0] == 'put':
            d[e[1]].append(strip_ts(e[3])[1].encode('utf-8'))
    return d


def impl_summary(r, item):
    if not getattr(r, 'final_available', True):
        return sym('unavailable')
    f = r.final.get(item)
    if f is None:
        return sym('none')
    n, code, running, queued, last = f
    return [sym('some'), [A(n), sx.opt(code, lambda c: c.encode()), A(bool(running)), A(queued), A(bool(last))]]


def prepare(r):
    """plain-data digest of a Run for the comparison with the model (picklable)"""
    per, problems = item_labels(r)
    for v in getattr(r, 'lock_violations', [])[:3]:
        problems.append('lock discipline: %s of %s by thread %s at step %d without the %s (the model attributes this access to a lock region)' % (
            v['mode'], v['field'], v['thread'], v['step'], v['needs']))
    pb = puts_by_step(r)
    items = {}
    for item, labs in per.items():
        items[item] = {'labels': [l for l, _ in labs], 'lines': [pb.get(no, []) for _, no in labs], 'final': impl_summary(r, item)}
    return {'items': items, 'problems': problems, 'status': r.status, 'scenario': r.sc.describe(), 'schedule': [c for c, _ in r.taken]}


def compare_prepared(ctx, preps):
    """-> list of disagreement dicts (each with 'prep')"""
    calls = []
    meta = []
    dis = []
    for pz in preps:
        for p in pz['problems']:
            dis.append({'relation': 'trace shape', 'detail': p, 'prep': pz})
        for item, d in pz['items'].items():
            calls.append([sym('item_run'), item.encode('utf-8'), d['labels']])
            meta.append((pz, item, d))
    outs = ctx.model(calls)
    for (pz, item, d), out in zip(meta, outs):
        if sx.is_err(out):
            dis.append({'relation': 'Item.run', 'detail': 'driver error %s' % sx.dumps(out), 'prep': pz})
        elif out[0] == b'rejected':
            idx = int(out[1])
            dis.append({'relation': 'Item.step accepts every implementation step',
                        'detail': 'item %s: the model refuses step %d (%s) in state %s' % (item, idx, sx.dumps(d['labels'][idx]), sx.dumps(out[2])), 'prep': pz})
        elif out[0] == b'env-rejected':
            dis.append({'relation': 'environment assumption', 'detail': 'item %s: arrival %d violates alternation / distinct ids' % (item, int(out[1])), 'prep': pz})
        else:
            if out[3]:
                dis.append({'relation': 'invariants / monitors of Model/ItemSpec.v hold along the trace',
                            'detail': 'item %s: failing %s' % (item, sx.dumps(out[3])), 'prep': pz})
            bad = None
            for k, (lab, want, got) in enumerate(zip(d['labels'], out[1], d['lines'])):
                if list(want) != list(got):
                    bad = 'item %s step %d %s: model %r, implementation %r' % (item, k, sx.dumps(lab), want, got)
                    break
            if bad:
                dis.append({'relation': 'lines enqueued per step', 'detail': bad, 'prep': pz})
            elif pz['status'] == 'quiescent' and d['final'] != b'unavailable' and out[2][0] != d['final']:
                dis.append({'relation': 'final per-item state', 'detail': 'item %s: model %s, implementation %s' % (
                    item, sx.dumps(out[2][0]), sx.dumps(d['final'])), 'prep': pz})
    return dis


def compare_with_model(ctx, runs):
    out = []
    for d in compare_prepared(ctx, [prepare(r) for r in runs]):
        d = dict(d)
        d.pop('prep', None)
        out.append(d)
    return out


# ---------------------------------------------------------------- oracles (implementation observables only)
def submissions(r):
    """the messages handed to the writer, as (kind, step, thread, message): the puts on the queue stand-in, or — when the
    writer keeps its backlog in something else — the calls of _Sender.send"""
    ev = r.events[:r.n_events]
    puts = [e for e in ev if e[0] == 'put']
    if puts:
        return puts
    return [e for e in ev if e[0] == 'send-msg']


class Facts:
    """derived, per item, from a Run: request list with arrival step, reply lines, adapter calls attributed to requests"""

    def __init__(self, r):
        self.r = r
        sc = r.sc
        self.reqs = sc.requests()
        # arrival step of each request = the reader's k-th manager-lock step
        arr = [st['step'] for st in r.trace if st['role'] == 'reader' and st['kind'] == 'acquire' and st['data'][0] == 'M']
        self.arrival = {}
        for k, rq in enumerate(self.reqs):
            self.arrival[rq[0]] = arr[k] if k < len(arr) else None
        self.puts = []          # (step, thread, is_notif, line)
        for e in submissions(r):
            if isinstance(e[3], str) and e[3] not in ('STOP_WAITING_PILL', 'KEEPALIVE_PILL'):
                n, line = strip_ts(e[3])
                self.puts.append((e[1], e[2], n, line))
        self.replies = collections.defaultdict(list)    # rid -> [(step, thread, line)]
        for step, th, n, line in self.puts:
            if not n:
                p = line.split('|')
                self.replies[p[0]].append((step, th, line))
        # attribute adapter calls to requests: calls made by thread T between T's previous reply put and the reply put for r
        self.calls_of = collections.defaultdict(list)
        by_thread = collections.defaultdict(list)
        for c in r.calls:
            by_thread[c.thread].append(('call', c.b, c))
        for rid, lst in self.replies.items():
            for step, th, line in lst:
                by_thread[th].append(('reply', step, rid))
        for e in r.events:
            if e[0] == 'job-start':
                by_thread[e[2]].append(('jobstart', e[1], None))
        for th, lst in by_thread.items():
            lst.sort(key=lambda x: x[1])
            cur = []
            for kind, step, x in lst:
                if kind == 'call':
                    cur.append(x)
                elif kind == 'reply':
                    self.calls_of[x] += cur
                    cur = []
                else:
                    cur = []
        self.item_of = {rq[0]: rq[2] for rq in self.reqs}
        self.meth_of = {rq[0]: rq[1] for rq in self.reqs}


def is_late(line):
    try:
        e = ari.error(line.split('|', 1)[1])
    except Exception:
        return False
    return e['subtype'] == 'U' and e['msg'] == LATE_MSG


def oracle_c01(r, F):
    """every SUB/USB answered exactly once; status as the property says (at quiescence)"""
    out = []
    if r.status == 'deadlock':
        who = sorted(set(e[1] for e in r.events if e[0] == 'blocked-in-real-primitive'))
        return [('thread(s) %s of the library blocked for good in a synchronisation primitive although every other thread is at rest: '
                 'the requests still queued are never answered' % (who,), {'kind': 'deadlock'})]
    if r.status != 'quiescent' or r.pending_chunks:
        return out
    for rid, meth, item in F.reqs:
        reps = F.replies.get(rid, [])
        if len(reps) != 1:
            kind = 'late_sub_unanswered' if (len(reps) == 0 and meth == 'SUB') else 'reply_count'
            out.append(('request %s (%s %s) has %d reply lines' % (rid, meth, item, len(reps)), {'kind': kind, 'method': meth}))
            continue
        line = reps[0][2]
        p = line.split('|')
        if p[1] != meth:
            out.append(('reply to %s names method %s' % (rid, p[1]), {'kind': 'reply_method'}))
            continue
        calls = [c for c in F.calls_of.get(rid, []) if c.name in ('subscribe', 'unsubscribe', 'issnapshot_available')]
        raised = [c for c in calls if isinstance(c.outcome, tuple)]
        main = [c for c in calls if c.name == ('subscribe' if meth == 'SUB' else 'unsubscribe')]
        ok_line = (p[2] == 'V')
        if raised:
            want_cls = raised[0].outcome[1]
            try:
                e = ari.error(line.split('|', 1)[1])
                sub = {'SubscribeError': 'U', 'FailureError': 'F'}.get(want_cls)
                good = (e['subtype'] == sub) and (('%s failed for %s' % (raised[0].name, item)) in (e['msg'] or ''))
            except Exception:
                good = False
            if not good:
                out.append(('request %s: adapter raised %s but the reply is %r' % (rid, want_cls, line), {'kind': 'reply_status', 'method': meth}))
        elif main:
            if not ok_line:
                out.append(('request %s: adapter call returned normally but the reply is %r' % (rid, line), {'kind': 'reply_status', 'method': meth}))
        else:
            # no adapter call for this request
            if meth == 'USB':
                if not ok_line:
                    out.append(('request %s: unsubscription with nothing to undo answered %r' % (rid, line), {'kind': 'reply_status', 'method': meth}))
                else:
                    # success without the adapter call is right only when there was nothing to undo
                    prev = [q for q in F.reqs if q[2] == item and q[1] == 'SUB' and F.reqs.index(q) < F.reqs.index((rid, meth, item))]
                    if prev:
                        pc = [c for c in F.calls_of.get(prev[-1][0], []) if c.name == 'subscribe']
                        if pc and pc[0].e is not None and not isinstance(pc[0].outcome, tuple):
                            out.append(('request %s: answered with success without calling unsubscribe although the subscription %s before it '
                                        'was made and returned normally (there was something to undo)' % (rid, prev[-1][0]),
                                        {'kind': 'unsubscribe_not_invoked', 'method': meth}))
            else:
                if ok_line:
                    out.append(('request %s: skipped subscription answered with success %r' % (rid, line), {'kind': 'reply_status', 'method': meth}))
    return out


def oracle_c02(r, F):
    out = []
    by_item = collections.defaultdict(list)
    for c in r.calls:
        if c.name in ('subscribe', 'unsubscribe'):
            by_item[c.item].append(c)
    order_of = {rq[0]: k for k, rq in enumerate(F.reqs)}
    call_req = {}
    for rid, cs in F.calls_of.items():
        for c in cs:
            call_req[id(c)] = rid
    for item, cs in by_item.items():
        cs.sort(key=lambda c: c.b)
        for a, b in zip(cs, cs[1:]):
            if a.e is None or b.b < a.e:
                out.append(('item %s: %s (steps %s-%s) overlaps %s (from step %s)' % (item, a.name, a.b, a.e, b.name, b.b), {'kind': 'overlap'}))
        prev = None
        last_rank = -1
        for c in cs:
            if c.name == 'unsubscribe':
                if prev is None or prev.name != 'subscribe' or isinstance(prev.outcome, tuple) or prev.e is None:
                    out.append(('item %s: unsubscribe invoked at step %s but the preceding invocation was %s' % (
                        item, c.b, 'none' if prev is None else '%s -> %r' % (prev.name, prev.outcome)), {'kind': 'pairing'}))
            rid = call_req.get(id(c))
            if rid is not None:
                if order_of[rid] < last_rank:
                    out.append(('item %s: calls not in arrival order (request %s served after a later one)' % (item, rid), {'kind': 'order'}))
                last_rank = max(last_rank, order_of[rid])
                want = 'subscribe' if F.meth_of[rid] == 'SUB' else 'unsubscribe'
                if c.name != want:
                    out.append(('item %s: %s invoked on behalf of %s request %s' % (item, c.name, F.meth_of[rid], rid), {'kind': 'order'}))
            prev = c
    # an unsubscription following a failed or skipped subscription is acknowledged (without calling the adapter)
    if r.status == 'quiescent' and not r.pending_chunks:
        for k, (rid, meth, item) in enumerate(F.reqs):
            if meth != 'USB':
                continue
            prev = [q for q in F.reqs[:k] if q[2] == item]
            if not prev or prev[-1][1] != 'SUB':
                continue
            prid = prev[-1][0]
            preps = F.replies.get(prid, [])
            pcalls = [c for c in F.calls_of.get(prid, []) if c.name in ('subscribe', 'issnapshot_available')]
            failed = any(isinstance(c.outcome, tuple) for c in pcalls)
            skipped = any(is_late(l) for _, _, l in preps)
            if not (failed or skipped):
                continue
            reps = F.replies.get(rid, [])
            if not reps:
                out.append(('item %s: unsubscription %s follows the %s subscription %s and was never acknowledged' % (
                    item, rid, 'failed' if failed else 'skipped', prid), {'kind': 'unsubscribe_not_acknowledged'}))
            elif not any(l.split('|')[1:3] == ['USB', 'V'] for _, _, l in reps):
                out.append(('item %s: unsubscription %s follows the %s subscription %s and was answered %r' % (
                    item, rid, 'failed' if failed else 'skipped', prid, reps[0][2][:80]), {'kind': 'unsubscribe_not_acknowledged'}))
    # skipped only if a later request had already arrived; latest SUB always executed
    last_req = {}
    for rid, meth, item in F.reqs:
        last_req[item] = rid
    for rid, meth, item in F.reqs:
        if meth != 'SUB':
            continue
        for step, th, line in F.replies.get(rid, []):
            if is_late(line):
                later = [q for q in F.reqs if q[2] == item and order_of[q[0]] > order_of[rid] and F.arrival.get(q[0]) is not None and F.arrival[q[0]] < step]
                if not later:
                    out.append(('item %s: subscription %s skipped although no later request had arrived' % (item, rid), {'kind': 'skip_without_later'}))
                if r.status == 'quiescent' and not r.pending_chunks and last_req[item] == rid:
                    out.append(('item %s: the latest request %s (a subscription) was skipped' % (item, rid), {'kind': 'latest_skipped'}))
    if r.status == 'quiescent' and not r.pending_chunks:
        for item, rid in last_req.items():
            if F.meth_of[rid] == 'SUB' and not any(c.name in ('issnapshot_available', 'subscribe') for c in F.calls_of.get(rid, [])) \
                    and not any(is_late(l) for _, _, l in F.replies.get(rid, [])):
                # calls are attributed through the reply; an unanswered request has none attributed: look at raw calls after its arrival
                arr = F.arrival.get(rid)
                made = [c for c in r.calls if c.item == item and c.name in ('issnapshot_available', 'subscribe') and arr is not None and c.b > arr]
                if not made:
                    out.append(('item %s: the latest request %s (a subscription) was never executed' % (item, rid), {'kind': 'latest_not_executed'}))
    return out


def oracle_c03(r, F):
    out = []
    # map each notification put to the listener call that produced it (same thread, put step inside the call window)
    exec_ids = collections.defaultdict(set)      # item -> rids of executed (not skipped) subscriptions
    for rid, meth, item in F.reqs:
        if meth == 'SUB' and any(c.name in ('issnapshot_available', 'subscribe') for c in F.calls_of.get(rid, [])):
            exec_ids[item].add(rid)
    sub_call_of = {}
    for rid, cs in F.calls_of.items():
        for c in cs:
            if c.name == 'subscribe':
                sub_call_of[id(c)] = rid
    order_of = {rq[0]: k for k, rq in enumerate(F.reqs)}
    lis_by_thread = collections.defaultdict(list)
    for lc in r.lis:
        lis_by_thread[lc.thread].append(lc)
    fate = {}
    for step, th, n, line in F.puts:
        if not n or line.startswith('FAL'):
            continue
        p = line.split('|')
        item_tok = ari.text(p[2])
        rid_tok = ari.text(p[4])
        lc = None
        for c in lis_by_thread.get(th, []):
            if c.b <= step and (c.e is None or step <= c.e):
                lc = c
        if lc is not None:
            fate[id(lc)] = rid_tok
            if item_tok != lc.item:
                out.append(('notification %r names item %r but was submitted for %r' % (line, item_tok, lc.item), {'kind': 'mis_tagged_item'}))
                continue
            item = lc.item
        else:
            item = item_tok          # library-origin EOS
        if rid_tok not in exec_ids.get(item, set()):
            out.append(('notification %r carries id %r which is not an executed subscription of item %r' % (line, rid_tok, item), {'kind': 'bad_id'}))
    sub_calls = collections.defaultdict(list)
    usb_calls = collections.defaultdict(list)
    for c in r.calls:
        if c.name == 'subscribe':
            sub_calls[c.item].append(c)
        elif c.name == 'unsubscribe':
            usb_calls[c.item].append(c)
    first_arrival = {}
    for rid, meth, item in F.reqs:
        if item not in first_arrival and F.arrival.get(rid) is not None:
            first_arrival[item] = F.arrival[rid]
    for lc in r.lis:
        if lc.e is None:
            continue
        got = fate.get(id(lc))
        # inside subscribe()
        if lc.within is not None and lc.within.name == 'subscribe' and lc.within.item == lc.item:
            want = sub_call_of.get(id(lc.within))
            if want is not None and got != want:
                out.append(('event %s submitted inside subscribe() of %s was %s' % (lc.tag, want, 'dropped' if got is None else 'sent with id ' + got), {'kind': 'inside_subscribe'}))
            continue
        # after a successful subscribe() and before the matching unsubscribe() begins
        prev_sub = [c for c in sub_calls.get(lc.item, []) if c.e is not None and c.e < lc.b]
        if prev_sub:
            c = max(prev_sub, key=lambda c: c.e)
            later_sub_begun = any(s.b > c.e and s.b < lc.e for s in sub_calls.get(lc.item, []))
            usb_begun = any(u.b > c.e and u.b < lc.e for u in usb_calls.get(lc.item, []))
            # any later SUB/USB request already being processed makes the window ambiguous only if its call began
            if not isinstance(c.outcome, tuple) and not later_sub_begun and not usb_begun:
                want = sub_call_of.get(id(c))
                # a later skipped SUB / late USB may clear the id without calling the adapter: exclude windows with later arrivals
                later_arrived = any(q[2] == lc.item and order_of[q[0]] > order_of.get(want, -1) and F.arrival.get(q[0]) is not None and F.arrival[q[0]] < lc.e
                                    for q in F.reqs) if want is not None else True
                if want is not None and not later_arrived and got != want:
                    out.append(('event %s submitted after successful subscribe() of %s (no unsubscribe yet) was %s' % (
                        lc.tag, want, 'dropped' if got is None else 'sent with id ' + got), {'kind': 'between'}))
        # before any request for the item arrived: dropped
        fa = first_arrival.get(lc.item)
        if (fa is None or lc.e < fa) and got is not None:
            out.append(('event %s for never-subscribed item %s was forwarded with id %s' % (lc.tag, lc.item, got), {'kind': 'not_dropped'}))
        # never an older id once a newer subscribe() has begun
        begun = [c for c in sub_calls.get(lc.item, []) if c.b < lc.b]
        if begun and got is not None:
            newest = max(begun, key=lambda c: c.b)
            nid = sub_call_of.get(id(newest))
            if nid is not None and got in order_of and order_of[got] < order_of[nid]:
                out.append(('event %s submitted after subscribe() of %s began carries the older id %s' % (lc.tag, nid, got), {'kind': 'stale_id'}))
    # after quiescence (probe)
    if r.status == 'quiescent' and not r.pending_chunks:
        last = {}
        for rid, meth, item in F.reqs:
            last[item] = (rid, meth)
        for item, msgs in r.probe.items():
            rid, meth = last[item]
            if meth == 'USB' and msgs:
                out.append(('after quiescence, item %s unsubscribed: a probe event was forwarded %r' % (item, msgs), {'kind': 'not_dropped_after_usb'}))
            if meth == 'SUB':
                ok_sub = any(c.name == 'subscribe' and not isinstance(c.outcome, tuple) for c in F.calls_of.get(rid, []))
                if ok_sub:
                    good = len(msgs) == 1 and strip_ts(msgs[0])[1].split('|')[4] == rid
                    if not good:
                        out.append(('after quiescence, item %s subscribed by %s: probe event gave %r' % (item, rid, msgs), {'kind': 'lost_after_sub'}))
    return out


def oracle_c17(r, F):
    out = []
    lis_windows = collections.defaultdict(list)
    for lc in r.lis:
        lis_windows[lc.thread].append(lc)
    for rid, meth, item in F.reqs:
        if meth != 'SUB':
            continue
        cs = F.calls_of.get(rid, [])
        snap = [c for c in cs if c.name == 'issnapshot_available']
        subc = [c for c in cs if c.name == 'subscribe']
        if not snap:
            # skipped (or not processed yet): no library EOS at all for this id
            lib = [p for p in F.puts if p[2] and p[3].startswith('EOS|') and ari.text(p[3].split('|')[4]) == rid
                   and not any(lc.b <= p[0] and (lc.e is None or p[0] <= lc.e) for lc in lis_windows.get(p[1], []))]
            if lib and r.status == 'quiescent':
                out.append(('skipped subscription %s got a library end-of-snapshot' % rid, {'kind': 'eos_for_skipped'}))
            continue
        sc_ = snap[0]
        if sc_.e is None:
            continue
        lib = [p for p in F.puts if p[2] and p[3].startswith('EOS|') and ari.text(p[3].split('|')[2]) == item and p[1] == sc_.thread
               and p[0] > sc_.e and not any(lc.b <= p[0] and (lc.e is None or p[0] <= lc.e) for lc in lis_windows.get(p[1], []))
               and (not F.replies.get(rid) or p[0] < F.replies[rid][0][0] + 1)]
        # restrict to this request's processing window: up to its reply (or end)
        rep_step = F.replies[rid][0][0] if F.replies.get(rid) else None
        lib = [p for p in lib if rep_step is None or p[0] < rep_step]
        if isinstance(sc_.outcome, tuple):
            if subc:
                out.append(('subscription %s: snapshot query raised but subscribe() was called' % rid, {'kind': 'subscribe_after_snapshot_error'}))
            if lib:
                out.append(('subscription %s: snapshot query raised but a library EOS was sent' % rid, {'kind': 'eos_count'}))
        elif sc_.outcome is False:
            if not subc and rep_step is None:
                continue        # still in progress
            if len(lib) != 1:
                out.append(('subscription %s with no snapshot: %d library end-of-snapshot lines (expected 1)' % (rid, len(lib)), {'kind': 'eos_count'}))
            else:
                p = lib[0]
                if ari.text(p[3].split('|')[4]) != rid:
                    out.append(('library EOS for %s carries id %r' % (rid, p[3]), {'kind': 'eos_tag'}))
                if subc and p[0] > subc[0].b:
                    out.append(('library EOS for %s sent at step %d, after subscribe() began at step %d' % (rid, p[0], subc[0].b), {'kind': 'eos_order'}))
                # (an event submitted from within or after subscribe() is enqueued after subscribe() began, hence after the EOS)
        else:
            if lib:
                out.append(('subscription %s with snapshot available: library EOS sent' % rid, {'kind': 'eos_count'}))
    return out


def oracle_c19(r, F):
    out = []
    if r.status != 'quiescent' or r.pending_chunks:
        return out
    last = {}
    for rid, meth, item in F.reqs:
        last[item] = (rid, meth)
    avail = getattr(r, 'final_available', True)     # False: the bookkeeping attributes were renamed; judge on behaviour only
    for item, (rid, meth) in last.items():
        st = r.final.get(item)
        if meth == 'USB':
            if avail and st is not None:
                out.append(('item %s: last request was an unsubscription but bookkeeping is retained %r' % (item, st), {'kind': 'retained'}))
            if r.probe.get(item):
                out.append(('item %s: events after unsubscription are forwarded %r' % (item, r.probe[item]), {'kind': 'not_dropped_after_usb'}))
        else:
            ok_sub = any(c.name == 'subscribe' and not isinstance(c.outcome, tuple) and c.e is not None for c in F.calls_of.get(rid, []))
            if ok_sub and avail:
                if st is None or st[1] != rid:
                    out.append(('item %s: last request %s was a successful subscription but the live id is %r' % (item, rid, None if st is None else st[1]), {'kind': 'wrong_live'}))
            if ok_sub and item in r.probe:
                # ... and behaviourally: an event for the live subscription is forwarded with its id (whatever the structures look like)
                msgs = r.probe[item]
                if not (len(msgs) == 1 and strip_ts(msgs[0])[1].split('|')[4:5] == [rid]):
                    out.append(('item %s: last request %s was a successful subscription but a later event gave %r' % (item, rid, msgs), {'kind': 'wrong_live'}))
    extra = set(r.final) - set(last)
    if extra:
        out.append(('bookkeeping for items never requested: %r' % (extra,), {'kind': 'retained'}))
    return out


ORACLES = {'C01': oracle_c01, 'C02': oracle_c02, 'C03': oracle_c03, 'C17': oracle_c17, 'C19': oracle_c19}


# ---------------------------------------------------------------- outbound path (C16)
def outbound_labels(r):
    """-> (labels for Model/Outbound.v, producer index per thread name)"""
    prod = {}
    labs = []
    ev_by_step = collections.defaultdict(list)
    for e in r.events[:r.n_events]:
        ev_by_step[e[1]].append(e)
        if e[0] == 'put' and e[2] == 'ctl':
            # enqueued by the (unscheduled) starting thread before any scheduled step: the credentials line
            labs.append([sym('put'), A(0), (e[3] if isinstance(e[3], str) else repr(e[3])).encode('utf-8')])
    for st in r.trace:
        kind = st['kind']
        if kind == 'put':
            p = prod.setdefault(st['tid'], len(prod) + 1)
            item = st['data']
            labs.append([sym('put'), A(p), (item if isinstance(item, str) else repr(item)).encode('utf-8')])
        elif st['role'] == 'writer' and kind == 'get':
            if any(e[0] == 'timeout' for e in ev_by_step[st['step']]):
                labs.append(sym('get-timeout'))
            else:
                labs.append(sym('get'))
        elif st['role'] == 'writer' and kind == 'send':
            ok = any(e[0] == 'send' for e in ev_by_step[st['step']])
            labs.append([sym('send'), A(ok)])
    return labs, prod


def oracle_c16(r, F):
    """atomic lines, no loss / duplication, per-thread order, events inside subscribe() before the reply"""
    out = []
    stream = b''.join(r.sent)
    if not stream.endswith(b'\r\n') and stream:
        out.append(('the byte stream does not end with a complete line', {'kind': 'partial_line'}))
    lines = stream.split(b'\r\n')[:-1] if stream else []
    puts = [(e[1], e[2], e[3]) for e in submissions(r) if isinstance(e[3], str)
            and e[3] not in ('STOP_WAITING_PILL', 'KEEPALIVE_PILL')]
    want = [p[2].encode('utf-8') for p in puts]
    if r.status == 'quiescent' and r.sc.fail_send is None:
        if lines != want:
            # classify
            import collections as c
            cw, cl = c.Counter(want), c.Counter(lines)
            if any(b'\r' in l or b'\n' in l for l in lines) or set(cl) - set(cw):
                out.append(('lines on the wire are not the submitted messages (interleaved / corrupted): %r' % ([l[:60] for l in lines if l not in cw][:3],), {'kind': 'interleaved'}))
            elif cl != cw:
                out.append(('messages lost or duplicated: submitted %d, written %d' % (len(want), len(lines)), {'kind': 'lost_or_dup'}))
            else:
                out.append(('messages written in an order different from the submission (linearization) order', {'kind': 'reordered'}))
    else:
        # prefix property while the connection is up
        if lines != want[:len(lines)]:
            out.append(('written lines are not a prefix of the submitted messages', {'kind': 'reordered'}))
        # after a failing write: what reached the wire is the complete lines written before it plus at most a fragment of
        # the line whose write failed — never that fragment followed by anything else
        wire_b = b''.join(getattr(r, 'wire', r.sent))
        whole = b''.join(l + b'\r\n' for l in lines)
        rest = wire_b[len(whole):] if wire_b.startswith(whole) else None
        nxt = (want[len(lines)] + b'\r\n') if len(lines) < len(want) else b''
        if rest is None or not nxt.startswith(rest):
            out.append(('after a failed write the wire holds %r after the complete lines: not a fragment of the line being written'
                        % ((rest if rest is not None else wire_b)[:60],), {'kind': 'torn_line'}))
    # the peer being slow is not a failure of the connection: a write that gives up on a timeout put on the shared socket
    # object leaves a fragment of its line on the wire and strands everything queued behind it
    nto = sum(1 for e in r.events[:r.n_events] if e[0] == 'send-timeout')
    if nto:
        out.append(('%d write(s) on the healthy connection gave up with socket.timeout after part of the line had gone out '
                    '(a timeout is set on the socket object the writer shares): torn line, the lines queued behind it are never written' % nto,
                    {'kind': 'write_timeout'}))
    # per-thread order
    by_thread = collections.defaultdict(list)
    for step, th, m in puts:
        by_thread[th].append(m.encode('utf-8'))
    pos = {}
    for i, l in enumerate(lines):
        pos.setdefault(l, []).append(i)
    multiplicity = collections.Counter(m for _, _, m in puts)
    for th, ms in by_thread.items():
        # judged on messages whose text is unique among all submissions (EOS / CLS lines of one subscription are identical texts)
        idx = [pos[m][0] for m in ms if multiplicity[m.decode('utf-8')] == 1 and len(pos.get(m, [])) == 1]
        if idx != sorted(idx):
            out.append(('messages of thread %s written out of its submission order' % th, {'kind': 'thread_order'}))
    # producer level: what a thread submitted through the listener API is what was enqueued for it — the line enqueued
    # during an update / failure call carries THAT call's payload (not lost, not replaced by another thread's, not doubled)
    def carries(line, lc):
        # the WHOLE payload of that call, as one token
        import urllib.parse
        return urllib.parse.quote_plus(lc.payload) in line.split('|')
    for lc in r.lis:
        if lc.kind not in ('upd', 'fal') or lc.e is None or lc.payload is None:
            continue
        mine = [p for p in puts if p[1] == lc.thread and lc.b <= p[0] <= lc.e]
        if len(mine) > 1:
            out.append(('%d messages enqueued during one %s call of thread %s' % (len(mine), lc.kind, lc.thread), {'kind': 'producer_dup'}))
        elif len(mine) == 1 and not carries(mine[0][2], lc):
            out.append(('the message enqueued during the %s call %s of thread %s is %r: not the data submitted by that call' % (
                lc.kind, lc.tag, lc.thread, mine[0][2][:80]), {'kind': 'producer_payload'}))
        n = sum(1 for p in puts if carries(p[2], lc))
        if n > 1:
            out.append(('the data submitted by the %s call %s was enqueued %d times' % (lc.kind, lc.tag, n), {'kind': 'producer_dup'}))
    # events nested in subscribe() precede that subscription's reply
    for lc in r.lis:
        if lc.within is not None and lc.within.name == 'subscribe' and lc.e is not None:
            mine = [p for p in puts if p[1] == lc.thread and lc.b <= p[0] <= lc.e]
            for rid, cs in F.calls_of.items():
                if any(c is lc.within for c in cs) and F.replies.get(rid) and mine:
                    rl = F.replies[rid][0][2].encode('utf-8')
                    ml = mine[0][2].encode('utf-8')
                    if rl in pos and ml in pos and pos[ml][0] > pos[rl][0]:
                        out.append(('an event sent from inside subscribe() of %s is written after its reply' % rid, {'kind': 'nested_after_reply'}))
    return out


ORACLES['C16'] = oracle_c16
