"""runner.py — entry point behind ./check (DESIGN.md 5, 9).

  ./check --setup
  ./check Cxx [--tier quick|thorough] [--replay file]

Exit 0: property shown (proof obligations checked by coqc on this run, model
agreed with /repo on everything run, oracle satisfied).  Exit 1 with a line
  VIOLATION property=<id> replay=<path> [no-failing-input-found]
otherwise.  KNOWN-FINDING lines are printed for open entries of
known_findings.json (never written at run time)."""
import hashlib
import importlib
import json
import os
import random
import sys
import time
import traceback

HERE = os.path.dirname(os.path.abspath(__file__))
VERIF = os.path.dirname(HERE)
sys.path.insert(0, HERE)

import build  # noqa: E402

# evidence/ and replays/ under /verif always come from /repo itself; a run against another tree
# (VERIF_REPO, used to try seeded changes) writes them to a scratch directory instead
OUT = os.environ.get('VERIF_OUT') or (VERIF if os.path.realpath(build.repo_path()) == '/repo'
                                      else '/tmp/verif-out')
import sx  # noqa: E402
from driver import Driver  # noqa: E402

TRUSTED_BASE_COMMON = [
    'Coq 8.16.1 kernel (coqc, full .vo build via coq_makefile; vm_compute used for finite sweeps; no native_compute)',
    'no Axiom/Parameter/Admitted in the development (grep on every run); Print Assumptions re-queried on every run (see assumptions_by_theorem)',
    'hand-written Gallina model (coq/Model/*.v) of the library code: tied to /repo only by the correspondence run recorded here and by Gen/Consts.v (constants reflected from the live modules by harness/gen_consts.py)',
    'extraction: Coq.extraction.Extraction + ExtrOcamlBasic only (bool, option, unit, list, prod, sumbool, sumor mapped to OCaml types; andb/orb inlined); no Extract Constant of our own; ocamlfind ocamlopt 4.13.1; ocaml/driver.ml (S-expression text <-> extracted types)',
    'correspondence harness (harness/*.py): generators, canonicalisation, oracles',
]


class Ctx:
    def __init__(self, pid, tier, seed):
        self.pid = pid
        self.tier = tier
        self.seed = seed
        self.repo = build.repo_path()
        self.rng = random.Random(seed)
        self.driver = None
        self.build = None
        self.t0 = time.time()

    def model(self, calls):
        """evaluate a batch of model calls (list of sexps) -> list of sexps"""
        return self.driver.batch(calls)


class Result:
    def __init__(self):
        self.evaluations = 0
        self.nontrivial = set()      # distinct non-trivial case keys
        self.samples = []
        self.rule = ''
        self.exhaustive = False
        self.exhaustive_note = ''
        self.histogram = {}
        self.oracle_violations = []  # [{'case':..., 'detail':..., 'key':{...}}]
        self.disagreements = []      # [{'case':..., 'model':..., 'impl':..., 'relation':...}]
        self.unmodelled = 0
        self.traces = 0              # implementation runs compared with the model
        self.assumptions = []
        self.extra = {}

    def count(self, tag, n=1):
        self.histogram[tag] = self.histogram.get(tag, 0) + n

    def sample(self, s, limit=6):
        if len(self.samples) < limit:
            self.samples.append(s)


def jsonable(x):
    if isinstance(x, (bytes, bytearray)):
        try:
            return bytes(x).decode('ascii') if all(32 <= c < 127 for c in x) else 'hex:' + bytes(x).hex()
        except Exception:
            return 'hex:' + bytes(x).hex()
    if isinstance(x, dict):
        return {str(jsonable(k)): jsonable(v) for k, v in x.items()}
    if isinstance(x, (list, tuple, set, frozenset)):
        return [jsonable(v) for v in x]
    if isinstance(x, (int, float, str, bool)) or x is None:
        return x
    from fractions import Fraction
    if isinstance(x, Fraction):
        return str(x)
    return repr(x)


def load_known():
    p = os.path.join(VERIF, 'known_findings.json')
    if not os.path.exists(p):
        return []
    return json.load(open(p)).get('findings', [])


def matches(entry_match, key):
    if not isinstance(key, dict):
        return False
    return all(key.get(k) == v for k, v in entry_match.items())


def write_replay(pid, data):
    os.makedirs(os.path.join(OUT, 'replays'), exist_ok=True)
    blob = json.dumps(jsonable(data), sort_keys=True, indent=1)
    h = hashlib.sha256(blob.encode()).hexdigest()[:12]
    path = os.path.join(OUT, 'replays', '%s-%s.json' % (pid, h))
    with open(path, 'w') as f:
        f.write(blob + '\n')
    return path


def prop_file(pid):
    return 'Props/%s.v' % pid


def proof_status(pid, st):
    """obligations / discharged / assumptions for the property's theorem file"""
    rel = prop_file(pid)
    info = {'prop_file': rel, 'ok': False, 'obligations': 0, 'discharged': 0,
            'theorems': [], 'assumptions': {}, 'errors': [], 'deps': []}
    if not os.path.exists(os.path.join(build.COQ, rel)):
        info['errors'].append('%s does not exist' % rel)
        return info
    deps = build.deps_of(rel)
    info['deps'] = deps
    stmts = []
    qeds = 0
    for d in deps:
        if d.startswith('Proofs/') or d.startswith('Props/'):
            stmts += [(d, k, n) for k, n in build.statements_in(d)]
            qeds += build.count_qed(d)
    info['obligations'] = len(stmts)
    up = build.vo_uptodate(rel)
    bad = [f for f in st.forbidden]
    errs = [(f, m) for f, m in st.errors if f in deps]
    if not st.consts_ok:
        info['errors'].append('Gen/Consts.v could not be regenerated: ' + st.consts_msg)
    if errs:
        info['errors'] += ['%s: %s' % e for e in errs]
    if bad:
        info['errors'].append('forbidden constructs: %r' % bad)
    if not up and not errs:
        info['errors'].append('%s.vo is not up to date after make' % rel[:-2])
    names = [n for k, n in build.statements_in(rel)]
    info['theorems'] = names
    if up and not bad and st.consts_ok:
        res, raw = build.print_assumptions(rel, names)
        if res is None:
            info['errors'].append('Print Assumptions failed: ' + raw[-500:])
        else:
            info['assumptions'] = res
            info['ok'] = True
            info['discharged'] = min(qeds, len(stmts)) if qeds >= len(stmts) else qeds
    return info


def main(argv):
    if '--setup' in argv:
        st = build.ensure_build(verbose=True)
        ok = st.consts_ok and st.make_ok and st.driver_ok and not st.forbidden
        print('setup:', 'ok' if ok else 'FAILED', 'in %.1fs' % st.wall_s)
        if not ok:
            print(st.consts_msg)
            print(st.errors, st.forbidden, st.driver_msg)
        return 0 if ok else 1
    pid = argv[0]
    tier = os.environ.get('VERIF_TIER', 'quick')
    replay = None
    i = 1
    while i < len(argv):
        if argv[i] == '--tier':
            tier = argv[i + 1]
            i += 2
        elif argv[i] == '--replay':
            replay = argv[i + 1]
            i += 2
        else:
            i += 1
    if tier not in ('quick', 'thorough'):
        tier = 'quick'
    seed = int(os.environ.get('VERIF_SEED', '20260926'))
    ctx = Ctx(pid, tier, seed)
    sys.path.insert(0, ctx.repo)
    os.environ['PYTHONHASHSEED'] = '0'
    import logging
    logging.disable(logging.CRITICAL)
    # a hang (e.g. a deadlock inside the code under test) must end the check, not stall it
    import faulthandler
    faulthandler.dump_traceback_later(int(os.environ.get('VERIF_WATCHDOG_S', '1500' if tier == 'quick' else '10800')), exit=True)
    st = build.ensure_build()
    ctx.build = st
    mod = importlib.import_module('props.' + pid.lower())
    pinfo = proof_status(pid, st)
    if st.driver_ok:
        ctx.driver = Driver(build.DRIVER)
    else:
        print('driver build failed:', st.driver_msg[-800:])

    if replay:
        data = json.load(open(replay))
        if data.get('kind') == 'obligation' and not data.get('case'):
            still = not pinfo['ok']
            print('obligation replay: %s' % ('still broken' if still else 'now checks'))
            if still:
                print('VIOLATION property=%s replay=%s no-failing-input-found' % (pid, replay))
                return 1
            return 0
        fails, detail = mod.replay(ctx, data)
        print(detail)
        if fails:
            print('VIOLATION property=%s replay=%s' % (pid, replay))
            return 1
        print('replay no longer fails')
        return 0

    res = Result()
    crashed = None
    if ctx.driver is not None:
        try:
            mod.run(ctx, res)
        except Exception:
            crashed = traceback.format_exc()
            print(crashed)
    else:
        crashed = 'no driver: ' + st.driver_msg[-500:]

    known = [k for k in load_known() if k.get('property') == pid]
    open_known = [k for k in known if k.get('status') == 'open']
    new_viol = []
    known_hit = {}
    for v in res.oracle_violations:
        hit = None
        for k in open_known:
            if matches(k.get('match', {}), v.get('key', {})):
                hit = k
                break
        if hit is not None:
            known_hit[hit['what']] = known_hit.get(hit['what'], 0) + 1
        else:
            new_viol.append(v)
    exit_code = 0
    lines = []
    for what, n in known_hit.items():
        lines.append('KNOWN-FINDING: property=%s %s' % (pid, what))
    if new_viol:
        v = new_viol[0]
        if hasattr(mod, 'minimise'):
            try:
                v = mod.minimise(ctx, v)
            except Exception:
                traceback.print_exc()
        path = write_replay(pid, {'property': pid, 'kind': v.get('kind', 'input'), 'seed': seed,
                                  'case': v.get('case'), 'detail': v.get('detail'),
                                  'key': v.get('key'), 'source': 'oracle on the implementation'})
        lines.append('VIOLATION property=%s replay=%s' % (pid, path))
        exit_code = 1
    elif (not pinfo['ok']) or res.disagreements or crashed:
        # the property is no longer shown: search for a failing input
        found = None
        if hasattr(mod, 'search') and ctx.driver is not None:
            try:
                found = mod.search(ctx, res)
            except Exception:
                traceback.print_exc()
        if found is not None and any(matches(k.get('match', {}), found.get('key', {})) for k in open_known):
            found = None
        if found is not None:
            path = write_replay(pid, {'property': pid, 'kind': found.get('kind', 'input'), 'seed': seed,
                                      'case': found.get('case'), 'detail': found.get('detail'),
                                      'key': found.get('key'),
                                      'source': 'failing-input search after a broken obligation/correspondence',
                                      'broken': {'proof_errors': pinfo['errors'],
                                                 'disagreements': res.disagreements[:3]}})
            lines.append('VIOLATION property=%s replay=%s' % (pid, path))
        else:
            what = {}
            if not pinfo['ok']:
                what['theorem_file'] = pinfo['prop_file']
                what['theorems'] = pinfo['theorems']
                what['errors'] = pinfo['errors']
            if res.disagreements:
                what['correspondence'] = res.disagreements[:5]
            if crashed:
                what['harness_exception'] = crashed[-3000:]
            path = write_replay(pid, {'property': pid, 'kind': 'obligation', 'seed': seed,
                                      'theorem_or_relation': what,
                                      'case': (res.disagreements[0].get('case') if res.disagreements else None)})
            lines.append('VIOLATION property=%s replay=%s no-failing-input-found' % (pid, path))
        exit_code = 1

    wall = time.time() - ctx.t0
    tb = list(TRUSTED_BASE_COMMON) + list(getattr(mod, 'TRUSTED', []))
    for n, a in pinfo['assumptions'].items():
        tb.append('Print Assumptions %s: %s' % (n, ' '.join(a.split())))
    ev = {
        'property_id': pid, 'tier': tier, 'seed': seed, 'level': 'proof',
        'coverage': {
            'obligations': pinfo['obligations'],
            'discharged': pinfo['discharged'] if pinfo['ok'] else 0,
            'checker_cmd': st.checker_cmd + ' ; then coqc Print Assumptions for ' + ', '.join(pinfo['theorems']),
            'trusted_base': tb,
            'theorem_file': pinfo['prop_file'],
            'theorems': pinfo['theorems'],
            'proof_files': [d for d in pinfo['deps'] if not d.startswith('Model/') and not d.startswith('Gen/')],
            'model_files': [d for d in pinfo['deps'] if d.startswith('Model/') or d.startswith('Gen/')],
            'proof_errors': pinfo['errors'],
            'evaluations': res.evaluations,
            'distinct_nontrivial': len(res.nontrivial),
            'rule': res.rule,
            'samples': jsonable(res.samples) if res.samples else ['(no correspondence case was run)'],
            'traces_validated_against_impl': res.traces,
            'exhaustive': bool(res.exhaustive),
            'exhaustive_note': res.exhaustive_note,
            'branch_histogram': res.histogram,
            'unmodelled_skipped': res.unmodelled,
            'correspondence_disagreements': len(res.disagreements),
            'oracle_violations': len(res.oracle_violations),
            'known_findings_hit': known_hit,
            'build_wall_s': round(st.wall_s, 2),
        },
        'assumptions': list(getattr(mod, 'ASSUMPTIONS', [])),
        'wall_s': round(wall, 2),
        'violations': len(new_viol) + (1 if (exit_code == 1 and not new_viol) else 0),
    }
    ev['coverage'].update(jsonable(res.extra))
    os.makedirs(os.path.join(OUT, 'evidence'), exist_ok=True)
    with open(os.path.join(OUT, 'evidence', '%s.json' % pid), 'w') as f:
        json.dump(ev, f, indent=1, sort_keys=True)
        f.write('\n')
    print('%s tier=%s seed=%d: obligations %d/%d, %d evaluations (%d distinct non-trivial), '
          '%d disagreements, %d oracle violations, %.1fs'
          % (pid, tier, seed, ev['coverage']['discharged'], ev['coverage']['obligations'],
             res.evaluations, len(res.nontrivial), len(res.disagreements),
             len(res.oracle_violations), wall))
    for l in lines:
        print(l)
    if ctx.driver is not None:
        ctx.driver.close()
    return exit_code


if __name__ == '__main__':
    sys.exit(main(sys.argv[1:]))
