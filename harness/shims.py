"""shims.py — stand-ins for the primitives the library uses, bound to a Sched
(DESIGN.md 4).  install(sched, ...) rebinds module globals of the imported
library: subscription.threading (Lock, RLock), server.queue (Queue, Empty),
server.Thread, server.ThreadPoolExecutor, server.create_socket_and_connect,
server.time, server.os, server.cpu_count.  Every shared-memory action yields to
the scheduler first; observables are appended to sched.events as
(kind, step_no, thread_name, data...)."""
import collections
import contextlib
import sys
import types

from dsched import Killed, Halt


def _ev(S, kind, *data):
    t = S.me()
    S.events.append((kind, S.step_no, t.name if t else 'ctl') + tuple(data))


# ---------------------------------------------------------------- locks
class MLock:
    def __init__(self, S, reentrant, tag):
        self.S = S
        self.reentrant = reentrant
        self.tag = tag
        self.owner = None
        self.depth = 0

    def _free_for(self, me):
        return self.owner is None or (self.reentrant and self.owner is me)

    def acquire(self, blocking=True, timeout=-1):
        me = self.S.me()
        self.S.yield_('acquire', self.tag, cond=lambda: self._free_for(me))
        if not self._free_for(me):
            raise RuntimeError('controller thread found a held lock')
        self.owner = me
        self.depth += 1
        return True

    def release(self):
        self.depth -= 1
        if self.depth == 0:
            self.owner = None
            # code between the end of a lock region and the next shared action is a step of
            # its own: it is thread-local in the library as written, but a change that moves a
            # shared access out of a region must be exposed to preemption here
            self.S.yield_('released', self.tag)

    def __enter__(self):
        self.acquire()
        return self

    def __exit__(self, *a):
        self.release()
        return False


class MSemaphore:
    """scheduler-aware threading.Semaphore / BoundedSemaphore (the library as written uses none; a change that adds one
    must not take the run out of the scheduler's hands)"""

    def __init__(self, S, value=1, bounded=False):
        self.S = S
        self.value = value
        self.initial = value
        self.bounded = bounded

    def acquire(self, blocking=True, timeout=None):
        if not blocking:
            if self.value > 0:
                self.value -= 1
                return True
            return False
        self.S.yield_('sem-acquire', None, cond=lambda: self.value > 0)
        if self.value <= 0:
            raise RuntimeError('controller thread found an exhausted semaphore')
        self.value -= 1
        return True

    def release(self, n=1):
        if self.bounded and self.value + n > self.initial:
            raise ValueError('Semaphore released too many times')
        self.value += n
        self.S.yield_('released', ('S', None))

    __enter__ = acquire

    def __exit__(self, *a):
        self.release()
        return False


class MCondition:
    """threading.Condition under the scheduler (the library as written uses none; a rewrite of the writer's backlog with a
    deque and a condition variable must stay in the scheduler's hands): wait releases the lock, blocks until notified — or,
    given a timeout, may return at any time — and takes the lock again"""

    def __init__(self, S, lock=None):
        self.S = S
        self.lock = lock if lock is not None else MLock(S, True, ('X', None))
        self.waiters = []

    def acquire(self, *a, **k):
        return self.lock.acquire(*a, **k)

    def release(self):
        return self.lock.release()

    def __enter__(self):
        self.lock.acquire()
        return self

    def __exit__(self, *a):
        self.lock.release()
        return False

    def wait(self, timeout=None):
        me = self.S.me()
        if self.lock.owner is not me:
            raise RuntimeError('cannot wait on un-acquired lock')
        w = {'notified': False}
        self.waiters.append(w)
        depth = self.lock.depth
        self.lock.depth = 0
        self.lock.owner = None
        if timeout is None:
            self.S.yield_('clock', ('cond-wait',), cond=lambda: w['notified'])
        else:
            self.S.yield_('clock', ('cond-wait', timeout))
        if w in self.waiters:
            self.waiters.remove(w)
        self.S.yield_('acquire', self.lock.tag, cond=lambda: self.lock._free_for(me))
        self.lock.owner = me
        self.lock.depth = depth
        return w['notified']

    def wait_for(self, predicate, timeout=None):
        result = predicate()
        while not result:
            notified = self.wait(timeout)
            result = predicate()
            if timeout is not None and not notified:
                break               # the timeout elapsed
        return result

    def notify(self, n=1):
        for w in self.waiters[:n]:
            w['notified'] = True
        del self.waiters[:n]

    def notify_all(self):
        self.notify(len(self.waiters))

    notifyAll = notify_all


def make_threading_ns(S):
    import threading as _real
    ns = types.SimpleNamespace()
    # everything the real module offers stays available; the blocking primitives are replaced below
    for k in dir(_real):
        if not k.startswith('__'):
            setattr(ns, k, getattr(_real, k))
    ns.Semaphore = lambda value=1: MSemaphore(S, value)
    ns.BoundedSemaphore = lambda value=1: MSemaphore(S, value, bounded=True)
    ns.Event = lambda: MEvent(S)
    ns.Condition = lambda lock=None: MCondition(S, lock)

    def Lock():
        # the item lock is created in _ItemTaskManager.__init__(self, <item name>, ...): tag it with the first
        # positional argument of the creating frame (whatever that parameter is called)
        f = sys._getframe(1)
        item = f.f_locals.get('item_name')
        if item is None and f.f_code.co_argcount >= 2:
            item = f.f_locals.get(f.f_code.co_varnames[1])
        return MLock(S, False, ('I', item))

    def RLock():
        return MLock(S, True, ('M', None))
    ns.Lock = Lock
    ns.RLock = RLock
    return ns


# ---------------------------------------------------------------- queue
class Empty(Exception):
    pass


class _NoLock:
    """exactly one managed thread runs at a time: a region without yield points is atomic by construction"""

    def acquire(self, *a, **k):
        return True

    def release(self):
        pass

    def __enter__(self):
        return self

    def __exit__(self, *a):
        return False


class _NoCond(_NoLock):
    def notify(self, n=1):
        pass

    def notify_all(self):
        pass

    def wait(self, timeout=None):
        return True


class MQueue:
    def __init__(self, S, clock):
        self.S = S
        self.clock = clock
        self.items = collections.deque()
        self.waiter = None          # dict(thread, start, timeout, fired) while a get is parked
        self.log = []               # every item ever put, in order
        # the documented-by-use internals of queue.Queue, for code that reaches into them: `with q.mutex: q.queue.clear()`
        self.queue = self.items
        self.mutex = _NoLock()
        self.not_empty = self.not_full = self.all_tasks_done = _NoCond()
        self.maxsize = 0
        self.unfinished_tasks = 0

    def put(self, item, block=True, timeout=None):
        self.S.yield_('put', item)
        self.items.append(item)
        self.log.append(item)
        _ev(self.S, 'put', item)

    put_nowait = put

    def get(self, block=True, timeout=None):
        w = {'thread': self.S.me(), 'start': self.clock.now, 'timeout': timeout, 'fired': False}
        self.waiter = w
        self.S.yield_('get', {'timeout': timeout}, cond=lambda: bool(self.items) or w['fired'])
        self.waiter = None
        if self.items:
            return self.items.popleft()
        if w['fired']:
            _ev(self.S, 'timeout', timeout)
            raise Empty()
        raise RuntimeError('get scheduled with nothing to return')

    def get_nowait(self):
        if self.items:
            return self.items.popleft()
        raise Empty()

    def empty(self):
        return not self.items

    def qsize(self):
        return len(self.items)


class MEvent:
    """threading.Event under the scheduler: set / clear are followed by a preemption point (of the kind the label mappings ignore),
    wait blocks until the flag is set — or, given a timeout, may return at any time (a timeout can always elapse)"""

    def __init__(self, S):
        self.S = S
        self.flag = False

    def is_set(self):
        return self.flag

    isSet = is_set

    def set(self):
        # (the preemption point comes AFTER the operation, as for a lock release: the flag changes in the region that
        # performs the call, which is where the connection-level model puts it)
        self.flag = True
        self.S.yield_('clock', ('event-set',))

    def clear(self):
        self.flag = False
        self.S.yield_('clock', ('event-clear',))

    def wait(self, timeout=None):
        if timeout is None:
            self.S.yield_('clock', ('event-wait',), cond=lambda: self.flag)
        else:
            self.S.yield_('clock', ('event-wait', timeout))
        return self.flag


class Clock:
    def __init__(self, now=1700000000.0, S=None):
        self.now = now
        self.S = S

    def time(self):
        # reading the clock is an interaction with the environment: a preemption point (a step of kind
        # 'clock', ignored by the label mappings), so that unsynchronised state around it is exposed
        if self.S is not None:
            self.S.yield_('clock', None)
        return self.now

    def sleep(self, s):
        self.now += s


# ---------------------------------------------------------------- threads
class ThreadShimFactory:
    def __init__(self, S):
        self.S = S
        self.created = []

    def __call__(self, group=None, target=None, name=None, args=(), kwargs=None, daemon=None):
        return MThreadHandle(self, target, name or 'thread', args)


class MThreadHandle:
    def __init__(self, fac, target, name, args):
        self.fac = fac
        self.target = target
        self.name = name
        self.args = args
        self.mt = None

    def start(self):
        S = self.fac.S
        role = 'writer' if self.name.startswith('Sender-Thread') else 'reader' if self.name.startswith('RequestReceiver') else 'thread'
        S.yield_('thread-start', role)
        self.mt = S.spawn(role, role, self.target, self.args)
        self.fac.created.append(self)
        _ev(S, 'thread-start', role)

    def join(self, timeout=None):
        mt = self.mt
        if timeout is None:
            self.fac.S.yield_('join', self.name, cond=lambda: mt is None or mt.state == 'dead')
        else:
            # a join with a timeout gives up when the thread does not end in time: here, whenever the thread is about to
            # write to the socket (the peer may be slow for as long as it likes) — never while it merely waits for work
            self.fac.S.yield_('join', self.name, cond=lambda: mt is None or mt.state == 'dead' or
                              (mt.state == 'parked' and mt.pending and mt.pending[0] == 'send'))

    def is_alive(self):
        return self.mt is not None and self.mt.state != 'dead'


# ---------------------------------------------------------------- executor
class Job:
    def __init__(self, jid, fn, args, kwargs):
        self.id = jid
        self.fn = fn
        self.args = args
        self.kwargs = kwargs
        self.error = None
        self.done = False
        owner = getattr(fn, '__self__', None)
        self.item = getattr(owner, '_item_name', None)
        if self.item is None and owner is not None:
            # whatever the attribute is called: the owner's item lock was tagged with the item name when it was created
            for v in list(getattr(owner, '__dict__', {}).values()):
                if isinstance(v, MLock) and not v.reentrant and v.tag[0] == 'I':
                    self.item = v.tag[1]
                    break
        self.owner = owner


class MExecutor:
    instances = []

    def __init__(self, S, max_workers=None, *a, **k):
        self.S = S
        self.max_workers = max_workers
        self.jobs = collections.deque()
        self.all_jobs = []
        self.workers = []
        self.busy = 0
        self.shutdown_flag = False
        self.shutdown_calls = 0
        MExecutor.instances.append(self)

    def submit(self, fn, *args, **kwargs):
        # atomic with the region it is called from (it is called while the item lock is held)
        if self.shutdown_flag:
            raise RuntimeError('cannot schedule new futures after shutdown')
        job = Job(len(self.all_jobs), fn, args, kwargs)
        self.all_jobs.append(job)
        self.jobs.append(job)
        _ev(self.S, 'submit', job.id, job.item)
        n = self.max_workers if isinstance(self.max_workers, int) and self.max_workers > 0 else 1
        if len(self.workers) < n:
            w = self.S.spawn('worker%d' % len(self.workers), 'worker', self._worker, (len(self.workers),))
            self.workers.append(w)
        return None

    def _worker(self, idx):
        S = self.S
        while True:
            S.yield_('job', None, cond=lambda: bool(self.jobs) or self.shutdown_flag)
            if not self.jobs:
                return
            job = self.jobs.popleft()
            self.busy += 1
            _ev(S, 'job-start', job.id, job.item)
            try:
                job.fn(*job.args, **job.kwargs)
            except (Killed, Halt):
                raise
            except BaseException as e:    # a Future stores it
                job.error = e
                _ev(S, 'job-error', job.id, repr(e))
            finally:
                job.done = True
                self.busy -= 1
            _ev(S, 'job-end', job.id, job.item)

    def shutdown(self, wait=True, cancel_futures=False, **k):
        self.shutdown_calls += 1
        self.shutdown_flag = True
        _ev(self.S, 'pool-shutdown', wait)
        if cancel_futures:
            # concurrent.futures semantics: work items not yet started are cancelled
            dropped = list(self.jobs)
            self.jobs.clear()
            for j in dropped:
                _ev(self.S, 'job-cancelled', j.id, j.item)
        if wait:
            me = self.S.me()
            self.S.yield_('shutdown-wait', None,
                          cond=lambda: not self.jobs and all(w.state == 'dead' or w is me for w in self.workers))


# ---------------------------------------------------------------- socket
class FakeSock:
    """script: chunks (list of bytes), then `end`: 'block' | 'eof' | 'error';
    fail_send: 1-based index of the sendall that raises OSError (or None)"""

    def __init__(self, S, chunks, end='block', fail_send=None):
        self.S = S
        self.chunks = collections.deque(chunks)
        self.end = end
        self.fail_send = fail_send
        self.sent = []
        self.sends = 0
        self.closed = 0
        self.delivered = 0
        # the class of the injected I/O error varies with the scenario (deterministically): any OSError is an I/O failure
        self.errkind = (len(self.chunks) + (fail_send or 0)) % 6
        self.wire = []          # every byte that reached the wire, in order: complete sendall payloads and the fragment a failing sendall got out
        # a timeout put on the socket object (settimeout) applies to every blocking operation of every thread that uses
        # it.  The peer of these runs is slow now and then: it lets every second write, and the first reads that find
        # nothing, wait longer than any timeout.  Without a timeout (the library sets none) such an operation simply
        # takes longer — invisible here; with one it raises socket.timeout, a write after part of the data went out.
        self.timeout = None
        self.recv_timeouts = 0

    def io_error(self, reading):
        import ssl
        k = self.errkind
        if k == 0:
            return ConnectionResetError(104, 'Connection reset by peer') if reading else BrokenPipeError(32, 'Broken pipe')
        if k == 1:
            return TimeoutError(110, 'Connection timed out')
        if k == 2:
            return OSError(105, 'No buffer space available')
        if k == 3:
            return ssl.SSLError(1, '[SSL] record layer failure')
        if k == 5:
            return InterruptedError(4, 'Interrupted system call')
        return OSError('injected I/O failure')

    def recv(self, n):
        def timed():
            return self.timeout is not None and self.recv_timeouts < 3
        self.S.yield_('recv', None, cond=lambda: bool(self.chunks) or self.end != 'block' or self.closed > 0 or timed())
        if not self.closed and not self.chunks and self.end == 'block' and timed():
            self.recv_timeouts += 1
            _ev(self.S, 'recv-timeout')
            import socket as _socket
            raise _socket.timeout('timed out')
        if self.closed:
            _ev(self.S, 'recv-closed')
            raise OSError(9, 'Bad file descriptor')
        if self.chunks:
            c = self.chunks.popleft()
            self.delivered += 1
            _ev(self.S, 'recv', c)
            return c
        if self.end == 'eof':
            _ev(self.S, 'recv-eof')
            return b''
        _ev(self.S, 'recv-error')
        raise self.io_error(True)

    def sendall(self, data):
        self.S.yield_('send', bytes(data))
        self.sends += 1
        if self.closed:
            _ev(self.S, 'send-closed', bytes(data))
            raise OSError(9, 'Bad file descriptor')
        if self.fail_send is not None and self.sends >= self.fail_send:
            _ev(self.S, 'send-error', bytes(data))
            # a failing sendall may already have written part of the data (here: the first half)
            self.wire.append(bytes(data)[:len(data) // 2])
            raise self.io_error(False)
        if self.timeout is not None and self.sends % 2 == 0:
            _ev(self.S, 'send-timeout', bytes(data))
            self.wire.append(bytes(data)[:len(data) // 2])
            import socket as _socket
            raise _socket.timeout('timed out')
        self.sent.append(bytes(data))
        self.wire.append(bytes(data))
        _ev(self.S, 'send', bytes(data))

    def send(self, data):
        """socket.send may accept only part of the data (here: at most 16 KiB, less than any chunk size a caller
        is likely to slice by) and returns the count"""
        self.S.yield_('send', bytes(data))
        self.sends += 1
        if self.closed:
            _ev(self.S, 'send-closed', bytes(data))
            raise OSError(9, 'Bad file descriptor')
        if self.fail_send is not None and self.sends >= self.fail_send:
            _ev(self.S, 'send-error', bytes(data))
            raise self.io_error(False)
        if self.timeout is not None and self.sends % 2 == 0:
            _ev(self.S, 'send-timeout', bytes(data))
            import socket as _socket
            raise _socket.timeout('timed out')
        part = bytes(data)[:16384]
        self.sent.append(part)
        self.wire.append(part)
        _ev(self.S, 'send', part)
        return len(part)

    def close(self):
        self.S.yield_('sock-close', None)
        self.closed += 1
        _ev(self.S, 'sock-close')

    def settimeout(self, t):
        self.timeout = t

    def gettimeout(self):
        return self.timeout

    def setblocking(self, flag):
        self.timeout = None if flag else 0.0


class FakeOS:
    def __init__(self, S):
        self.S = S
        self.exits = []

    def _exit(self, code):
        self.exits.append(code)
        _ev(self.S, 'exit', code)
        self.S.halted = True
        raise Halt()


# ---------------------------------------------------------------- install
class Env:
    pass


# ---------------------------------------------------------------- lock discipline (lockset) tracing
# The LTS models attribute every access to the shared fields of subscription.py to one lock region
# (Model/Item.v: item-lock region / manager-lock region).  That attribution is checked on every scheduled
# run: an access to one of these fields by a library thread that does not hold the corresponding lock is
# recorded.  Construction of an _ItemTaskManager (inside the manager-lock region of do_subscription) and
# accesses from the controller thread after the run are exempt.
ITEM_LOCK_FIELDS = ('_tasks_deq', '_isrunning', '_last_subscribe_outcome')
MGR_LOCK_FIELDS = ('_queued', '_code')


def make_traced(S, env, ITM, SM):
    oga = object.__getattribute__

    def held(lock, me):
        return isinstance(lock, MLock) and lock.owner is me

    def note(obj, field, mode, lock, what):
        me = S.me()
        if me is None or getattr(S, 'finished', False):
            return
        if not held(lock, me):
            env.lock_violations.append({'field': field, 'mode': mode, 'thread': getattr(me, 'name', '?'),
                                        'needs': what, 'step': len(S.trace)})

    class TracedITM(ITM):
        def __init__(self, *a, **k):
            object.__setattr__(self, '_lk_init', True)
            try:
                ITM.__init__(self, *a, **k)
            finally:
                object.__setattr__(self, '_lk_init', False)

        def _lk(self, name, mode):
            try:
                if oga(self, '_lk_init'):
                    return
                if name in ITEM_LOCK_FIELDS:
                    note(self, name, mode, oga(self, '_lock'), 'item lock')
                else:
                    note(self, name, mode, oga(oga(self, '_subscription_mgr'), '_active_items_lock'), 'manager lock')
            except AttributeError:
                pass

        def __getattribute__(self, name):
            if name in ITEM_LOCK_FIELDS or name in MGR_LOCK_FIELDS:
                oga(self, '_lk')(name, 'read')
            return oga(self, name)

        def __setattr__(self, name, value):
            if name in ITEM_LOCK_FIELDS or name in MGR_LOCK_FIELDS:
                oga(self, '_lk')(name, 'write')
            object.__setattr__(self, name, value)
    TracedITM.__name__ = ITM.__name__
    TracedITM.__qualname__ = ITM.__qualname__

    class TracedSM(SM):
        def __getattribute__(self, name):
            if name == '_active_items':
                try:
                    note(self, name, 'access', oga(self, '_active_items_lock'), 'manager lock')
                except AttributeError:
                    pass
            return oga(self, name)
    TracedSM.__name__ = SM.__name__
    TracedSM.__qualname__ = SM.__qualname__
    return TracedITM, TracedSM


@contextlib.contextmanager
def install(S, chunks=(), end='block', fail_send=None, cpu=8, cpu_raises=False):
    import lightstreamer_adapter.server as server
    import lightstreamer_adapter.subscription as subscription
    env = Env()
    env.S = S
    S.halted = False
    env.clock = Clock(S=S)
    env.sock = FakeSock(S, chunks, end, fail_send)
    env.os = FakeOS(S)
    env.queues = []
    env.threads = ThreadShimFactory(S)
    MExecutor.instances = []
    # (a module global that a rewrite no longer binds is not re-created: what used it is then whatever the rewrite uses)
    saved_server = {n: getattr(server, n) for n in ('queue', 'Thread', 'ThreadPoolExecutor', 'create_socket_and_connect', 'time', 'os', 'cpu_count')
                    if hasattr(server, n)}
    saved_threading = subscription.threading

    def mkqueue(maxsize=0):
        q = MQueue(S, env.clock)
        env.queues.append(q)
        return q
    qns = types.SimpleNamespace(Queue=mkqueue, Empty=Empty)

    def connect(address, ssl_context=None):
        env.connect_args = (address, ssl_context)
        return env.sock

    def fake_cpu():
        if cpu_raises:
            raise NotImplementedError()
        return cpu
    for n, v in (('queue', qns), ('Thread', env.threads), ('ThreadPoolExecutor', lambda *a, **k: MExecutor(S, *a, **k)),
                 ('create_socket_and_connect', connect), ('time', env.clock), ('os', env.os), ('cpu_count', fake_cpu)):
        if n in saved_server:
            setattr(server, n, v)
    subscription.threading = make_threading_ns(S)
    # any other blocking primitive of the threading module that a library module has bound (`import threading`,
    # `from threading import Lock, Semaphore, ...`) is replaced by its scheduler-aware stand-in as well
    import threading as _real
    import lightstreamer_adapter.protocol as _p
    import lightstreamer_adapter.data_protocol as _dp
    import lightstreamer_adapter.metadata_protocol as _mp
    tns = subscription.threading
    rebound = []
    for mod in (server, subscription, _p, _dp, _mp):
        for name, val in list(vars(mod).items()):
            new = None
            if val is _real and mod is not subscription:
                new = tns
            elif val is _real.Lock:
                new = lambda: MLock(S, False, ('X', None))
            elif val is _real.RLock:
                new = lambda: MLock(S, True, ('X', None))
            elif val is _real.Semaphore:
                new = tns.Semaphore
            elif val is _real.BoundedSemaphore:
                new = tns.BoundedSemaphore
            elif val is _real.Event:
                new = lambda: MEvent(S)
            elif val is _real.Condition:
                new = lambda lock=None: MCondition(S, lock)
            if new is not None:
                rebound.append((mod, name, val))
                setattr(mod, name, new)
    # the point where a message is handed to the writer, whatever the writer keeps its backlog in: recorded as 'send-msg'
    # events (the oracles fall back on them when the backlog is not the queue stand-in, e.g. after a rewrite of _Sender)
    sender_cls = getattr(server, '_Sender', None)
    orig_send = getattr(sender_cls, 'send', None) if sender_cls is not None else None
    if orig_send is not None:
        def spy_send(self_, message, *a, **k):
            _ev(S, 'send-msg', message)
            return orig_send(self_, message, *a, **k)
        sender_cls.send = spy_send
    saved_classes = (subscription._ItemTaskManager, subscription.SubscriptionManager, server.SubscriptionManager)
    env.lock_violations = []
    traced_itm, traced_sm = make_traced(S, env, subscription._ItemTaskManager, subscription.SubscriptionManager)
    subscription._ItemTaskManager = traced_itm
    subscription.SubscriptionManager = traced_sm
    server.SubscriptionManager = traced_sm
    try:
        yield env
    finally:
        if orig_send is not None:
            sender_cls.send = orig_send
        for n, v in saved_server.items():
            setattr(server, n, v)
        subscription.threading = saved_threading
        for mod, name, val in rebound:
            setattr(mod, name, val)
        subscription._ItemTaskManager, subscription.SubscriptionManager, server.SubscriptionManager = saved_classes
