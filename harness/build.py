"""build.py — rebuild everything a check needs from the current trees
(DESIGN.md 3, 5.1): Gen/Consts.v from the live library, the Coq development
(full .vo build, never -vos), the extracted OCaml driver.  Serialised with
flock so concurrent checks do not trample each other."""
import fcntl
import hashlib
import os
import re
import subprocess
import sys
import time

VERIF = os.path.dirname(os.path.dirname(os.path.abspath(__file__)))
COQ = os.path.join(VERIF, 'coq')
OCAML = os.path.join(VERIF, 'ocaml')
GEN = os.path.join(OCAML, 'gen')
DRIVER = os.path.join(OCAML, 'driver.exe')
PY = '/venv/bin/python'

FORBIDDEN = re.compile(
    r'\b(Admitted|admit|Axiom|Axioms|Parameter|Parameters|Conjecture|Abort All|'
    r'Admit Obligations|bypass_check)\b|Unset\s+Guard|Unset\s+Positivity|'
    r'Unset\s+Universe\s+Checking|type-in-type|impredicative-set')
TOPLEVEL_VAR = re.compile(r'^\s*(Variable|Variables|Hypothesis|Hypotheses|Context)\b')
STMT = re.compile(r'^\s*(?:Local\s+|Global\s+)?(Theorem|Lemma|Example|Corollary|Fact|Remark|Proposition)\s+([A-Za-z0-9_\']+)', re.M)


class BuildStatus:
    def __init__(self):
        self.consts_ok = False
        self.consts_msg = ''
        self.make_ok = False
        self.make_log = ''
        self.errors = []          # [(file, message)]
        self.forbidden = []       # [(file, line, text)]
        self.driver_ok = False
        self.driver_msg = ''
        self.wall_s = 0.0
        self.checker_cmd = ''


def repo_path():
    return os.environ.get('VERIF_REPO', '/repo')


def sh(cmd, cwd=None, timeout=1800, env=None):
    p = subprocess.run(cmd, shell=True, cwd=cwd, stdout=subprocess.PIPE,
                       stderr=subprocess.STDOUT, timeout=timeout, env=env)
    return p.returncode, p.stdout.decode('utf-8', 'replace')


def strip_comments(text):
    """remove (* ... *) comments (nested) so that words in comments do not count"""
    out = []
    depth = 0
    i = 0
    n = len(text)
    while i < n:
        if text.startswith('(*', i):
            depth += 1
            i += 2
        elif text.startswith('*)', i) and depth > 0:
            depth -= 1
            i += 2
        else:
            if depth == 0:
                out.append(text[i])
            elif text[i] == '\n':
                out.append('\n')
            i += 1
    return ''.join(out)


def project_files():
    files = []
    with open(os.path.join(COQ, '_CoqProject')) as f:
        for line in f:
            line = line.strip()
            if line.endswith('.v') and not line.startswith('-'):
                files.append(line)
    return files


def scan_forbidden():
    bad = []
    for rel in project_files() + ['Extract.v']:
        path = os.path.join(COQ, rel)
        if not os.path.exists(path):
            continue
        text = strip_comments(open(path).read())
        section_depth = 0
        for ln, line in enumerate(text.split('\n'), 1):
            if re.match(r'^\s*Section\b', line):
                section_depth += 1
            elif re.match(r'^\s*End\b', line) and section_depth > 0:
                section_depth -= 1
            if FORBIDDEN.search(line):
                bad.append((rel, ln, line.strip()))
            if section_depth == 0 and TOPLEVEL_VAR.match(line):
                bad.append((rel, ln, line.strip()))
    return bad


def deps_of(rel, seen=None):
    """transitive LS dependencies of a project file (by parsing Require lines)"""
    if seen is None:
        seen = []
    if rel in seen:
        return seen
    seen.append(rel)
    path = os.path.join(COQ, rel)
    if not os.path.exists(path):
        return seen
    text = strip_comments(open(path).read())
    for m in re.finditer(r'From\s+LS\s+Require\s+(?:Import|Export)?\s*([^.]*(?:\.[A-Za-z][^.]*)*)\.\s', text):
        for name in m.group(1).split():
            cand = name.replace('.', '/') + '.v'
            if os.path.exists(os.path.join(COQ, cand)):
                deps_of(cand, seen)
    return seen


def statements_in(rel):
    path = os.path.join(COQ, rel)
    if not os.path.exists(path):
        return []
    text = strip_comments(open(path).read())
    return [(m.group(1), m.group(2)) for m in STMT.finditer(text)]


def count_qed(rel):
    path = os.path.join(COQ, rel)
    if not os.path.exists(path):
        return 0
    text = strip_comments(open(path).read())
    return len(re.findall(r'\b(Qed|Defined)\s*\.', text))


def vo_uptodate(rel):
    """True iff the .vo of a project file is up to date w.r.t. make's view"""
    target = rel[:-2] + '.vo'
    rc, _ = sh('make -q %s' % target, cwd=COQ, timeout=120)
    return rc == 0


def print_assumptions(prop_rel, names):
    """re-query the axioms of the compiled theorems (fresh on every run)"""
    modname = 'LS.' + prop_rel[:-2].replace('/', '.')
    src = 'Require Import %s.\n' % modname
    for n in names:
        src += 'Print Assumptions %s.\n' % n
    tmpdir = os.path.join(VERIF, '.scratch')
    os.makedirs(tmpdir, exist_ok=True)
    tmp = os.path.join(tmpdir, 'pa_%d.v' % os.getpid())
    with open(tmp, 'w') as f:
        f.write(src)
    rc, out = sh('timeout 300 coqc -Q %s LS %s' % (COQ, tmp), cwd=tmpdir)
    for ext in ('.v', '.vo', '.glob', '.vok', '.vos'):
        try:
            os.remove(tmp[:-2] + ext)
        except OSError:
            pass
    try:
        os.remove(os.path.join(tmpdir, '.pa_%d.aux' % os.getpid()))
    except OSError:
        pass
    if rc != 0:
        return None, out
    # split output per theorem: "Closed under the global context" or "Axioms:\n..."
    chunks = re.split(r'(?m)^(?=Closed under the global context|Axioms:)', out.strip())
    chunks = [c.strip() for c in chunks if c.strip()]
    res = {}
    for n, c in zip(names, chunks):
        res[n] = c
    return res, out


def model_stamp():
    h = hashlib.sha256()
    for rel in sorted(project_files()):
        if rel.startswith('Model/') or rel.startswith('Gen/'):
            h.update(rel.encode())
            h.update(open(os.path.join(COQ, rel), 'rb').read())
    for p in (os.path.join(COQ, 'Extract.v'), os.path.join(OCAML, 'driver.ml')):
        h.update(open(p, 'rb').read())
    return h.hexdigest()


_HELD = []      # the build lock, kept (shared) until this process exits: see ensure_build


def _consts_digest():
    try:
        with open(os.path.join(COQ, 'Gen', 'Consts.v'), 'rb') as f:
            return hashlib.sha256(f.read()).hexdigest()
    except OSError:
        return None


def _up_to_date():
    """(under the shared lock) True iff a build would change nothing: the constants reflected from the tree under test are
    the ones in Gen/Consts.v, make has nothing to do, the driver was built from the current model"""
    env = dict(os.environ)
    env['PYTHONPATH'] = repo_path()
    env['PYTHONHASHSEED'] = '0'
    env['PYTHONDONTWRITEBYTECODE'] = '1'
    tmp = os.path.join(VERIF, '.scratch', 'consts_%d.v' % os.getpid())
    try:
        rc, out = sh('%s %s %s' % (PY, os.path.join(VERIF, 'harness', 'gen_consts.py'), tmp), env=env, timeout=120)
        if rc != 0:
            return False
        with open(tmp, 'rb') as f:
            mine = hashlib.sha256(f.read()).hexdigest()
    except OSError:
        return False
    finally:
        try:
            os.remove(tmp)
        except OSError:
            pass
    if mine != _consts_digest():
        return False
    if not os.path.exists(os.path.join(COQ, 'Makefile')) or \
       os.path.getmtime(os.path.join(COQ, 'Makefile')) < os.path.getmtime(os.path.join(COQ, '_CoqProject')):
        return False
    rc, _ = sh('make -q real-all', cwd=COQ, timeout=300)
    if rc != 0:
        return False
    stamp_file = os.path.join(OCAML, '.stamp')
    old = open(stamp_file).read() if os.path.exists(stamp_file) else ''
    return old == model_stamp() and os.path.exists(DRIVER)


def ensure_build(verbose=False, jobs=16):
    """Regenerate constants, run make, rebuild the driver.  Returns BuildStatus.
    Locking: a check holds the build lock SHARED from here to the end of the process; it takes it EXCLUSIVE only while
    something has to be rebuilt.  So concurrent checks of the same tree run side by side, and a concurrent check of
    ANOTHER tree (VERIF_REPO, seeded-change trials) whose constants differ waits until the checks that use the current
    Consts.v / driver are done, instead of replacing them under their feet."""
    os.makedirs(os.path.join(VERIF, '.scratch'), exist_ok=True)
    if not _HELD:
        _HELD.append(open(os.path.join(VERIF, '.scratch', 'build.lock'), 'w'))
    lock = _HELD[-1]
    st = None
    for attempt in range(6):
        fcntl.flock(lock, fcntl.LOCK_SH)
        fresh = _up_to_date()
        if not fresh:
            fcntl.flock(lock, fcntl.LOCK_EX)
        st = _ensure_build(verbose, jobs)        # nothing is written when everything is up to date
        mine = _consts_digest()
        if fresh:
            return st
        fcntl.flock(lock, fcntl.LOCK_SH)          # (not atomic: somebody may have rebuilt in between — verify)
        if _consts_digest() == mine or not st.consts_ok:
            return st
    return st


def _ensure_build(verbose=False, jobs=16):
    st = BuildStatus()
    t0 = time.time()
    try:
        env = dict(os.environ)
        env['PYTHONPATH'] = repo_path()
        env['PYTHONHASHSEED'] = '0'
        env['PYTHONDONTWRITEBYTECODE'] = '1'
        rc, out = sh('%s %s %s' % (PY, os.path.join(VERIF, 'harness', 'gen_consts.py'),
                                   os.path.join(COQ, 'Gen', 'Consts.v')), env=env, timeout=120)
        st.consts_ok = rc == 0
        st.consts_msg = out.strip()
        if verbose:
            print(out.strip())
        if not os.path.exists(os.path.join(COQ, 'Makefile')) or \
           os.path.getmtime(os.path.join(COQ, 'Makefile')) < os.path.getmtime(os.path.join(COQ, '_CoqProject')):
            rc, out = sh('coq_makefile -f _CoqProject -o Makefile', cwd=COQ)
            if rc != 0:
                st.make_log = out
                st.errors.append(('Makefile', out))
                return st
        st.checker_cmd = 'cd %s && timeout 3000 make -k -j%d   (coq_makefile full .vo build, coqc 8.16.1)' % (COQ, jobs)
        rc, out = sh('timeout 3000 make -k -j%d 2>&1' % jobs, cwd=COQ, timeout=3100)
        st.make_ok = rc == 0
        st.make_log = out
        if verbose or rc != 0:
            tail = '\n'.join(l for l in out.split('\n')
                             if not l.startswith('Closed under') and l.strip())
            if verbose:
                print(tail[-3000:])
        # collect errors per file
        for m in re.finditer(r'File "\./([^"]+)", line (\d+), characters [^\n]*\n(Error:(?:.|\n)*?)(?=\nmake|\nFile |\nCOQC|\Z)', out):
            st.errors.append((m.group(1), 'line %s: %s' % (m.group(2), m.group(3).strip()[:1500])))
        st.forbidden = scan_forbidden()
        # driver
        stamp = model_stamp()
        stamp_file = os.path.join(OCAML, '.stamp')
        old = open(stamp_file).read() if os.path.exists(stamp_file) else ''
        if old != stamp or not os.path.exists(DRIVER):
            os.makedirs(GEN, exist_ok=True)
            if not vo_uptodate('Model/Entry.v'):
                st.driver_ok = False
                st.driver_msg = 'Model/Entry.vo is not up to date (model does not compile)'
            else:
                rc, out = sh('timeout 600 coqc -Q %s LS %s -o %s' % (
                    COQ, os.path.join(COQ, 'Extract.v'), os.path.join(GEN, 'Extract.vo')), cwd=GEN)
                if rc == 0:
                    rc, out2 = sh('cp ../driver.ml . && timeout 600 ocamlfind ocamlopt -w -a '
                                  'model.mli model.ml driver.ml -o ../driver.exe', cwd=GEN)
                    out += out2
                st.driver_ok = rc == 0
                st.driver_msg = out.strip()[-2000:]
                if rc == 0:
                    with open(stamp_file, 'w') as f:
                        f.write(stamp)
        else:
            st.driver_ok = True
    finally:
        pass                                     # the lock is kept: ensure_build turns it into a shared one
    st.wall_s = time.time() - t0
    return st


if __name__ == '__main__':
    s = ensure_build(verbose=True)
    print('consts_ok', s.consts_ok, 'make_ok', s.make_ok, 'driver_ok', s.driver_ok,
          'forbidden', s.forbidden, 'errors', s.errors, 'wall', round(s.wall_s, 1))
    sys.exit(0 if (s.consts_ok and s.make_ok and s.driver_ok and not s.forbidden) else 1)
