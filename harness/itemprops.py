"""itemprops.py — shared exploration for the Data-server item properties C01, C02,
C03, C17, C19: scenario generation, schedule sources (corpus, bounded-exhaustive
DFS, PCT / random), correspondence with Model/Item.v and the oracles of
datarun.py.  One run of the real server is evaluated against all five oracles;
a property module reports only its own."""
import json
import os
import random

import datarun
import fixture
import dsched
import sx
from datarun import Scenario

HERE = os.path.dirname(os.path.abspath(__file__))
CORPUS = os.path.join(os.path.dirname(HERE), 'corpus')

TRUSTED = ['threaded code: the real DataProviderServer / SubscriptionManager / _ItemTaskManager run unmodified on real threads under the deterministic scheduler '
           '(harness/dsched.py, shims.py): Lock/RLock, queue.Queue, ThreadPoolExecutor, Thread, socket, time, os._exit are stand-ins that yield before every shared action; '
           'one scheduled step = one lock region / queue operation / adapter call boundary (DRF => lock-region atomicity under the GIL is assumed)',
           'exhaustive schedule enumeration is bounded by a preemption bound (stated in the evidence); beyond it schedules are sampled (PCT and uniform random)']
ASSUMPTIONS = ['per-item request histories alternate SUB/USB starting with SUB (as the protocol prescribes); request ids are distinct',
               'adapter calls return or raise an Exception (a call that never returns is outside the property)']

SNAP = [True, False, False, ('raise', 'RuntimeError'), ('raise', 'SubscribeError', 'nonstr'), ('raise', 'EmptyError')]
SUB = ['ret', 'ret', 'ret', ('raise', 'SubscribeError'), ('raise', 'FailureError'), ('raise', 'RuntimeError'), ('raise', 'KeyError'),
       ('raise', 'SubscribeError', 'nonstr'), ('raise', 'FailureError', 'nonstr'), ('raise', 'EmptyError'), ('raise', 'EmptySubscribeError')]
USB = ['ret', 'ret', 'ret', ('raise', 'SubscribeError'), ('raise', 'RuntimeError'), ('raise', 'SubscribeError', 'nonstr'), ('raise', 'EmptyError')]
KINDS = ['upd', 'upd', 'eos', 'cls']


def gen_scenario(rng, max_items=3, max_len=6, free_threads=3):
    items = ['a', 'b', 'c'][:rng.randint(1, max_items)]
    seqs = []
    n = 0
    for it in items:
        k = rng.randint(1, max_len)
        seq = []
        for i in range(k):
            n += 1
            seq.append(('%s%d' % (it, n), 'SUB' if i % 2 == 0 else 'USB', it))
        seqs.append(seq)
    order = []
    idx = [0] * len(seqs)
    while any(idx[i] < len(seqs[i]) for i in range(len(seqs))):
        i = rng.choice([i for i in range(len(seqs)) if idx[i] < len(seqs[i])])
        order.append(seqs[i][idx[i]])
        idx[i] += 1
    chunks = []
    mode = rng.random()
    i = 0
    while i < len(order):
        k = len(order) if mode < 0.3 else 1 if mode < 0.5 else rng.randint(1, 4)
        chunks.append(order[i:i + k])
        i += k
    behav = {}
    for it in items:
        behav[it] = {'snap': [rng.choice(SNAP) for _ in range(4)], 'sub': [rng.choice(SUB) for _ in range(4)],
                     'usb': [rng.choice(USB) for _ in range(4)],
                     'nest': [[rng.choice(KINDS) for _ in range(rng.choice([0, 0, 1, 2]))] for _ in range(4)],
                     'nest_usb': [[rng.choice(KINDS) for _ in range(rng.choice([0, 0, 0, 1]))] for _ in range(4)]}
    if rng.random() < 0.12:
        # cross-item re-entrancy: from inside subscribe() / unsubscribe() of one item the adapter reports on another
        # (or on an item nobody asked for)
        for it in items:
            for key in ('nest', 'nest_usb'):
                for lst in behav[it][key]:
                    for j, k in enumerate(lst):
                        if rng.random() < 0.7:
                            lst[j] = [k, rng.choice([x for x in items + ['z'] if x != it])]
    free = []
    for _ in range(rng.randint(0, free_threads)):
        free.append([(rng.choice(KINDS), rng.choice(items + ['z'])) for _ in range(rng.randint(1, 4))])
    return Scenario(rng.choice([1, 1, 2, 2, 3, 8]), chunks, behav, free)


def has_cross_nest(sc):
    return any(isinstance(k, (list, tuple)) for b in sc.behav.values() for key in ('nest', 'nest_usb') for lst in b.get(key, []) for k in lst)


def small_scenarios(tier):
    """single-item scenarios for bounded-exhaustive schedule enumeration"""
    out = []

    def hist(k, item='a'):
        return [('%s%d' % (item, i + 1), 'SUB' if i % 2 == 0 else 'USB', item) for i in range(k)]
    lens = [1, 2, 3] if tier == 'quick' else [1, 2, 3, 4, 5]
    for k in lens:
        for pool in (1, 2):
            out.append(Scenario(pool, [hist(k)], {'a': {'snap': [False, True, False], 'sub': ['ret', 'ret', 'ret']}}))
    out.append(Scenario(2, [hist(3)], {'a': {'snap': [True], 'sub': [('raise', 'SubscribeError'), 'ret']}}))
    out.append(Scenario(2, [hist(2)[:1], hist(2)[1:]], {'a': {'snap': [False], 'nest': [['upd']]}}, free=[[('upd', 'a')]]))
    out.append(Scenario(1, [hist(2)], {'a': {'snap': [True]}}, free=[[('upd', 'a'), ('eos', 'a')]]))
    if tier != 'quick':
        out.append(Scenario(2, [hist(4)], {'a': {'snap': [('raise', 'RuntimeError'), False], 'usb': [('raise', 'RuntimeError')]}}, free=[[('cls', 'a')]]))
        out.append(Scenario(2, [hist(2), hist(2, 'b')], {'a': {'snap': [False]}, 'b': {'snap': [True]}}))
    return out


def eager(t):
    return t.role == 'writer' or (t.role == 'reader' and t.pending[0] == 'recv')


def corpus_cases(pid):
    out = []
    if not os.path.isdir(CORPUS):
        return out
    for fn in sorted(os.listdir(CORPUS)):
        if fn.startswith('item-') and fn.endswith('.json'):
            try:
                d = json.load(open(os.path.join(CORPUS, fn)))
                out.append((fn, scenario_from(d['scenario']), d['schedule']))
            except Exception:
                pass
    return out


def scenario_from(d):
    def tup(x):
        return tuple(x) if isinstance(x, list) else x
    behav = {}
    for it, b in d['behav'].items():
        behav[it] = {k: [([tup(y) if isinstance(y, list) and y and y[0] == 'raise' else y for y in v] if k in ('nest', 'nest_usb') else tup(v))
                         if isinstance(v, list) and not (v and v[0] == 'raise') else tup(v) for v in vs] for k, vs in b.items()}
    chunks = [[tuple(r) for r in ch] for ch in d['chunks']]
    free = [[tuple(c) for c in f] for f in d.get('free', [])]
    return Scenario(d['pool'], chunks, behav, free)


def replay_run(sc, schedule):
    ch = dsched.ListChooser(schedule)
    return datarun.run_scenario(sc, ch, eager=eager)


def _digest(r, pid, src, model=True):
    """everything the parent needs from one run, as plain data"""
    F = datarun.Facts(r)
    viol = []
    for detail, key in datarun.ORACLES[pid](r, F):
        viol.append({'case': {'scenario': r.sc.describe(), 'schedule': [c for c, _ in r.taken], 'source': src},
                     'detail': detail, 'key': dict(key), 'kind': 'schedule'})
    if r.crashes:
        viol.append({'case': {'scenario': r.sc.describe(), 'schedule': [c for c, _ in r.taken], 'source': src},
                     'detail': 'a library thread / pool job died with %r' % (r.crashes[0],), 'key': {'kind': 'crash'}, 'kind': 'schedule'})
    return {'prep': datarun.prepare(r) if model else {'scenario': r.sc.describe(), 'schedule': [c for c, _ in r.taken], 'fine': True},
            'viol': viol, 'status': r.status, 'ntaken': len(r.taken), 'steps': len(r.trace),
            'lines': [p[3] for p in F.puts][:12]}


def _work(job):
    """worker process: one shard of the exploration"""
    import logging
    logging.disable(logging.CRITICAL)
    kind, pid, tier, arg = job
    out = []
    info = {}
    if kind == 'dfs':
        sc, bound, cap = arg

        def run_one(prefix):
            ch = dsched.BoundedChooser(prefix, bound)
            r = datarun.run_scenario(sc, ch, eager=eager, probe=True)
            out.append(_digest(r, pid, 'dfs'))
            return ch.taken
        n, complete = dsched.dfs_schedules(run_one, max_runs=cap)
        info = {'runs': n, 'complete': complete}
    elif kind == 'random':
        seed, n = arg
        rng = random.Random(seed)
        for i in range(n):
            sc = gen_scenario(rng)
            s2 = rng.getrandbits(32)
            fixture.set_logging(i % 5 == 2)      # a fifth of the runs with every library logger at DEBUG
            if i % 2 == 0:
                ch = dsched.PCTChooser(random.Random(s2), depth=rng.choice([1, 2, 3, 5]))
                src = 'random'
            elif i % 10 == 3:
                # delivery timing as the adversary: bursts handled whole, the next recv returning while an adapter call runs
                r2 = random.Random(s2)
                ch = dsched.RandomChooser(r2, bias=dsched.burst_bias(r2))
                src = 'random'
                if i % 20 == 3:
                    sc = gen_long_scenario(rng)
            else:
                ch = dsched.RandomChooser(random.Random(s2))
                src = 'random'
            if i % 10 == 9:
                # line-granular preemption, oracle only (the label mapping of the model works at region granularity)
                r = datarun.run_scenario(sc, dsched.RandomChooser(random.Random(s2)), eager=('writer',), fine=True, fine_seed=s2)
                d = _digest(r, pid, 'fine', model=False)
                for v in d['viol']:
                    v['case']['fine_seed'] = s2
                out.append(d)
                continue
            r = datarun.run_scenario(sc, ch, eager=('writer',))
            # (cross-item re-entrancy has no label in the per-item model: those runs are judged by the oracles only)
            out.append(_digest(r, pid, src, model=not has_cross_nest(sc)))
    elif kind == 'long':
        # long sessions: one item with a long alternating history; many items; (nothing may depend on how much a
        # connection has already done)
        seed = arg
        rng = random.Random(seed)
        for which in range(3):
            if which < 2:
                k = rng.choice([40, 70])
                hist = [('a%d' % (i + 1), 'SUB' if i % 2 == 0 else 'USB', 'a') for i in range(k)]
                chunks = [hist[i:i + rng.choice([1, 2, 5])] for i in range(0, k, 5)] if which else [hist]
                chunks = [c for c in chunks if c]
                if which:
                    chunks, i = [], 0
                    while i < k:
                        step = rng.choice([1, 2, 3])
                        chunks.append(hist[i:i + step])
                        i += step
                sc = Scenario(rng.choice([1, 2, 3]), chunks, {'a': {'snap': [rng.choice(SNAP) for _ in range(4)], 'sub': [rng.choice(SUB) for _ in range(4)],
                                                                  'usb': [rng.choice(USB) for _ in range(4)], 'nest': [[], ['upd'], [], []]}},
                              free=[[('upd', 'a')] * 5])
            else:
                items = ['i%d' % j for j in range(80)]
                reqs = []
                for j, it in enumerate(items):
                    reqs += [('%s-%d' % (it, 1), 'SUB', it), ('%s-%d' % (it, 2), 'USB', it)]
                sc = Scenario(3, [reqs[i:i + 16] for i in range(0, len(reqs), 16)], {})
            r = datarun.run_scenario(sc, dsched.RandomChooser(random.Random(rng.getrandbits(32))), eager=('writer',), max_steps=60000)
            out.append(_digest(r, pid, 'random'))
    elif kind == 'corpus':
        for fn, sc, schedule in corpus_cases(pid):
            r = replay_run(sc, schedule)
            out.append(_digest(r, pid, 'corpus:' + fn))
            r = datarun.run_scenario(sc, dsched.ListChooser(schedule), eager=('writer',))
            out.append(_digest(r, pid, 'corpus:' + fn))
    return kind, info, out


def explore(ctx, res, pid):
    import multiprocessing
    rng = ctx.rng
    tier = ctx.tier
    res.rule = ('real DataProviderServer under the deterministic scheduler; scenarios: 1..3 items, per-item alternating SUB/USB histories of length 1..6 '
                'pipelined in one chunk or spread over the run, adapter outcomes per call (snapshot True/False/raises; subscribe / unsubscribe return, '
                'SubscribeError, FailureError, RuntimeError, KeyError), listener calls nested in subscribe()/unsubscribe() and from 0..3 adapter threads, '
                'pool sizes 1,2,3,8; schedules: corpus, bounded-exhaustive DFS of small single-item scenarios, PCT and uniform random; each run is replayed '
                'step by step through Model/Item.v (labels accepted, lines per step, invariants and monitors of ItemSpec.v along the trace, final per-item state) '
                'and judged by the oracle of the property; every access to the shared fields of subscription.py is checked against the lock the model attributes it to '
                '(lockset tracing); one random run in ten uses line-granular preemption (every source line of the library a yield point) and is judged by the oracle only; '
                'non-trivial = distinct (scenario, schedule) with at least two scheduling decisions')
    bound = 2 if tier == 'quick' else 3
    cap = 600 if tier == "quick" else 40000
    nrand = 1600 if tier == "quick" else 40000
    nproc = min(8, multiprocessing.cpu_count())
    jobs = [('corpus', pid, tier, None), ('long', pid, tier, rng.getrandbits(40))]
    smalls = small_scenarios(tier)
    for sc in smalls:
        jobs.append(('dfs', pid, tier, (sc, bound, cap)))
    shard = max(50, nrand // (nproc * 2))
    k = 0
    while k < nrand:
        jobs.append(('random', pid, tier, (rng.getrandbits(40), min(shard, nrand - k))))
        k += shard
    with multiprocessing.get_context('fork').Pool(nproc) as pool:
        results = pool.map(_work, jobs, chunksize=1)
    preps = []
    viol = []
    complete_all = True
    dfs_total = 0
    steps = 0
    for kind, info, out in results:
        if kind == 'dfs':
            dfs_total += info['runs']
            complete_all = complete_all and info['complete']
            res.count('dfs-scenario')
        for d in out:
            res.evaluations += 1
            res.count(kind if not d['prep'].get('fine') else 'oracle only (line-granular / cross-item re-entrancy)')
            steps += d['steps']
            if not d['prep'].get('fine'):
                preps.append(d['prep'])
            viol += d['viol']
            if d['ntaken'] >= 2:
                res.nontrivial.add((json.dumps(d['prep']['scenario'], sort_keys=True, default=str), tuple(d['prep']['schedule'])))
            if d['status'] != 'quiescent':
                res.count('status:' + d['status'])
            if kind == 'random' and res.evaluations % 400 == 0:
                res.sample({'scenario': d['prep']['scenario'], 'schedule': d['prep']['schedule'][:60], 'status': d['status'], 'lines': d['lines']})
    res.extra['dfs_runs'] = dfs_total
    res.extra['dfs_preemption_bound'] = bound
    res.extra['dfs_complete_within_bound'] = complete_all
    res.extra['worker_processes'] = nproc
    res.exhaustive = bool(complete_all)
    res.exhaustive_note = ('all schedules with at most %d preemptions of %d small scenarios (writer and socket reads scheduled eagerly)%s'
                           % (bound, len(smalls), '' if complete_all else ' — NOT complete: run cap %d per scenario reached' % cap))
    B = 500
    for i in range(0, len(preps), B):
        for d in datarun.compare_prepared(ctx, preps[i:i + B]):
            pz = d['prep']
            res.disagreements.append({'case': {'scenario': pz['scenario'], 'schedule': pz['schedule']},
                                      'model': d.get('detail'), 'impl': 'see detail', 'relation': d['relation']})
    res.traces = len(preps)
    res.extra['steps_executed'] = steps
    seen = set()
    for v in viol:
        k = json.dumps(v['key'], sort_keys=True)
        if k in seen and len(res.oracle_violations) >= 3:
            continue
        seen.add(k)
        res.oracle_violations.append(v)


def minimise(ctx, v, pid):
    """shrink the schedule (drop trailing choices, zero choices) while the same kind of violation persists"""
    sc = scenario_from(json.loads(json.dumps(v['case']['scenario'])))
    sched = list(v['case']['schedule'])
    want = v['key'].get('kind')
    src_eager = eager if v['case'].get('source') in ('dfs',) or str(v['case'].get('source', '')).startswith('corpus') else ('writer',)

    def fails(s):
        ch = dsched.ListChooser(s)
        r = datarun.run_scenario(sc, ch, eager=src_eager)
        F = datarun.Facts(r)
        return any(k.get('kind') == want for _, k in datarun.ORACLES[pid](r, F))
    if v['case'].get('source') in ('dfs', 'fine') or not fails(sched):
        return v            # bounded chooser semantics differ from the list chooser: keep as is
    while sched and fails(sched[:-1]):
        sched = sched[:-1]
    for i in range(len(sched)):
        if sched[i] != 0:
            t = sched[:i] + [0] + sched[i + 1:]
            if fails(t):
                sched = t
    v = dict(v)
    v['case'] = dict(v['case'], schedule=sched, source='minimised')
    return v


def replay(ctx, data, pid):
    c = data['case']
    sc = scenario_from(c['scenario'])
    src = c.get('source')
    if src == 'dfs':
        ch = dsched.BoundedChooser(c['schedule'], 10 ** 9)
        # a DFS schedule is a list of option indices under the bounded chooser; with an unbounded budget the option order is the same
        r = datarun.run_scenario(sc, ch, eager=eager)
    elif src == 'random':
        r = datarun.run_scenario(sc, dsched.ListChooser(c['schedule']), eager=('writer',))
    elif src == 'fine':
        r = datarun.run_scenario(sc, dsched.ListChooser(c['schedule']), eager=('writer',), fine=True, fine_seed=c.get('fine_seed', 0))
    else:
        r = datarun.run_scenario(sc, dsched.ListChooser(c['schedule']), eager=eager if str(src).startswith('corpus') else ('writer',))
    F = datarun.Facts(r)
    vs = datarun.ORACLES[pid](r, F)
    return bool(vs), 'oracle: %r; lines: %r' % (vs[:3], [p[3] for p in F.puts])


def gen_long_scenario(rng):
    k = rng.randint(17, 40)
    hist = [('a%d' % (i + 1), 'SUB' if i % 2 == 0 else 'USB', 'a') for i in range(k)]
    n0 = rng.choice([1, 1, 2, 3])
    b = rng.randint(8, 24)
    chunks = [hist[:n0], hist[n0:n0 + b]]
    i = n0 + b
    while i < k:
        step = rng.choice([1, 1, 2, 4])
        chunks.append(hist[i:i + step])
        i += step
    fail = ('raise', 'SubscribeError')
    sub = [rng.choice([fail, fail, 'ret']) for _ in range(2)]
    return Scenario(rng.choice([1, 1, 2]), [c for c in chunks if c], {'a': {'snap': [rng.choice([True, False])], 'sub': sub}})


def _search_work(job):
    import logging
    logging.disable(logging.CRITICAL)
    kind, pid, arg = job
    found = []
    if kind == 'dfs':
        sc, bound, cap = arg

        def run_one(prefix):
            ch = dsched.BoundedChooser(prefix, bound)
            r = datarun.run_scenario(sc, ch, eager=eager, probe=True)
            if not found:
                vs = datarun.ORACLES[pid](r, datarun.Facts(r))
                if vs:
                    found.append({'case': {'scenario': sc.describe(), 'schedule': [c for c, _ in r.taken], 'source': 'dfs'},
                                  'detail': vs[0][0], 'key': vs[0][1], 'kind': 'schedule'})
            return ch.taken
        cap_box = [cap]

        def run_capped(prefix):
            if found:
                raise StopIteration
            return run_one(prefix)
        try:
            dsched.dfs_schedules(run_capped, max_runs=cap)
        except StopIteration:
            pass
    elif kind == 'longrandom':
        # long single-item histories whose first subscription(s) fail, delivered as: a few requests, a pause, a burst, the rest
        seed, n = arg
        rng = random.Random(seed)
        for i in range(n):
            sc = gen_long_scenario(rng)
            r2 = random.Random(rng.getrandbits(32))
            ch = dsched.PCTChooser(r2, depth=rng.choice([2, 3, 4])) if i % 4 == 3 else dsched.RandomChooser(r2, bias=dsched.burst_bias(r2))
            r = datarun.run_scenario(sc, ch, eager=('writer',), max_steps=20000)
            vs = datarun.ORACLES[pid](r, datarun.Facts(r))
            if vs:
                found.append({'case': {'scenario': sc.describe(), 'schedule': [c for c, _ in r.taken], 'source': 'random'},
                              'detail': vs[0][0], 'key': vs[0][1], 'kind': 'schedule'})
                break
    else:
        seed, n, single = arg
        rng = random.Random(seed)
        for i in range(n):
            sc = gen_scenario(rng, max_items=1, max_len=8, free_threads=1) if single else gen_scenario(rng)
            ch = dsched.PCTChooser(random.Random(rng.getrandbits(32)), depth=rng.choice([2, 3, 4, 6])) if i % 3 else dsched.RandomChooser(random.Random(rng.getrandbits(32)))
            r = datarun.run_scenario(sc, ch, eager=('writer',) if i % 2 else eager)
            vs = datarun.ORACLES[pid](r, datarun.Facts(r))
            if vs:
                found.append({'case': {'scenario': sc.describe(), 'schedule': [c for c, _ in r.taken], 'source': 'random'},
                              'detail': vs[0][0], 'key': vs[0][1], 'kind': 'schedule'})
                break
    return found[0] if found else None


def search(ctx, res, pid):
    """failing-input search after a broken obligation / correspondence (oracle only): deeper bounded-exhaustive enumeration of
    single-item histories of length 4..6 (preemption bound 3), long single-item histories and general scenarios under PCT / random
    schedules; in parallel, first hit wins"""
    import multiprocessing

    def hist(k, item='a'):
        return [('%s%d' % (item, i + 1), 'SUB' if i % 2 == 0 else 'USB', item) for i in range(k)]
    rng = random.Random(ctx.seed + 7)
    jobs = []
    for k in (4, 5, 6):
        for pool in (2, 3):
            jobs.append(('dfs', pid, (Scenario(pool, [hist(k)], {'a': {'snap': [True, True, True], 'sub': ['ret', 'ret', 'ret']}}), 3, 12000)))
            jobs.append(('dfs', pid, (Scenario(pool, [hist(k)[:2], hist(k)[2:]], {'a': {'snap': [False, True, False]}}, free=[[('upd', 'a')]]), 2, 6000)))
    for _ in range(16):
        jobs.append(('random', pid, (rng.getrandbits(40), 700, True)))
        jobs.append(('random', pid, (rng.getrandbits(40), 500, False)))
        jobs.append(('longrandom', pid, (rng.getrandbits(40), 250)))
    nproc = min(12, multiprocessing.cpu_count())
    with multiprocessing.get_context('fork').Pool(nproc) as pool:
        for hit in pool.imap_unordered(_search_work, jobs, chunksize=1):
            if hit:
                pool.terminate()
                return hit
    return None
