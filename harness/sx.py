"""S-expressions exchanged with the extracted model (see ocaml/driver.ml).
Python representation: atom = bytes, list = Python list.  Helper constructors
keep call sites short."""


def sym(s):
    return s.encode('ascii')


def A(x):
    """atom from bytes / str (utf-8) / int (decimal) / bool"""
    if isinstance(x, bytes):
        return x
    if isinstance(x, bool):
        return b'T' if x else b'F'
    if isinstance(x, int):
        return str(x).encode('ascii')
    if isinstance(x, str):
        return x.encode('utf-8')
    raise TypeError(x)


def opt(x, f=A):
    return b'none' if x is None else [b'some', f(x)]


def Q(fr):
    """exact rational"""
    from fractions import Fraction
    fr = Fraction(fr)
    return [b'q', A(fr.numerator), A(fr.denominator)]


_SYM = set(b'0123456789abcdefghijklmnopqrstuvwxyzABCDEFGHIJKLMNOPQRSTUVWXYZ-_.')


def dumps(x):
    if isinstance(x, (bytes, bytearray)):
        if x and all(c in _SYM for c in x):
            return "'" + x.decode('ascii')
        return 'x' + bytes(x).hex()
    return '(' + ' '.join(dumps(y) for y in x) + ')'


def loads(s):
    pos = 0
    n = len(s)
    stack = [[]]
    while pos < n:
        c = s[pos]
        if c in ' \t\r\n':
            pos += 1
        elif c == '(':
            stack.append([])
            pos += 1
        elif c == ')':
            top = stack.pop()
            stack[-1].append(top)
            pos += 1
        elif c == 'x':
            j = pos + 1
            while j < n and s[j] in '0123456789abcdefABCDEF':
                j += 1
            stack[-1].append(bytes.fromhex(s[pos + 1:j]))
            pos = j
        elif c == "'":
            j = pos + 1
            while j < n and s[j] not in ' ()\t\r\n':
                j += 1
            stack[-1].append(s[pos + 1:j].encode('ascii'))
            pos = j
        else:
            raise ValueError('bad sexp at %d: %r' % (pos, s[pos:pos + 20]))
    if len(stack) != 1 or len(stack[0]) != 1:
        raise ValueError('bad sexp: %r' % s[:80])
    return stack[0][0]


def unopt(x, f=lambda v: v):
    if x == b'none':
        return None
    assert isinstance(x, list) and x[0] == b'some', x
    return f(x[1])


def unQ(x):
    from fractions import Fraction
    assert x[0] == b'q', x
    return Fraction(int(x[1]), int(x[2]))


def unbool(x):
    assert x in (b'T', b'F'), x
    return x == b'T'


def is_err(x):
    return isinstance(x, list) and len(x) > 0 and x[0] == b'driver-error'
