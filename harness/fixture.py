"""fixture.py — run the real server classes of the library under test without
OS threads or sockets ("inert" mode): module globals of lightstreamer_adapter
.server are rebound (DESIGN.md 4) so that
  - Thread.start() only records the target (nothing runs concurrently),
  - the executor runs submitted jobs inline (or holds them until run_jobs()),
  - create_socket_and_connect returns a FakeSocket,
  - time.time() is a fixed virtual clock, os._exit is recorded.
Request lines are fed with srv.on_received_request(line) on the calling thread;
replies/notifications are read from the real _Sender queue.  The threaded
behaviour is exercised by the deterministic scheduler (sched.py), not here."""
import contextlib
import queue as real_queue
import types


class FakeSocket:
    def __init__(self):
        self.sent = []
        self.closed = 0

    def sendall(self, data):
        self.sent.append(bytes(data))

    def recv(self, n):
        return b''

    def close(self):
        self.closed += 1


class InertThread:
    registry = []

    def __init__(self, target=None, name=None, args=(), kwargs=None, daemon=None):
        self.target = target
        self.name = name
        self.args = args
        self.started = False
        InertThread.registry.append(self)

    def start(self):
        self.started = True

    def join(self, timeout=None):
        pass

    def is_alive(self):
        return False


class InlineExecutor:
    """ThreadPoolExecutor stand-in: jobs run when submitted (inline=True) or when
    run_jobs() is called, in FIFO order; exceptions are swallowed like a Future
    would (stored, never propagated)."""
    instances = []

    def __init__(self, max_workers=None, *a, **k):
        self.max_workers = max_workers
        self.jobs = []
        self.inline = True
        self.errors = []
        self.shutdown_calls = 0
        self.submitted = 0
        InlineExecutor.instances.append(self)

    def submit(self, fn, *args, **kwargs):
        self.submitted += 1
        if self.inline:
            self._run(fn, args, kwargs)
        else:
            self.jobs.append((fn, args, kwargs))
        return None

    def _run(self, fn, args, kwargs):
        try:
            fn(*args, **kwargs)
        except BaseException as e:  # a Future stores it
            self.errors.append(e)

    def run_jobs(self):
        while self.jobs:
            fn, a, k = self.jobs.pop(0)
            self._run(fn, a, k)

    def shutdown(self, wait=True, **k):
        self.shutdown_calls += 1
        self.run_jobs()


class FakeTime:
    def __init__(self, now=1700000000.0):
        self.now = now

    def time(self):
        return self.now

    def sleep(self, s):
        self.now += s


class FakeOS:
    def __init__(self):
        self.exits = []

    def _exit(self, code):
        self.exits.append(code)


class Env:
    """handles to the fakes installed by patched()"""


@contextlib.contextmanager
def patched(cpu=8, cpu_raises=False):
    import lightstreamer_adapter.server as server
    env = Env()
    env.sock = FakeSocket()
    env.time = FakeTime()
    env.os = FakeOS()
    InertThread.registry = []
    InlineExecutor.instances = []
    saved = {}
    names = ['Thread', 'ThreadPoolExecutor', 'create_socket_and_connect', 'time', 'os', 'cpu_count']
    for n in names:
        saved[n] = getattr(server, n)

    def fake_connect(address, ssl_context=None):
        env.connect_args = (address, ssl_context)
        return env.sock

    def fake_cpu():
        if cpu_raises:
            raise NotImplementedError()
        return cpu
    server.Thread = InertThread
    server.ThreadPoolExecutor = InlineExecutor
    server.create_socket_and_connect = fake_connect
    server.time = env.time
    server.os = env.os
    server.cpu_count = fake_cpu
    try:
        yield env
    finally:
        for n in names:
            setattr(server, n, saved[n])


class FeedTimeout(Exception):
    """the library did not come back from handling one request line within FEED_LIMIT seconds (single-threaded inert
    mode: it is blocked for good, e.g. on a synchronisation primitive nobody will release)"""


FEED_LIMIT = 8.0


def feed(srv, line):
    """deliver one request line on the calling thread, then run the jobs it queued"""
    import signal
    import threading

    def on_alarm(signum, frame):
        raise FeedTimeout('blocked for more than %s s while handling %r' % (FEED_LIMIT, line[:60]))
    use_alarm = threading.current_thread() is threading.main_thread()
    if use_alarm:
        old = signal.signal(signal.SIGALRM, on_alarm)
        signal.setitimer(signal.ITIMER_REAL, FEED_LIMIT)
    try:
        srv.on_received_request(line)
        ex = find_executor(srv)
        if hasattr(ex, 'run_jobs'):
            ex.run_jobs()
    finally:
        if use_alarm:
            signal.setitimer(signal.ITIMER_REAL, 0)
            signal.signal(signal.SIGALRM, old)


def set_logging(debug):
    """logging configuration of the run: silent (everything disabled), or every library logger at DEBUG with a NullHandler
    (so that code under `isEnabledFor(DEBUG)` / message formatting runs, without output)"""
    import logging
    root = logging.getLogger('lightstreamer-adapter')
    if debug:
        logging.disable(logging.NOTSET)
        root.setLevel(logging.DEBUG)
        root.handlers = [logging.NullHandler()]
        root.propagate = False
    else:
        root.setLevel(logging.NOTSET)
        logging.disable(logging.CRITICAL)


def _attrs(o):
    try:
        return list(vars(o).values())
    except TypeError:
        return []


def find_send_queue(srv):
    """the outbound queue of the server's sender: by its private path in the current source, or, if a refactoring
    renamed the attributes, the one real queue.Queue reachable from the server object within three hops"""
    try:
        return find_request_manager(srv)._reply_sender._send_queue
    except AttributeError:
        pass
    seen, frontier = set(), [srv]
    for _ in range(3):
        nxt = []
        for o in frontier:
            for v in _attrs(o):
                if isinstance(v, real_queue.Queue):
                    return v
                if id(v) not in seen and hasattr(v, '__dict__') and type(v).__module__.startswith('lightstreamer_adapter'):
                    seen.add(id(v))
                    nxt.append(v)
        frontier = nxt
    raise AttributeError('no outbound queue found on the server object')


def find_sender(srv):
    """the server's _Sender object (private path of the current source, or by class within two hops)"""
    try:
        return find_request_manager(srv)._reply_sender
    except AttributeError:
        pass
    import lightstreamer_adapter.server as server
    cls = getattr(server, '_Sender', None)
    for o in [srv] + [v for v in _attrs(srv) if hasattr(v, '__dict__')]:
        for v in _attrs(o):
            if cls is not None and isinstance(v, cls):
                return v
    raise AttributeError('no sender object found on the server object')


def sender_keepalive(snd):
    """the interval the writer loop uses: attribute _keepalive, or (renamed) the only numeric attribute of the sender"""
    if hasattr(snd, '_keepalive'):
        return snd._keepalive
    nums = [v for v in _attrs(snd) if isinstance(v, (int, float)) and not isinstance(v, bool)]
    if len(nums) == 1:
        return nums[0]
    raise AttributeError('cannot identify the keepalive attribute of the sender')


def sender_queue(snd):
    """the queue object of a _Sender (whatever the attribute is called)"""
    q = getattr(snd, '_send_queue', None)
    if q is not None:
        return q
    for v in _attrs(snd):
        if hasattr(v, 'put') and hasattr(v, 'get') and not isinstance(v, (str, bytes)):
            return v
    raise AttributeError('no queue found on the sender object')


def find_request_manager(srv):
    rm = getattr(srv, '_request_manager', None)
    if rm is not None:
        return rm
    import lightstreamer_adapter.server as server
    cls = getattr(server, '_RequestManager', None)
    for v in _attrs(srv):
        if cls is not None and isinstance(v, cls):
            return v
    return None


def find_stop_event(rm):
    """the 'stop reading' Event of the request manager (whatever it is called)"""
    import threading
    ev = getattr(rm, '_stop_request', None)
    if ev is not None:
        return ev
    for v in _attrs(rm):
        if isinstance(v, threading.Event) or type(v).__name__ == 'MEvent':
            return v
    raise AttributeError('no stop Event found on the request manager')


UNAVAILABLE = object()


def close_expected(srv):
    """Server._close_expected, or UNAVAILABLE when a refactoring renamed it beyond recognition"""
    if hasattr(srv, '_close_expected'):
        return srv._close_expected
    cands = [k for k, v in vars(srv).items() if isinstance(v, bool) and 'close' in k.lower()]
    if len(cands) == 1:
        return getattr(srv, cands[0])
    return UNAVAILABLE


def reader_entry(srv):
    """the reader loop of the request manager as a callable(sock): _RequestManager._do_run, or (renamed) the target of the
    receiver thread the request manager created (threads are inert under fixture.patched)"""
    rm = find_request_manager(srv)
    fn = getattr(rm, '_do_run', None)
    if fn is not None:
        return fn
    for t in InertThread.registry:
        tgt = getattr(t, 'target', None)
        if tgt is not None and getattr(tgt, '__self__', None) is rm:
            return tgt
    raise AttributeError('no reader loop found on the request manager')


def find_executor(srv):
    ex = getattr(srv, '_executor', None)
    if ex is not None:
        return ex
    for v in _attrs(srv):
        if isinstance(v, InlineExecutor):
            return v
    raise AttributeError('no executor found on the server object')


def drain(srv):
    """messages currently in the real sender queue (removed), in order"""
    q = find_send_queue(srv)
    out = []
    while True:
        try:
            out.append(q.get_nowait())
        except real_queue.Empty:
            return out


class Handler:
    """recording ExceptionHandler; ret_io / ret_ex are the values returned"""

    def __init__(self, ret_io=False, ret_ex=False):
        self.io = []
        self.ex = []
        self.ret_io = ret_io
        self.ret_ex = ret_ex

    def handle_ioexception(self, e):
        self.io.append(e)
        return self.ret_io

    def handle_exception(self, e):
        self.ex.append(e)
        return self.ret_ex


def make_handler(ret_io=False, ret_ex=False):
    from lightstreamer_adapter.server import ExceptionHandler

    class H(ExceptionHandler):
        def __init__(self):
            super().__init__()
            self.io = []
            self.ex = []

        def handle_ioexception(self, e):
            self.io.append(e)
            return ret_io

        def handle_exception(self, e):
            self.ex.append(e)
            return ret_ex
    return H()


def data_adapter(script=None):
    """recording DataProvider.  script: dict method -> callable(*args) giving the
    return value (or raising)."""
    from lightstreamer_adapter.interfaces.data import DataProvider
    script = script or {}

    class D(DataProvider):
        def __init__(self):
            self.calls = []
            self.listener = None

        def initialize(self, parameters, config_file=None):
            self.calls.append(('initialize', dict(parameters), config_file))
            if 'initialize' in script:
                return script['initialize'](parameters, config_file)

        def set_listener(self, event_listener):
            self.calls.append(('set_listener',))
            self.listener = event_listener

        def issnapshot_available(self, item_name):
            self.calls.append(('issnapshot_available', item_name))
            if 'issnapshot_available' in script:
                return script['issnapshot_available'](item_name)
            return False

        def subscribe(self, item_name):
            self.calls.append(('subscribe', item_name))
            if 'subscribe' in script:
                return script['subscribe'](item_name)

        def unsubscribe(self, item_name):
            self.calls.append(('unsubscribe', item_name))
            if 'unsubscribe' in script:
                return script['unsubscribe'](item_name)
    return D()


META_METHODS = ['initialize', 'get_items', 'get_schema', 'get_allowed_max_bandwidth',
                'get_allowed_max_item_frequency', 'get_allowed_buffer_size', 'ismode_allowed',
                'mode_may_be_allowed', 'get_min_source_frequency', 'get_distinct_snapshot_length',
                'notify_user', 'notify_user_with_principal', 'notify_user_message',
                'notify_new_session', 'notify_session_close', 'wants_tables_notification',
                'notify_new_tables', 'notify_tables_close', 'notify_mpn_device_access',
                'notify_mpn_subscription_activation', 'notify_mpn_device_token_change']


def metadata_adapter(script=None):
    """recording MetadataProvider: every interface method is overridden; the
    script (dict name -> callable(*args)) supplies return values / raises;
    unscripted methods fall back to the base-class default."""
    from lightstreamer_adapter.interfaces.metadata import MetadataProvider
    script = script or {}

    class M(MetadataProvider):
        def __init__(self):
            self.calls = []

    def mk(name):
        base = getattr(MetadataProvider, name)

        def method(self, *args, **kwargs):
            self.calls.append((name,) + tuple(args) + ((kwargs,) if kwargs else ()))
            if name in script:
                return script[name](*args, **kwargs)
            return base(self, *args, **kwargs)
        method.__name__ = name
        return method
    for n in META_METHODS:
        if hasattr(MetadataProvider, n):
            setattr(M, n, mk(n))
    return M()


def start_data(env, adapter, keep_alive=None, pool=0, name='D', user=None, password=None,
               params=None, config=None, handler=None, extra_kw=None):
    from lightstreamer_adapter.server import DataProviderServer
    kw = dict(name=name, keep_alive=keep_alive, thread_pool_size=pool)
    kw.update(extra_kw or {})
    srv = DataProviderServer(adapter, ('h', 1), **kw)
    # the per-item dequeuer is submitted while the item lock is held: it cannot run
    # inline; feed() runs the pending jobs after each request line
    find_executor(srv).inline = False
    return _start(srv, user, password, params, config, handler)


def start_meta(env, adapter, keep_alive=None, pool=0, name='M', user=None, password=None,
               params=None, config=None, handler=None, extra_kw=None):
    from lightstreamer_adapter.server import MetadataProviderServer
    kw = dict(name=name, keep_alive=keep_alive, thread_pool_size=pool)
    kw.update(extra_kw or {})
    srv = MetadataProviderServer(adapter, ('h', 1), **kw)
    return _start(srv, user, password, params, config, handler)


def _start(srv, user, password, params, config, handler):
    if user is not None:
        srv.remote_user = user
    if password is not None:
        srv.remote_password = password
    if params is not None:
        srv.adapter_params = params
    if config is not None:
        srv.adapter_config = config
    if handler is not None:
        srv.set_exception_handler(handler)
    srv.start()
    return srv
