"""Content level of C04: the fourteen post-init handlers of MetadataProviderServer
(_on_nus ... _on_mdc) against Model/MetaHandlers.v.

For a generated request line and a generated script of adapter outcomes (one per
adapter call: a return value — right-typed, or wrong-typed with some probability —
or a raised exception), the real server (inert threads, inline pool) is fed the
line after a successful init.  Observables: the adapter calls with their
arguments, the messages enqueued, the exception-handler calls.

 * correspondence: Model.MetaHandlers.handle_tokens on the same tokens / outcomes
   must give the same calls and the same result (reply line / handler / silent);
   the specification table spec_calls must equal the Python restatement
   (props/c06.expected_calls);
 * oracle (property text): the calls are the interface table of the decoded values,
   each once, in order, cut only by a raising call; a raise gives exactly one error
   reply carrying str(e); right-typed returns give exactly one data reply that decodes
   to the returned values; the reply is suppressed only for a wrong-typed return, and
   then the handler was notified exactly once; never neither; the next request on
   the same server is answered.
"""
import ari
import fixture
import sx
import wire
from sx import sym, A
from props import c06, c08

META_METHODS = ['NUS', 'NUA', 'NNS', 'NSC', 'GIS', 'GSC', 'GIT', 'GUI', 'NUM', 'NNT', 'NTC', 'MDA', 'MSA', 'MDC']
VOID = {'NNS', 'NSC', 'NUM', 'NNT', 'NTC', 'MDA', 'MSA', 'MDC'}

# slot type per adapter method (what the interface documents)
SLOT = {'get_allowed_max_bandwidth': 'float', 'wants_tables_notification': 'bool',
        'get_items': 'strs', 'get_schema': 'strs',
        'mode_may_be_allowed': 'any', 'ismode_allowed': 'any',
        'get_distinct_snapshot_length': 'int', 'get_allowed_buffer_size': 'int',
        'get_min_source_frequency': 'float', 'get_allowed_max_item_frequency': 'float'}

EXC_CLASSES = c08.LIB + ['RuntimeError', 'ValueError', 'KeyError', 'UserDefined', 'UserDefinedEmpty']


def right_value(rng, g, slot):
    if slot == 'float':
        return rng.choice([0.0, 1.5, -2.25, 1e300, 5e-324, 12345.678, float(rng.randint(-10 ** 6, 10 ** 6)) / 7])
    if slot == 'bool':
        return rng.random() < 0.5
    if slot == 'int':
        return g.integer()
    if slot == 'strs':
        x = rng.random()
        if x < 0.1:
            return None
        if x < 0.2:
            return []
        return [g.text() for _ in range(rng.choice([1, 1, 2, 3, 6]))]
    if slot == 'any':
        return rng.choice([True, False, True, False, None, 0, 1, '', 'x', [], [0]])
    return None     # return value ignored by the server


def wrong_value(rng, g, slot):
    pool = {'float': [1, 0, True, None, '1.5', ari.Other(), [1.0]],
            'bool': [1, 0, None, 'true', 1.0, ari.Other(False), []],
            'int': [1.0, True, False, None, '7', ari.Other()],
            'strs': [5, 0, ari.Other(True), ari.Other(False), [1], ['a', 2.5], [b'raw', 'x'], {'k': 1}, [['nested']], 1.5, True]}
    return rng.choice(pool[slot])


def is_right(slot, v):
    if slot == 'float':
        return isinstance(v, float)
    if slot == 'bool':
        return isinstance(v, bool)
    if slot == 'int':
        return isinstance(v, int) and not isinstance(v, bool)
    if slot == 'strs':
        return v is None or (isinstance(v, (list, tuple)) and all(x is None or isinstance(x, str) for x in v))
    return True


def gen_case(rng, g, meth, classes, idx):
    q = g.request(meth)
    if meth in ('GIT', 'GUI') and rng.random() < 0.5:       # keep item lists short: 6 calls per item
        q = q[:-1] + (q[-1][:rng.choice([0, 1, 2, 3])],)
    ec = c06.expected_calls(meth, q)
    outs = []
    raise_at = rng.randrange(len(ec)) if (ec and rng.random() < 0.35) else None
    wrong = rng.random() < 0.25
    for i, c in enumerate(ec):
        name = c[0]
        if raise_at == i:
            cls = rng.choice(EXC_CLASSES)
            usersub = cls in c08.LIB and rng.choice([False, False, False, False, False, False, False, True, True, 'empty'])
            msg = g.text(allow_none=False)
            code, um, sid = g.integer(), g.text(), g.text()
            # one raise in five carries a non-str detail (an adapter wrapping a caught low-level error)
            outs.append(('raise', (cls, usersub, msg, code, um, sid, rng.random() < 0.2 and cls != 'KeyError')))
            # later outcomes are still scripted: they must stay unused
            continue
        slot = SLOT.get(name)
        if slot is None:
            outs.append(('ret', rng.choice([None, None, True, 'ignored', 7])))
        elif wrong and slot != 'any' and rng.random() < 0.6:
            outs.append(('ret', wrong_value(rng, g, slot)))
        else:
            outs.append(('ret', right_value(rng, g, slot)))
    return {'meth': meth, 'q': q, 'rid': ('%x' % (0x10000 + idx)), 'outs': outs}


class Script:
    """the scripted adapter behaviour.  Outcomes are attached to the entries of the interface table of the
    request (not to call positions), so that the oracle does not depend on the order in which a server chooses
    to make the calls: a call is matched with the first unused table entry with the same method and arguments."""

    def __init__(self, classes):
        self.classes = classes
        self.arm([], [])

    def arm(self, outs, table):
        self.outs = outs
        self.table = table
        self.used = [False] * len(table)
        self.order = []          # table index of each call made (None = not in the table)
        self.raised = []

    def next(self, name, args):
        me = c06.norm_calls([[sym(name)] + [c06.c_arg(a) for a in args]])[0]
        j = next((k for k, t in enumerate(self.table) if not self.used[k] and t == me), None)
        self.order.append(j)
        if j is None or j >= len(self.outs):
            return None
        self.used[j] = True
        kind, v = self.outs[j]
        if kind == 'ret':
            return v
        cls, usersub, msg, code, um, sid = v[:6]
        e = c08.make(cls, self.classes, ConnectionError(msg) if (len(v) > 6 and v[6]) else msg, code, um, sid, usersub)
        self.raised.append(e)
        raise e


ALL_ADAPTER = ['notify_user', 'notify_user_with_principal', 'get_allowed_max_bandwidth', 'wants_tables_notification',
               'notify_new_session', 'notify_session_close', 'get_items', 'get_schema', 'mode_may_be_allowed',
               'get_distinct_snapshot_length', 'get_min_source_frequency', 'ismode_allowed', 'get_allowed_buffer_size',
               'get_allowed_max_item_frequency', 'notify_user_message', 'notify_new_tables', 'notify_tables_close',
               'notify_mpn_device_access', 'notify_mpn_subscription_activation', 'notify_mpn_device_token_change']


def sx_outcome(o, script_exc=None):
    kind, v = o
    if kind == 'ret':
        return [sym('ret'), ari.pyval(v)]
    cls, usersub, msg, code, um, sid = v[:6]
    e = script_exc if script_exc is not None else None
    s = str(e) if e is not None else msg
    return [sym('raise'), c08.sx_exn(cls, s.encode('utf-8'), code, um, sid, usersub)]


def skip_case(case):
    if case.get('line') is None:
        case['line'] = wire.encode_line(case['rid'].encode(), case['meth'], case['q'], b'\r\n').decode('ascii')
    case['impl'] = {'skipped': True, 'crashed': 'not run: an earlier request blocked the reader for good', 'calls': [],
                    'msgs': [], 'handler': 0, 'raised': [], 'exits': 0, 'order': [], 'used': []}


def run_cases(cases, classes):
    """run the cases on real servers (a fresh server every 40 cases); fill in 'impl'"""
    sc = Script(classes)
    script = {n: (lambda *a, _n=n: sc.next(_n, a)) for n in ALL_ADAPTER}
    # a fresh server every 40 cases, except one long session of 400 requests on the same server (behaviour must not
    # depend on how many requests a connection has already served)
    bounds = [(0, min(400, len(cases)))] + [(b, b + 40) for b in range(400, len(cases), 40)]
    blocked = False
    for base, top in bounds:
        if blocked:
            for case in cases[base:top]:
                skip_case(case)
            continue
        with fixture.patched() as env:
            ad = fixture.metadata_adapter(script)
            h = fixture.make_handler()
            sc.arm([], [])
            srv = fixture.start_meta(env, ad, handler=h)
            fixture.feed(srv, '1|MPI|S|ARI.version|S|1.8.3\r\n')
            fixture.drain(srv)
            for case in cases[base:top]:
                line = case.get('line')
                if line is None:
                    line = wire.encode_line(case['rid'].encode(), case['meth'], case['q'], b'\r\n').decode('ascii')
                    case['line'] = line
                if blocked:
                    skip_case(case)
                    continue
                n0, e0 = len(ad.calls), len(h.ex)
                sc.arm(case['outs'], c06.norm_calls(c06.expected_calls(case['meth'], case['q'])))
                crashed = None
                try:
                    fixture.feed(srv, line)
                except fixture.FeedTimeout as ex:   # reported once (oracle); the rest of the batch is not run
                    crashed = repr(ex)
                    blocked = True
                except Exception as ex:      # nothing may escape on_received_request
                    crashed = repr(ex)
                calls = [[sym(c[0])] + [c06.c_arg(a) for a in c[1:]] for c in ad.calls[n0:]]
                msgs = fixture.drain(srv)
                case['impl'] = {'calls': calls, 'msgs': msgs, 'handler': len(h.ex) - e0, 'crashed': crashed,
                                'raised': list(sc.raised), 'exits': len(env.os.exits), 'order': list(sc.order),
                                'used': list(sc.used)}
    return cases


def impl_result(case):
    im = case['impl']
    pre = case['rid'] + '|'
    msgs = im['msgs']
    if len(msgs) == 1 and isinstance(msgs[0], str) and msgs[0].startswith(pre) and im['handler'] == 0:
        return [sym('reply'), msgs[0][len(pre):].encode('utf-8', 'surrogatepass')]
    if not msgs and im['handler'] == 1:
        return sym('handler')
    if not msgs and im['handler'] == 0:
        return sym('silent')
    return [sym('odd'), A(len(msgs)), A(im['handler'])]


def oracle(case):
    """the property text on the observables of one request; -> None | description"""
    meth, q, im = case['meth'], case['q'], case['impl']
    if im['crashed']:
        return 'exception escaped the reader: %s' % im['crashed']
    if im['exits']:
        return 'process exit requested'
    ec = c06.norm_calls(c06.expected_calls(meth, q))
    outs = case['outs']
    got = c06.norm_calls(im['calls'])
    if None in im['order']:
        k = im['order'].index(None)
        return 'adapter call %s is not (or no longer) in the interface table of the request %s' % (
            sx.dumps(got[k])[:300], sx.dumps(ec)[:500])
    raise_at = 0 if im['raised'] else None
    if not im['raised'] and not all(im['used']):
        k = im['used'].index(False)
        return 'adapter call %s of the interface table was not made (calls: %s)' % (sx.dumps(ec[k])[:300], sx.dumps(got)[:500])
    msgs, nh = im['msgs'], im['handler']
    pre = case['rid'] + '|'
    if len(msgs) > 1:
        return '%d messages for one request' % len(msgs)
    if msgs and not msgs[0].startswith(pre + meth + '|') and msgs[0] != pre + meth:
        return 'reply %r does not carry the request id and method name' % msgs[0][:200]
    body = msgs[0][len(pre):] if msgs else None
    if raise_at is not None:
        if body is None:
            return 'adapter raised, no error reply (handler calls: %d)' % nh
        if nh:
            return 'adapter raised: reply sent and handler notified'
        try:
            r = ari.error(body)
        except (ari.Bad, ValueError) as ex:
            return 'reply %r is not an error reply (%r)' % (body[:200], ex)
        if r['msg'] != str(im['raised'][0]):
            return 'error reply message %r, raised %r' % (r['msg'], str(im['raised'][0]))
        return None
    rets = [o[1] for o in outs]
    names = [c[0].decode() for c in ec]
    typed = all(is_right(SLOT.get(n), v) for n, v in zip(names, rets) if SLOT.get(n))
    if body is None:
        if typed:
            return 'right-typed returns, reply suppressed (handler calls: %d)' % nh
        if nh != 1:
            return 'reply suppressed and exception handler notified %d times' % nh
        return None
    if nh:
        return 'reply sent and handler notified'
    if not typed:
        return None                # tolerated wrong-typed value: a reply was sent; C07 owns its content
    try:
        if meth in VOID:
            if ari.void(body) != meth:
                return 'void reply %r' % body
        elif meth in ('NUS', 'NUA'):
            m, bw, w = ari.notify_user(body)
            if (bw, w) != (rets[1], rets[2]):
                return 'reply carries (%r, %r), adapter returned (%r, %r)' % (bw, w, rets[1], rets[2])
        elif meth in ('GIS', 'GSC'):
            m, items = ari.strings(body)
            if items != list(rets[0] or []):
                return 'reply carries %r, adapter returned %r' % (items, rets[0])
        else:
            m, data = ari.item_data(body)
            want = []
            for k in range(len(q[-1])):
                six = rets[6 * k:6 * k + 6]
                want.append((six[4], six[5], [mname for mname, v in zip(c06.MODE_ORDER, six[:4]) if v]))
            if data != want:
                return 'reply carries %r, adapter returned %r' % (data, want)
    except (ari.Bad, ValueError) as ex:
        return 'reply %r does not decode (%r)' % (body[:200], ex)
    return None


def model_calls(case):
    """the driver call for one case (exception text = str() of the raised object: data)"""
    toks = wire.encode_args(case['q']) if 'tokens' not in case else case['tokens']
    raised = case['impl']['raised']
    outs = []
    for o in case['outs']:
        if o[0] == 'raise':
            outs.append(sx_outcome(o, raised[0] if raised else None))
        else:
            outs.append(sx_outcome(o))
    return [sym('meta_handle'), sym(case['meth']), list(toks), outs]


def case_json(case):
    return {'method': case['meth'], 'id': case['rid'], 'line': case.get('line'),
            'outcomes': [[k, (repr(v) if k == 'ret' else list(v))] for k, v in case['outs']]}


def explore(ctx, res, n_per_method):
    classes = c08.lib_classes()
    g = wire.Gen(ctx.rng)
    cases = []
    idx = 0
    for meth in META_METHODS:
        for _ in range(n_per_method):
            idx += 1
            cases.append(gen_case(ctx.rng, g, meth, classes, idx))
    run_cases(cases, classes)
    outs = ctx.model([model_calls(c) for c in cases])
    specs = ctx.model([[sym('meta_spec_calls'), wire.sx_wire(c['q'])] for c in cases])
    # end to end: the bytes of the line -> adapter calls and the bytes queued (Model/EndToEnd.v)
    e2e = ctx.model([[sym('answer_meta'), c['line'].encode('ascii'), model_calls(c)[3]] for c in cases])
    for case, m in zip(cases, e2e):
        res.evaluations += 1
        res.count('handlers:end-to-end')
        im = case['impl']
        if im.get('skipped'):
            continue
        if im['crashed'] or not isinstance(m, list) or len(m) != 2 or m[1] == b'unmodelled':
            continue
        msgs, nh = im['msgs'], im['handler']
        if len(msgs) == 1 and nh == 0 and isinstance(msgs[0], str):
            got = [sym('wire'), (msgs[0] + '\r\n').encode('utf-8', 'surrogatepass')]
        elif not msgs and nh == 1:
            got = sym('handler')
        elif not msgs and nh == 0:
            got = sym('none')
        else:
            got = [sym('odd'), A(len(msgs)), A(nh)]
        impl = [c06.norm_calls(im['calls']), got]
        if m != impl:
            res.disagreements.append({'case': case_json(case), 'model': sx.dumps(m)[:700], 'impl': sx.dumps(impl)[:700],
                                      'relation': 'EndToEnd.answer_meta (line bytes, outcomes) = adapter calls and bytes queued by the real server (+ CRLF of the writer)'})
    for case, m, sp in zip(cases, outs, specs):
        res.evaluations += 1
        im = case['impl']
        raise_at = next((i for i, o in enumerate(case['outs']) if o[0] == 'raise'), None)
        if im.get('skipped'):
            res.count('handlers:not-run')
            continue
        res.count('handlers:%s:%s' % (case['meth'], 'raise' if raise_at is not None else 'return'))
        bad = oracle(case)
        if bad:
            res.oracle_violations.append({'case': case_json(case), 'detail': bad,
                                          'key': {'method': case['meth'], 'stage': 'handler-content'}})
        want_spec = c06.norm_calls(c06.expected_calls(case['meth'], case['q']))
        if sp != want_spec:
            res.disagreements.append({'case': case_json(case), 'model': sx.dumps(sp)[:600], 'impl': sx.dumps(want_spec)[:600],
                                      'relation': 'MetaHandlers.spec_calls = interface table restated in harness/props/c06.py'})
        if im['crashed']:
            continue
        if m and m[0] == b'job' and m[2] == b'unmodelled':
            res.unmodelled += 1
            res.count('handlers:unmodelled')
            continue
        impl = [sym('job'), c06.norm_calls(im['calls']), impl_result(case)]
        if m != impl:
            res.disagreements.append({'case': case_json(case), 'model': sx.dumps(m)[:700], 'impl': sx.dumps(impl)[:700],
                                      'relation': 'MetaHandlers.handle_tokens = _handle_request/_on_<method>/execute_and_reply (calls, result)'})
        else:
            res.nontrivial.add(case['line'])
        if res.evaluations % 97 == 0:
            res.sample({'method': case['meth'], 'line': case['line'][:160], 'calls': len(im['calls']),
                        'result': sx.dumps(impl_result(case))[:160]})
    return len(cases)
