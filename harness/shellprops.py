"""shellprops.py — shared exploration for the connection-level properties C04,
C10, C14, C18, C20: scenario generation, schedules, correspondence with
Model/Shell.v and the oracles of shellrun.py."""
import json
import multiprocessing
import random

import dsched
import fixture
import shellrun
import sx
import wire
from shellrun import Line, ShellScenario
from sx import sym, A

TRUSTED = ['threaded code: the real MetadataProviderServer / DataProviderServer run unmodified on real threads under the deterministic scheduler (harness/dsched.py, shims.py); '
           'stand-ins for Lock/RLock, queue.Queue, ThreadPoolExecutor, Thread, socket, time, os._exit yield before every shared action; ThreadPoolExecutor(n) is modelled as a FIFO of jobs run once each '
           'by one of n workers, storing (not propagating) a job\'s exception, shutdown(wait=True) returning after all accepted jobs; socket.close() wakes a blocked recv with OSError (OS dependent in reality); os._exit never returns',
           'request lines are abstracted to classes for the model (Model/Shell.v); the scenario generator knows the class of each line by construction (decoding itself is C06 / C09)']
ASSUMPTIONS = ['the close request is the last line the Proxy Adapter sends; exception handlers return booleans; adapter calls return or raise an Exception']

LIB_RAISE = ['AccessError', 'CreditsError', 'NotificationError', 'ItemsError', 'SchemaError', 'ConflictingSessionError', 'MetadataProviderError', 'RuntimeError', 'KeyError', 'EmptyError']


def B(b):
    return A(bool(b))


def gen_meta(rng, focus=None):
    g = wire.Gen(rng)
    lines = []
    nid = [0]

    def rid():
        nid[0] += 1
        return nid[0] - 1

    def add_init(version='1.8.3', wf=True):
        r = rid()
        wid = 'q%d' % r
        pairs = []
        if version is not None:
            pairs.append(('ARI.version', version))
        pairs.append(('p', 'v'))
        text = wire.encode_line(wid.encode(), 'MPI', ('WInit', pairs))
        if not wf:
            text = text.rstrip(b'\r\n') + b'|S\r\n'
        refused = version in ('1.8.1', '1.8.0')
        oldv = version in (None, '1.8.2')
        lines.append(Line(text, [sym('init'), A(r), B(wf), B(refused), B(oldv)], r, 'MPI', None, 'valid', 'init'))

    def add_req(outcome=None, wf=True, known=True):
        r = rid()
        wid = 'q%d' % r
        meth = rng.choice(shellrun.META_METHODS)
        q = g.request(meth)
        if meth in ('GIT', 'GUI'):
            items = q[-1][:2]
            q = q[:-1] + (items,)
        toks = wire.encode_args(q)
        if not wf:
            meth = rng.choice(['NUS', 'GIS', 'GSC', 'NUM', 'MDA', 'NNS'])
            q = g.request(meth)
            toks = wire.encode_args(q)[:rng.choice([0, 1, 3])]
        if not known:
            # unknown to a Metadata server: junk names, Data-server methods, the OTHER server kind's init request name
            meth = rng.choice(['XYZ', 'SUB', 'DPI2', 'NUSX', 'DPI', 'DPI', 'USB', 'RAC', 'KEEPALIVE',
                               # names that are no protocol methods but spell attributes of the server object
                               'mpi', 'Mpi', 'init', 'INIT', 'request_manager_started', 'close', 'exception',
                               # ... or are contained in / contain the name of a method
                               'PI', 'MP', 'I', 'M', 'NU', 'US', 'MPIX', 'XMPI', 'NUSNUA'])
        text = b'|'.join([wid.encode(), meth.encode()] + toks) + b'\r\n'
        if outcome is None:
            x = rng.random()
            outcome = 'valid' if x < 0.65 else 'wrong' if x < 0.78 else ('raise', rng.choice(LIB_RAISE), rng.choice([0, 0, 1, 2, 5]))
        lines.append(Line(text, [sym('req'), A(r), B(wf), B(known)], r, meth, q, outcome if (wf and known) else 'valid', 'req'))

    shape = rng.random() if focus is None else {'normal': 0.0, 'early': 0.75, 'noinit': 0.93}.get(focus, 0.0)
    version = rng.choice(['1.8.3', '1.8.3', '1.8.3', '1.9.0', '1.8.2', None, '1.8.1', '2.0'])
    nreq = rng.randint(0, 7)
    if shape < 0.7:
        add_init(version, wf=rng.random() > 0.08)
    elif shape < 0.9:
        for _ in range(rng.randint(1, 2)):
            add_req()
        add_init(version)
    for k in range(nreq):
        x = rng.random()
        if x < 0.72:
            add_req()
        elif x < 0.82:
            add_req(wf=False)
        elif x < 0.88:
            add_req(known=False)
        elif x < 0.94:
            lines.append(Line(rng.choice([b'\r\n', b'justonetoken\r\n', b'||\r\n', b'x|\r\n']), sym('garbage'), None, None, None, 'valid', 'garbage'))
        else:
            add_init(rng.choice(['1.8.3', '1.8.1']))       # a second init request
    x = rng.random()
    if x < 0.3:
        ctext, cls = rng.choice([(b'0|CLOSE\r\n', (True, True)), (b'0|CLOSE|S|reason|S|bye+bye\r\n', (True, True)),
                                 (b'7|CLOSE\r\n', (False, True)), (b'0|CLOSE|S|reason|S\r\n', (True, False))])
        lines.append(Line(ctext, [sym('close'), B(cls[0]), B(cls[1])], None, 'CLOSE', None, 'valid', 'close'))
    return finish(rng, 'meta', lines)


def gen_data(rng, focus=None):
    lines = []
    nid = [0]

    def rid():
        nid[0] += 1
        return nid[0] - 1

    def add_init(version='1.9.1', wf=True):
        r = rid()
        wid = 'q%d' % r
        pairs = [('ARI.version', version)] if version is not None else []
        text = wire.encode_line(wid.encode(), 'DPI', ('WInit', pairs))
        if not wf:
            text = text.rstrip(b'\r\n') + b'|S\r\n'
        refused = version is None or version.startswith('1.8.') or version == '1.9.0'
        lines.append(Line(text, [sym('init'), A(r), B(wf), B(refused), B(False)], r, 'DPI', None, 'valid', 'init'))
    version = rng.choice(['1.9.1', '1.9.1', '1.9.1', '2.0', '1.8.3', None, '1.9.0'])
    shape = rng.random()
    state = {}
    if shape < 0.75:
        add_init(version, wf=rng.random() > 0.08)
    nreq = rng.randint(0, 7)
    for k in range(nreq):
        x = rng.random()
        item = rng.choice(['a', 'b'])
        r = rid()
        wid = 'q%d' % r
        if x < 0.75:
            meth = 'USB' if state.get(item) else 'SUB'
            state[item] = not state.get(item)
            text = wire.encode_line(wid.encode(), meth, ('WItem', item))
            lines.append(Line(text, [sym('req'), A(r), B(True), B(True)], r, meth, ('WItem', item), 'valid', 'req'))
        elif x < 0.85:
            text = ('%s|SUB|X|%s\r\n' % (wid, item)).encode()
            lines.append(Line(text, [sym('req'), A(r), B(False), B(True)], r, 'SUB', None, 'valid', 'req'))
        elif x < 0.92:
            um = rng.choice(['NUS', 'MPI', 'MPI', 'XYZ', 'sub', 'dpi', 'init', 'request_manager_started', 'PI', 'DP', 'D', 'I', 'SU', 'UB', 'SUBX', 'DPIX'])
            text = ('%s|%s|S|u|S|p\r\n' % (wid, um)).encode()
            lines.append(Line(text, [sym('req'), A(r), B(True), B(False)], r, um, None, 'valid', 'req'))
        else:
            if shape >= 0.75 or rng.random() < 0.5:
                add_init('1.9.1')
            else:
                lines.append(Line(b'\r\n', sym('garbage'), None, None, None, 'valid', 'garbage'))
    if rng.random() < 0.3:
        ctext, cls = rng.choice([(b'0|CLOSE\r\n', (True, True)), (b'9|CLOSE\r\n', (False, True)), (b'0|CLOSE|S|reason|S|x\r\n', (True, True))])
        lines.append(Line(ctext, [sym('close'), B(cls[0]), B(cls[1])], None, 'CLOSE', None, 'valid', 'close'))
    return finish(rng, 'data', lines)


def finish(rng, kind, lines):
    idx = list(range(len(lines)))
    mode = rng.random()
    chunks = []
    i = 0
    while i < len(idx):
        k = len(idx) if mode < 0.35 else 1 if mode < 0.6 else rng.randint(1, 4)
        chunks.append(idx[i:i + k])
        i += k
    end = rng.choice(['block'] * 6 + ['eof', 'error'])
    if end != 'block' and chunks and rng.random() < 0.5:
        chunks = chunks[:rng.randint(0, len(chunks))]
    handler = rng.choice([None, None, (False, False), (True, True), (True, False), (False, True), (None, None), (None, True), (False, None)])
    pool = rng.choice([None, -3, 0, 1, 1, 2, 2, 3])
    fail_send = rng.choice([None] * 7 + [1, 2, 3])
    sc = ShellScenario(kind, lines, chunks, pool=pool, cpu=3, handler=handler, end=end, fail_send=fail_send,
                       start_managed=rng.random() < 0.35, app_close=rng.choice([0] * 8 + [1, 2]),
                       user=rng.choice([None, None, '', 'us er', 'u|1']), password=rng.choice([None, None, '', 'p w']),
                       init_outcome=rng.choice(['ret'] * 7 + ['provider', 'other', 'type', 'attr', 'empty']))
    if end in ('eof', 'error') and chunks and chunks[-1] and rng.random() < 0.35:
        # the fault hits in the middle of the last line: between CR and LF, before the terminator, inside a token
        last = lines[chunks[-1][-1]].text
        sc.tail_cut = rng.choice([k for k in (1, 2, 3, 6) if k < len(last)] or [0])
    # an adapter call that blocks until a later request has been answered and written (needs a free worker)
    if kind == 'meta' and sc.nworkers() >= 2 and end == 'block' and fail_send is None and not sc.app_close and rng.random() < 0.3:
        tmp = ShellScenario(kind, lines, chunks)
        reqs = [l for l in lines if l.kind == 'req' and l.klass[2] == b'T' and l.klass[3] == b'T' and l.method in shellrun.EXPECTED_CALLS or
                (l.kind == 'req' and l.method in ('GIT', 'GUI') and l.klass[2] == b'T' and l.klass[3] == b'T' and shellrun.expected_calls(l))]
        has_init = any(l.kind == 'init' for l in lines) and lines and lines[0].kind == 'init' and lines[0].klass[2] == b'T' and lines[0].klass[3] != b'T' and sc.init_outcome == 'ret'
        closes = any(l.kind == 'close' for l in lines)
        later_inits = sum(1 for l in lines if l.kind == 'init') > 1
        if has_init and len(reqs) >= 2 and not closes:
            a, b = reqs[0], reqs[-1]
            if a is not b and a.outcome != 'wrong' and b.outcome == 'valid' and a.outcome == 'valid':
                sc.gate = (a.rid, b.rid)
    if kind == 'data' and sc.nworkers() >= 2 and end == 'block' and fail_send is None and not sc.app_close and rng.random() < 0.4:
        ok_init = lines and lines[0].kind == 'init' and lines[0].klass[2] == b'T' and lines[0].klass[3] != b'T' and sc.init_outcome == 'ret'
        subs = [l for l in lines if l.kind == 'req' and l.method == 'SUB' and l.klass[2] == b'T' and l.klass[3] == b'T']
        if ok_init and not any(l.kind in ('close',) for l in lines) and sum(1 for l in lines if l.kind == 'init') == 1:
            first = {}
            for l in subs:
                first.setdefault(l.q[1], l)
            if len(first) >= 2:
                a, b = sorted(first.values(), key=lambda l: l.rid)[:2]
                sc.gate = (a.rid, b.rid)
    return sc


def gen(rng, focus=None):
    return gen_meta(rng, focus) if rng.random() < 0.6 else gen_data(rng, focus)


def scenario_to_json(sc):
    d = sc.describe()
    d['classes'] = [sx.dumps(l.klass) for l in sc.lines]
    d['rids'] = [l.rid for l in sc.lines]
    d['methods'] = [l.method for l in sc.lines]
    d['kinds'] = [l.kind for l in sc.lines]
    d['qs'] = [repr(l.q) for l in sc.lines]
    return d


def scenario_from_json(d):
    lines = []
    for i, t in enumerate(d['lines']):
        q = eval(d['qs'][i]) if d['qs'][i] != 'None' else None
        oc = d['outcomes'][i]
        if isinstance(oc, list):
            oc = tuple(oc)
        lines.append(Line(t.encode('ascii'), sx.loads(d['classes'][i]), d['rids'][i], d['methods'][i], q, oc, d['kinds'][i]))
    h = d['handler']
    sc = ShellScenario(d['kind'], lines, d['chunks'], pool=d['pool'], cpu=d['cpu'], handler=tuple(h) if h is not None else None, end=d['end'],
                       fail_send=d['fail_send'], start_managed=d['start_managed'], app_close=d['app_close'], user=d['user'], password=d['password'],
                       init_outcome=d['init_outcome'], gate=tuple(d['gate']) if d.get('gate') else None, tail_cut=d.get('tail_cut', 0))
    return sc


def digest(r, pid):
    viol = []
    for detail, key in shellrun.ORACLES[pid](r):
        viol.append({'case': {'scenario': scenario_to_json(r.sc), 'schedule': [c for c, _ in r.taken]}, 'detail': detail, 'key': dict(key), 'kind': 'schedule'})
    call, labs, problems = shellrun.model_call(r)
    outq, written = shellrun.impl_summary(r)
    return {'call': call, 'labs': labs, 'problems': problems, 'viol': viol, 'status': r.status, 'scenario': scenario_to_json(r.sc),
            'content': shellrun.content_cases(r) if pid == 'C04' else [],
            'schedule': [c for c, _ in r.taken], 'outq': outq, 'written': written,
            'final': {k: r.final[k] for k in ('init_expected', 'close_expected', 'stop', 'sock_closed', 'jobs')}, 'exits': bool(r.exits),
            'nhand': len(r.hand), 'nhandio': len(r.handio), 'has_handler': r.sc.handler is not None,
            'kind': r.sc.kind, 'managed': r.sc.start_managed, 'close': r.sc.app_close, 'gate': bool(r.sc.gate), 'nreq': len(r.sc.lines)}


def work(arg):
    import logging
    import os
    import sys
    logging.disable(logging.CRITICAL)
    sys.stderr = open(os.devnull, 'w')       # the library prints tracebacks of handled protocol errors
    pid, seed, n = arg
    rng = random.Random(seed)
    out = []
    for i in range(n):
        sc = gen(rng)
        s2 = rng.getrandbits(32)
        fixture.set_logging(i % 5 == 2)          # a fifth of the runs with every library logger at DEBUG
        ch = dsched.PCTChooser(random.Random(s2), depth=rng.choice([1, 3, 6])) if i % 2 else dsched.RandomChooser(random.Random(s2))
        if i % 10 == 9:
            # line-granular preemption, oracle only (DESIGN.md section 4)
            r = shellrun.run(sc, dsched.RandomChooser(random.Random(s2)), fine=True, fine_seed=s2)
            viol = []
            for detail, key in shellrun.ORACLES[pid](r):
                viol.append({'case': {'scenario': scenario_to_json(r.sc), 'schedule': [c for c, _ in r.taken], 'source': 'fine', 'fine_seed': s2},
                             'detail': detail, 'key': dict(key), 'kind': 'schedule'})
            out.append({'fine': True, 'viol': viol, 'status': r.status, 'scenario': scenario_to_json(r.sc), 'schedule': [c for c, _ in r.taken],
                        'kind': r.sc.kind, 'managed': r.sc.start_managed, 'close': r.sc.app_close, 'gate': bool(r.sc.gate), 'exits': bool(r.exits),
                        'content': []})
            continue
        r = shellrun.run(sc, ch)
        out.append(digest(r, pid))
    return out


def start_race_work(arg):
    """Server.start on a scheduled thread, the first chunk(s) already readable, LINE-granular preemption: what the reader
    does with early requests races whatever start() still has to do after it created the reader.  Oracle only."""
    import logging
    import os
    import sys
    logging.disable(logging.CRITICAL)
    sys.stderr = open(os.devnull, 'w')
    pid, seed, n = arg
    rng = random.Random(seed)
    out = []
    for i in range(n):
        sc = gen(rng)
        sc.start_managed = True
        sc.app_close = 0
        s2 = rng.getrandbits(32)
        # thread priorities (PCT) in half of the runs: a uniformly random choice at every line would hardly ever let the
        # reader get through a whole request while the starting thread sits between two lines
        ch = dsched.PCTChooser(random.Random(s2), depth=rng.choice([1, 2, 3]), horizon=400) if i % 2 else dsched.RandomChooser(random.Random(s2))
        r = shellrun.run(sc, ch, fine=True, fine_seed=s2)
        viol = []
        for detail, key in shellrun.ORACLES[pid](r):
            viol.append({'case': {'scenario': scenario_to_json(r.sc), 'schedule': [c for c, _ in r.taken], 'source': 'fine', 'fine_seed': s2},
                         'detail': detail, 'key': dict(key), 'kind': 'schedule'})
        if r.crashes:
            viol.append({'case': {'scenario': scenario_to_json(r.sc), 'schedule': [c for c, _ in r.taken], 'source': 'fine', 'fine_seed': s2},
                         'detail': 'a library thread / pool job died with %r' % (r.crashes[0],), 'key': {'kind': 'crash'}, 'kind': 'schedule'})
        out.append({'viol': viol, 'status': r.status})
    return out


def start_races(ctx, res, pid, n):
    rng = ctx.rng
    jobs = [(pid, rng.getrandbits(40), max(1, n // 8)) for _ in range(8)]
    with multiprocessing.get_context('fork').Pool(8) as pool:
        results = pool.map(start_race_work, jobs, chunksize=1)
    seen = set()
    for out in results:
        for d in out:
            res.evaluations += 1
            res.count('start-race (line-granular, oracle only)' + ('' if d['status'] == 'quiescent' else ':' + d['status']))
            for v in d['viol']:
                k = repr(sorted(v['key'].items()))
                if k not in seen:
                    res.oracle_violations.append(v)
                seen.add(k)


def run_many(pid, seed, n, nproc=8):
    shard = max(25, n // (nproc * 2))
    rng = random.Random(seed)
    jobs = []
    k = 0
    while k < n:
        jobs.append((pid, rng.getrandbits(40), min(shard, n - k)))
        k += shard
    with multiprocessing.get_context('fork').Pool(nproc) as pool:
        results = pool.map(work, jobs, chunksize=1)
    return [d for out in results for d in out]


def compare_digests(ctx, digs):
    outs = ctx.model([d['call'] for d in digs])
    dis = []
    for d, m in zip(digs, outs):
        case = {'scenario': d['scenario'], 'schedule': d['schedule']}
        for p in d['problems']:
            dis.append({'case': case, 'relation': 'trace shape', 'model': p, 'impl': None})
        if sx.is_err(m):
            dis.append({'case': case, 'relation': 'Shell.run', 'model': sx.dumps(m)[:300], 'impl': None})
        elif m[0] == b'rejected' and d['kind'] == 'data' and d['close']:
            # Data server closed by the application while SUB / USB requests still arrive: executor.submit raises inside
            # add_task; this corner is not modelled (DESIGN.md section 8) and is counted, not compared
            dis.append({'unmodelled': True})
        elif m[0] == b'rejected':
            idx = int(m[1])
            labs = d['labs']
            dis.append({'case': case, 'relation': 'Shell.step accepts every implementation step',
                        'model': 'refuses step %d %s after %s (reader %s, writer %s, workers %s)' % (
                            idx, sx.dumps(list(labs[idx])), sx.dumps([list(x) for x in labs[max(0, idx - 3):idx]]),
                            sx.dumps(m[2][2]), sx.dumps(m[2][3]), sx.dumps(m[2][4])), 'impl': 'performed it'})
        else:
            if m[2]:
                dis.append({'case': case, 'relation': 'invariants / monitors of Model/ShellSpec.v hold along the trace', 'model': 'failing %s' % sx.dumps(m[2]), 'impl': None})
            s = m[1]
            f = d['final']
            got = {'outq': d['outq'], 'written': d['written'], 'init_expected': A(bool(f['init_expected'])), 'close_expected': A(bool(f['close_expected'])),
                   'stop': A(bool(f['stop'])), 'sock_closed': A(bool(f['sock_closed'])), 'exited': A(d['exits']), 'jobs': A(f['jobs'])}
            want = {'outq': s[0], 'written': s[1], 'init_expected': s[5], 'close_expected': s[6], 'stop': s[7], 'sock_closed': s[8], 'exited': s[9], 'jobs': s[10]}
            keys = list(got) if d['status'] == 'quiescent' else ['written', 'exited']   # a run cut short by process exit may stop a thread between two yields
            # flags the harness could not read (private attribute renamed by a refactoring) are not compared
            keys = [k for k in keys if not (k in ('close_expected', 'stop') and f[k] is None)]
            bad = [k for k in keys if got[k] != want[k]]
            if bad:
                k = bad[0]
                dis.append({'case': case, 'relation': 'final state: ' + k, 'model': sx.dumps(want[k])[:300], 'impl': sx.dumps(got[k])[:300]})
            elif d['has_handler'] and (int(s[11]) != d['nhand'] or int(s[12]) != d['nhandio']):
                dis.append({'case': case, 'relation': 'handler calls (exception, io)', 'model': '%d, %d' % (int(s[11]), int(s[12])), 'impl': '%d, %d' % (d['nhand'], d['nhandio'])})
    return dis


def explore(ctx, res, pid):
    rng = ctx.rng
    n = 3000 if ctx.tier == "quick" else 60000
    nproc = 8
    res.rule = ('real MetadataProviderServer / DataProviderServer under the deterministic scheduler; scenarios: init request at position 0 / later / absent / repeated, '
                'with accepted, old, refused or malformed version parameters and initialize returning / raising; 0..7 requests of all 14 Metadata methods (Data: SUB / USB) '
                'well-formed, malformed, unknown or garbage; adapter outcome per request valid / wrong-typed / each library exception / other; close request (id 0 / other / '
                'bad reason) last; chunking one / per-line / random; pool None, -3, 0, 1, 2, 3 (cpu 3); handler absent / returning each boolean pair; read EOF / error at each chunk '
                'position, k-th write failing; Server.start on a scheduled thread with requests already readable; application close() once or twice; an adapter call blocked '
                'until a later request was answered; injected I/O errors of six classes, a failing write leaving a fragment; PCT and uniform random schedules; every step replayed through Model/Shell.v; '
                'the class of every line compared with Model/Classify.v; one run in ten with line-granular preemption (oracle only); corpus of earlier minimised failures first; '
                'non-trivial = distinct (scenario, schedule)')
    shard = max(25, n // (nproc * 2))
    jobs = []
    k = 0
    while k < n:
        jobs.append((pid, rng.getrandbits(40), min(shard, n - k)))
        k += shard
    with multiprocessing.get_context('fork').Pool(nproc) as pool:
        results = pool.map(work, jobs, chunksize=1)
    alld = corpus_digests(pid) + [d for out in results for d in out]
    for d in alld:
        if d.get('fine'):
            res.evaluations += 1
            res.count('line-granular (oracle only)')
            for v in d['viol']:
                res.oracle_violations.append(v)
    digs = [d for d in alld if not d.get('fine')]
    for d in digs:
        res.evaluations += 1
        res.count(d['kind'])
        for flag in ('managed', 'gate'):
            if d[flag]:
                res.count(flag)
        if d['close']:
            res.count('app-close')
        if d['exits']:
            res.count('exit')
        if d['status'] != 'quiescent':
            res.count('status:' + d['status'])
        res.nontrivial.add((json.dumps(d['scenario'], sort_keys=True, default=str), tuple(d['schedule'])))
        for v in d['viol']:
            res.oracle_violations.append(v)
        if res.evaluations % 250 == 0:
            res.sample({'scenario': {k: d['scenario'][k] for k in ('kind', 'lines', 'chunks', 'pool', 'handler', 'end', 'fail_send', 'start_managed', 'app_close')},
                        'schedule': d['schedule'][:40], 'written': [sx.dumps(x) for x in d['written']][:8]})
    B_ = 400
    for i in range(0, len(digs), B_):
        for x in compare_digests(ctx, digs[i:i + B_]):
            if x.get('unmodelled'):
                res.unmodelled += 1
            else:
                res.disagreements.append(x)
    res.traces = len(digs)
    classify_tie(ctx, res, digs)
    content_tie(ctx, res, digs)
    seen = set()
    uniq = []
    for v in res.oracle_violations:
        k = json.dumps(v['key'], sort_keys=True)
        if k not in seen or len(uniq) < 3:
            uniq.append(v)
        seen.add(k)
    res.oracle_violations[:] = uniq


def corpus_digests(pid):
    """corpus/shell-*.json (scenario + schedule of earlier minimised failures, e.g. of the seeded changes): run first"""
    import os
    out = []
    cdir = os.path.join(os.path.dirname(os.path.dirname(os.path.abspath(__file__))), 'corpus')
    if not os.path.isdir(cdir):
        return out
    import logging
    logging.disable(logging.CRITICAL)
    for fn in sorted(os.listdir(cdir)):
        if fn.startswith('shell-') and fn.endswith('.json'):
            try:
                d = json.load(open(os.path.join(cdir, fn)))
                sc = scenario_from_json(d['scenario'])
            except Exception:
                continue
            import sys
            saved = sys.stderr
            sys.stderr = open(os.devnull, 'w')       # the library prints tracebacks of handled protocol errors
            try:
                r = shellrun.run(sc, dsched.ListChooser(d['schedule']))
            finally:
                sys.stderr = saved
            out.append(digest(r, pid))
    return out


def norm_class(c, wire_id):
    """class sexp with the wire id in place of the scenario's index, don't-care fields normalised"""
    if not isinstance(c, list):
        return c
    c = list(c)
    if c[0] == b'init':
        wf, refused, oldv = c[2], c[3], c[4]
        if wf != b'T':
            refused, oldv = b'F', b'F'
        elif refused == b'T':
            oldv = b'F'
        return [c[0], wire_id, wf, refused, oldv]
    if c[0] == b'req':
        wf, known = c[2], c[3]
        if known != b'T':
            wf = b'T'
        return [c[0], wire_id, wf, known]
    return c


def content_tie(ctx, res, digs):
    """C04: the content of every reply produced under a concurrent schedule is the one Model/MetaHandlers.v predicts for THAT
    request (its tokens, the outcomes its adapter calls had)"""
    cases = [(d, c) for d in digs for c in d.get('content', [])]
    for i in range(0, len(cases), 800):
        part = cases[i:i + 800]
        outs = ctx.model([c['call'] for _, c in part])
        for (d, c), m in zip(part, outs):
            res.evaluations += 1
            res.count('content-under-schedule')
            if not (isinstance(m, list) and m and m[0] == b'job'):
                if m == [b'rejected']:
                    want = sym('none')
                else:
                    res.disagreements.append({'case': {'scenario': d['scenario'], 'schedule': d['schedule'], 'request': c['line']},
                                              'model': sx.dumps(m)[:300], 'impl': sx.dumps(c['actual'])[:300], 'relation': 'MetaHandlers.handle_tokens (driver)'})
                    continue
            else:
                r_ = m[2]
                if r_ == b'unmodelled':
                    res.unmodelled += 1
                    continue
                want = r_ if isinstance(r_, list) else sym('none')      # handler / silent: no reply line
            if want != c['actual']:
                res.disagreements.append({'case': {'scenario': d['scenario'], 'schedule': d['schedule'], 'request': c['line']},
                                          'model': sx.dumps(want)[:400], 'impl': sx.dumps(c['actual'])[:400],
                                          'relation': 'reply content of request %s under this schedule = MetaHandlers.handle_tokens of its tokens and outcomes' % c['id']})


def classify_tie(ctx, res, digs):
    """the class the scenario generator attached to every request line (what the Shell model is told) must be the
    class Model/Classify.v computes from the bytes of the line (the abstraction function between the wire-level
    models and the connection-level model)"""
    uniq = {}
    for d in digs:
        scj = d['scenario']
        for text, cl in zip(scj['lines'], scj['classes']):
            uniq.setdefault((scj['kind'], text, cl), None)
    keys = sorted(uniq)
    outs = ctx.model([[sym('classify'), sym(k), t.encode('ascii', 'replace')] for k, t, _ in keys])
    for (k, t, cl), m in zip(keys, outs):
        res.evaluations += 1
        res.count('classify:' + (m[0].decode() if isinstance(m, list) else m.decode()))
        if m == b'unmodelled':
            res.unmodelled += 1
            continue
        wire_id = t.split('|', 1)[0].encode('ascii', 'replace')
        want = norm_class(sx.loads(cl), wire_id)
        got = norm_class(m, m[1] if isinstance(m, list) and m[0] in (b'init', b'req') else None)
        if got != want:
            res.disagreements.append({'case': {'kind': k, 'line': t}, 'model': sx.dumps(m), 'impl': cl,
                                      'relation': 'Classify.classify (line bytes -> line class) = class attached by the scenario generator and fed to Model/Shell.v'})


def search(ctx, res, pid):
    rng = random.Random(ctx.seed + 5)
    for _ in range(8):
        for d in work((pid, rng.getrandbits(40), 200)):
            if d['viol']:
                return d['viol'][0]
    return None


def replay(ctx, data, pid):
    c = data['case']
    sc = scenario_from_json(c['scenario'])
    r = shellrun.run(sc, dsched.ListChooser(c['schedule']), fine=(c.get('source') == 'fine'), fine_seed=c.get('fine_seed', 0))
    v = shellrun.ORACLES[pid](r)
    return bool(v), 'oracle: %r; written: %r' % (v[:3], shellrun.wire_lines(r)[:8])
