"""sched.py — deterministic scheduler over real Python threads (DESIGN.md 4).

Managed threads are real OS threads parked on their own semaphore; exactly one
runs at a time, from one yield point to the next.  Yield points are placed by
the shims of shims.py *before* every shared-memory action of the library (lock
region, queue put / get, adapter call entry / exit, socket operation, job
pick-up), so one scheduled step = one atomic region, and a schedule (list of
choices among the enabled threads) replays an execution exactly."""
import threading


class Killed(BaseException):
    """raised inside a parked thread to unwind it at the end of a run"""


class Halt(BaseException):
    """os._exit was called: the process is gone"""


class MThread:
    def __init__(self, sched, name, role, fn, args):
        self.sched = sched
        self.name = name
        self.role = role
        self.fn = fn
        self.args = args
        self.sem = threading.Semaphore(0)
        self.state = 'new'          # new | parked | running | dead
        self.cond = None            # callable -> bool: may the parked thread proceed?
        self.pending = ('start', None)
        self.kill = False
        self.steps = 0
        self.real = threading.Thread(target=self._main, name='managed-' + name, daemon=True)
        self.exc = None
        self.line_rng = None

    def _main(self):
        self.sem.acquire()
        try:
            if self.kill:
                raise Killed()
            self.state = 'running'
            if self.sched.fine:
                import sys
                sys.settrace(self.sched._tracer)
            self.fn(*self.args)
        except (Killed, Halt):
            pass
        except BaseException as e:   # noqa: a crash of a managed thread is an observable
            self.exc = e
            self.sched.events.append(('thread-crash', self.name, repr(e)))
        finally:
            was_blocked = self in self.sched.blocked
            self.state = 'dead'
            if not was_blocked:             # a thread set aside as blocked is no longer part of the hand-over protocol
                self.sched.current = None
                self.sched.ctl.release()

    def enabled(self):
        if self.state not in ('new', 'parked'):
            return False
        if self.cond is None:
            return True
        return bool(self.cond())


class Sched:
    def __init__(self, fine=None, fine_seed=0, fine_p=0.12):
        # fine: None, or a tuple of file-name suffixes: every source LINE of those files executed by a managed thread is a
        # preemption point of its own (kind 'line').  CPython may switch threads between any two bytecodes, so this is the
        # faithful granularity; it is used for oracle-only runs (the label mappings of the models work at region granularity).
        self.fine = tuple(fine) if fine else None
        # a line is made a preemption point with probability fine_p, decided by a per-thread generator seeded from
        # (fine_seed, thread name): not parking is the same as the controller choosing the same thread again, and it
        # saves the hand-over; a run is reproduced by (scenario, fine_seed, controller choices)
        self.fine_seed = fine_seed
        self.fine_p = fine_p
        self.step_timeout = 4.0
        self.stuck = False
        self.blocked = []
        self.threads = []
        self.by_real = {}
        self.current = None
        self.ctl = threading.Semaphore(0)
        self.trace = []             # executed steps: dict(step, tid, role, kind, data)
        self.events = []            # observables appended by the shims
        self.step_no = 0
        self.choices = []           # (index chosen, number enabled) per branching step
        self.counter = 0
        self.halted = False

    # ------------------------------------------------------------ thread management
    def spawn(self, name, role, fn, args=()):
        t = MThread(self, name, role, fn, args)
        self.threads.append(t)
        t.real.start()
        self.by_real[t.real.ident] = t
        return t

    def me(self):
        return self.by_real.get(threading.get_ident())

    def _tracer(self, frame, event, arg):
        if event == 'call' and frame.f_code.co_filename.endswith(self.fine):
            return self._line_tracer
        return None

    def _line_tracer(self, frame, event, arg):
        if event == 'line':
            t = self.me()
            if t is not None:
                if t.line_rng is None:
                    import random
                    t.line_rng = random.Random('%s/%s' % (self.fine_seed, t.name))
                if t.line_rng.random() < self.fine_p:
                    self.yield_('line', (frame.f_code.co_name, frame.f_lineno))
        return self._line_tracer

    def yield_(self, kind, data=None, cond=None):
        """park the calling managed thread at a yield point; returns when scheduled.
        A call from an unmanaged thread (the controller) is a no-op."""
        t = self.me()
        if t is None or self.current is not t:
            return
        if t.kill:
            return          # being unwound at the end of a run (e.g. a lock released by a `with` block on the way out): never park again
        t.pending = (kind, data)
        t.cond = cond
        t.state = 'parked'
        self.current = None
        self.ctl.release()
        t.sem.acquire()
        if t.kill:
            raise Killed()
        t.state = 'running'
        t.cond = None

    # ------------------------------------------------------------ running
    def enabled_threads(self):
        return [t for t in self.threads if t.enabled()]

    def step(self, t):
        """let t execute one region (from its pending yield point to the next)"""
        kind, data = t.pending
        self.step_no += 1
        rec = {'step': self.step_no, 'tid': t.name, 'role': t.role, 'kind': kind, 'data': data}
        self.trace.append(rec)
        t.steps += 1
        self.current = t
        t.sem.release()
        if not self.ctl.acquire(timeout=self.step_timeout):
            # the thread neither reached its next yield point nor ended: it is blocked in a REAL primitive the scheduler
            # does not control (a lock / semaphore / condition of the threading module).  It is set aside; the others go
            # on; if it is still blocked when nothing else can run, the run ends in status 'deadlock'.
            t.state = 'blocked'
            self.current = None
            self.blocked.append(t)
            self.events.append(('blocked-in-real-primitive', t.name, kind))
        return rec

    def run(self, chooser, max_steps=20000, eager=()):
        """run until no thread is enabled.  chooser(enabled, sched) -> thread.
        Threads whose role is in `eager` are always run first without consulting
        the chooser (their steps commute with everything the scenario observes)."""
        n = 0
        while n < max_steps:
            if self.stuck:
                return 'stuck'
            if self.halted:
                return 'exited'
            en = self.enabled_threads()
            if not en:
                if self.blocked:
                    import time
                    time.sleep(0.3)
                    if any(t.real.is_alive() and t.state == 'blocked' for t in self.blocked):
                        self.stuck = True
                        return 'deadlock'
                return 'quiescent'
            pick = None
            for t in en:
                if (eager(t) if callable(eager) else t.role in eager):
                    pick = t
                    break
            if pick is None:
                if len(en) == 1:
                    pick = en[0]
                else:
                    pick = chooser(en, self)
            self.step(pick)
            n += 1
        return 'step-limit'

    def kill_all(self):
        for t in self.threads:
            if t.state in ('new', 'parked'):
                t.kill = True
                self.current = t
                t.sem.release()
                if not self.ctl.acquire(timeout=2.0 if self.stuck else 30.0):
                    break
        for t in self.threads:
            t.real.join(timeout=0.2 if self.stuck else 5)


# ---------------------------------------------------------------- choosers
class ListChooser:
    """choices taken from a list (index modulo number enabled); 0 afterwards; records branching"""

    def __init__(self, choices):
        self.choices = list(choices)
        self.k = 0
        self.taken = []             # (choice, n_enabled)

    def __call__(self, en, sched):
        c = self.choices[self.k] if self.k < len(self.choices) else 0
        self.k += 1
        c = c % len(en)
        self.taken.append((c, len(en)))
        return en[c]


class RandomChooser:
    def __init__(self, rng, bias=None):
        self.rng = rng
        self.taken = []
        self.bias = bias            # optional callable(en, sched) -> thread or None

    def __call__(self, en, sched):
        t = self.bias(en, sched) if self.bias else None
        if t is None:
            c = self.rng.randrange(len(en))
        else:
            c = en.index(t)
        self.taken.append((c, len(en)))
        return en[c]


def burst_bias(rng, p_in_call=0.3, p_any=0.01):
    """bias for RandomChooser — delivery timing as the adversary: what one recv returned is handled by the reader without
    interruption (a burst), and the next recv returns only when every other thread is at rest, or — with probability
    p_in_call per step — while some thread is inside an adapter call, or with a small probability at any step"""
    def bias(en, sched):
        reader = next((t for t in en if t.role == 'reader'), None)
        if reader is None:
            return None
        others = [t for t in en if t is not reader]
        if not (reader.pending and reader.pending[0] == 'recv') or not others:
            return reader
        in_call = any(t.state == 'parked' and t.pending and t.pending[0] == 'callE' for t in sched.threads)
        if (in_call and rng.random() < p_in_call) or rng.random() < p_any:
            return reader
        return others[rng.randrange(len(others))]
    return bias


class BoundedChooser:
    """choices from a list, with preemption bounding: switching away from a thread
    that could continue costs one unit of `bound`; when the budget is exhausted the
    running thread continues.  Option 0 is always "continue the last thread" when it
    is enabled.  Records (choice, number of options) for dfs_schedules."""

    def __init__(self, choices, bound):
        self.choices = list(choices)
        self.k = 0
        self.budget = bound
        self.last = None
        self.taken = []

    def __call__(self, en, sched):
        last = self.last if self.last in en else None
        if last is not None:
            opts = [last] + [t for t in en if t is not last]
            if self.budget <= 0:
                opts = [last]
        else:
            opts = list(en)
        c = self.choices[self.k] if self.k < len(self.choices) else 0
        self.k += 1
        c = c % len(opts)
        self.taken.append((c, len(opts)))
        pick = opts[c]
        if last is not None and pick is not last:
            self.budget -= 1
        self.last = pick
        return pick


class PCTChooser:
    """random thread priorities with d priority-change points (PCT): the enabled
    thread of highest priority runs; good at ordering bugs of small depth"""

    def __init__(self, rng, depth=3, horizon=150):
        self.rng = rng
        self.prio = {}
        self.change = sorted(rng.randrange(1, horizon) for _ in range(depth))
        self.n = 0
        self.low = 0
        self.taken = []

    def __call__(self, en, sched):
        self.n += 1
        for t in en:
            if t.name not in self.prio:
                self.prio[t.name] = self.rng.random() + 1.0
        pick = max(en, key=lambda t: self.prio[t.name])
        if self.change and self.n >= self.change[0]:
            self.change.pop(0)
            self.low -= 1
            self.prio[pick.name] = self.low
            pick = max(en, key=lambda t: self.prio[t.name])
        self.taken.append((en.index(pick), len(en)))
        return pick


def dfs_schedules(run_one, max_runs=None):
    """stateless depth-first enumeration of all schedules of a scenario.
    run_one(choices) -> taken  (list of (choice, n_enabled)) must run the scenario
    with ListChooser(choices).  Yields nothing; run_one does the checking.
    Returns (runs, complete)."""
    prefix = []
    runs = 0
    while True:
        taken = run_one(prefix)
        runs += 1
        if max_runs is not None and runs >= max_runs:
            return runs, False
        # next schedule: deepest position that can still be incremented
        k = len(taken) - 1
        while k >= 0 and taken[k][0] + 1 >= taken[k][1]:
            k -= 1
        if k < 0:
            return runs, True
        prefix = [c for c, _ in taken[:k]] + [taken[k][0] + 1]
