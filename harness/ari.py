"""ari.py — an independent ARI decoder for what the Remote Server sends (replies and
notifications), written from the protocol layout only (type markers S B I D M Y E V),
plus the conversion of Python values into the model's pyval S-expressions.
Used by the oracles of C07, C08, C11, C14 and cross-checked against the Coq
specification decoders (Model/AriReply.v)."""
import base64
import urllib.parse

from sx import sym, A

MODE_LETTERS = {'R': 'RAW', 'M': 'MERGE', 'D': 'DISTINCT', 'C': 'COMMAND'}


class Bad(Exception):
    pass


def text(tok):
    if tok == '#':
        return None
    if tok == '$':
        return ''
    if not tok:
        raise Bad('empty text token')
    for c in tok:
        if c in '|\r\n \t':
            raise Bad('separator inside token %r' % tok)
    return urllib.parse.unquote_plus(tok, errors='strict')


def boolean(tok):
    if tok == '1':
        return True
    if tok == '0':
        return False
    raise Bad('bad B token %r' % tok)


def integer(tok):
    if not tok or not (tok.lstrip('-').isdigit() and tok.isascii()):
        raise Bad('bad I token %r' % tok)
    return int(tok)


def double(tok):
    if not tok:
        raise Bad('empty D token')
    return float(tok)


def modes(tok):
    if tok == '#':
        return None
    if tok == '$':
        return []
    out = []
    for c in tok:
        if c not in MODE_LETTERS:
            raise Bad('bad M token %r' % tok)
        out.append(MODE_LETTERS[c])
    return out


def split(line):
    if '\r' in line or '\n' in line:
        raise Bad('CR/LF inside a line')
    return line.split('|')


def strings(line):
    t = split(line)
    rest = t[1:]
    if len(rest) % 2:
        raise Bad('odd S list')
    out = []
    for i in range(0, len(rest), 2):
        if rest[i] != 'S':
            raise Bad('marker %r' % rest[i])
        out.append(text(rest[i + 1]))
    return t[0], out


def item_data(line, raw=False):
    t = split(line)
    rest = t[1:]
    if len(rest) % 6:
        raise Bad('item data arity')
    out = []
    for i in range(0, len(rest), 6):
        if (rest[i], rest[i + 2], rest[i + 4]) != ('I', 'D', 'M'):
            raise Bad('markers %r' % (rest[i:i + 6],))
        out.append((integer(rest[i + 1]), rest[i + 3] if raw and double(rest[i + 3]) is not None else double(rest[i + 3]), modes(rest[i + 5])))
    return t[0], out


def notify_user(line, raw=False):
    t = split(line)
    if len(t) != 5 or t[1] != 'D' or t[3] != 'B':
        raise Bad('NUS shape %r' % (t,))
    return t[0], (t[2] if raw and double(t[2]) is not None else double(t[2])), boolean(t[4])


def void(line):
    t = split(line)
    if len(t) != 2 or t[1] != 'V':
        raise Bad('void shape')
    return t[0]


def params(line):
    t = split(line)
    rest = t[1:]
    if len(rest) % 4:
        raise Bad('params arity')
    out = []
    for i in range(0, len(rest), 4):
        if rest[i] != 'S' or rest[i + 2] != 'S':
            raise Bad('params markers')
        out.append((rest[i + 1], text(rest[i + 3])))
    return t[0], out


def update(line):
    t = split(line)
    if len(t) < 7 or t[0] != 'UD3' or t[1] != 'S' or t[3] != 'S' or t[5] != 'B':
        raise Bad('UD3 head %r' % (t[:7],))
    rest = t[7:]
    if len(rest) % 4:
        raise Bad('UD3 fields arity')
    fields = []
    for i in range(0, len(rest), 4):
        if rest[i] != 'S':
            raise Bad('field marker')
        name = text(rest[i + 1])
        if rest[i + 2] == 'S':
            val = text(rest[i + 3])
        elif rest[i + 2] == 'Y':
            val = base64.b64decode(rest[i + 3].encode('ascii'), validate=True)
        else:
            raise Bad('value marker %r' % rest[i + 2])
        fields.append((name, val))
    return text(t[2]), text(t[4]), boolean(t[6]), fields


def item_notify(line):
    t = split(line)
    if len(t) != 5 or t[1] != 'S' or t[3] != 'S':
        raise Bad('EOS/CLS shape')
    return t[0], text(t[2]), text(t[4])


def failure(line):
    t = split(line)
    if len(t) != 3 or t[0] != 'FAL' or t[1] != 'E':
        raise Bad('FAL shape')
    return text(t[2])


def error(line):
    """-> dict(method, subtype, msg, code, user_msg, session)"""
    t = split(line)
    if len(t) < 3 or not t[1].startswith('E') or len(t[1]) > 2:
        raise Bad('error shape %r' % (t,))
    sub = t[1][1:] or None
    r = {'method': t[0], 'subtype': sub, 'msg': text(t[2]), 'code': None, 'user_msg': 'absent', 'session': 'absent'}
    rest = t[3:]
    if sub == 'C':
        if len(rest) != 2:
            raise Bad('EC arity')
        r['code'] = integer(rest[0])
        r['user_msg'] = text(rest[1])
    elif sub == 'X':
        if len(rest) != 3:
            raise Bad('EX arity')
        r['code'] = integer(rest[0])
        r['user_msg'] = text(rest[1])
        r['session'] = text(rest[2])
    elif rest:
        raise Bad('extra tokens %r' % (rest,))
    return r


# ---------------------------------------------------------------- Python values -> model pyval sexps
def pyval(v):
    from lightstreamer_adapter.interfaces.metadata import Mode
    if v is None:
        return sym('none')
    if isinstance(v, bool):
        return [sym('bool'), A(v)]
    if isinstance(v, str):
        return [sym('str'), v.encode('utf-8')]
    if isinstance(v, bytes):
        return [sym('bytes'), v]
    if isinstance(v, int):
        return [sym('int'), A(v)]
    if isinstance(v, float):
        return [sym('float'), repr(v).encode('ascii')]
    if isinstance(v, Mode):
        return [sym('mode'), sym(v.name)]
    if isinstance(v, (list, tuple)):
        return [sym('list')] + [pyval(x) for x in v]
    if isinstance(v, dict):
        return [sym('dict')] + [[pyval(k), pyval(x)] for k, x in v.items()]
    return [sym('other'), A(bool(v))]


def call_writer(fn, *args, **kw):
    """-> ('ok', line) | ('err', 'remoting') | ('err', 'other')   (the model's wres)"""
    from lightstreamer_adapter.protocol import RemotingException
    try:
        r = fn(*args, **kw)
    except RemotingException:
        return [sym('err'), sym('remoting')]
    except Exception:
        return [sym('err'), sym('other')]
    if not isinstance(r, str):
        return [sym('err'), sym('nonstr')]
    return [sym('ok'), r.encode('utf-8', 'surrogatepass')]


class Other:
    """an object of an unsupported type"""

    def __init__(self, truthy=True):
        self.t = truthy

    def __bool__(self):
        return self.t

    def __repr__(self):
        return 'Other(%r)' % self.t
