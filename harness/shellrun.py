"""shellrun.py — run a real MetadataProviderServer / DataProviderServer under the
deterministic scheduler on a connection-level scenario (request lines incl.
malformed ones and init / close at arbitrary positions, chunking, adapter
outcomes, exception-handler configuration, I/O faults, application close(),
Server.start on a scheduled thread), turn the executed trace into the labels of
Model/Shell.v, and evaluate the oracles of C04, C10, C14, C18, C20 on
implementation observables only."""
import collections

import ari
import dsched
import shims
import sx
import wire
from sx import sym, A

META_METHODS = ['NUS', 'NUA', 'NNS', 'NSC', 'GIS', 'GSC', 'GIT', 'GUI', 'NUM', 'NNT', 'NTC', 'MDA', 'MSA', 'MDC']
MODE_N = 4


class Line:
    """one request line of the scenario"""

    def __init__(self, text, klass, rid=None, method=None, q=None, outcome='valid', kind='req'):
        self.text = text            # bytes, with terminator
        self.klass = klass          # lineclass sexp for the model
        self.rid = rid              # index among the lines carrying a request id (or None)
        self.method = method
        self.q = q
        self.outcome = outcome      # 'valid' | 'wrong' | ('raise', class name)
        self.kind = kind            # 'init' | 'req' | 'close' | 'garbage'
        self.wire_id = text.split(b'|', 1)[0].decode('ascii', 'replace') if text else ''


class ShellScenario:
    def __init__(self, kind, lines, chunks, pool=2, cpu=3, handler=None, end='block', fail_send=None,
                 start_managed=False, app_close=0, user=None, password=None, init_outcome='ret', gate=None, tail_cut=0):
        self.kind = kind
        self.lines = lines
        self.chunks = chunks            # list of lists of indices into lines
        self.pool = pool
        self.cpu = cpu
        self.handler = handler          # None | (ex_ret, io_ret)
        self.end = end
        self.fail_send = fail_send
        self.start_managed = start_managed
        self.app_close = app_close      # number of application close() calls
        self.user = user
        self.password = password
        self.init_outcome = init_outcome
        self.gate = gate                # (rid_blocked, rid_until): the adapter call of rid_blocked returns only after the reply of rid_until was written
        self.tail_cut = tail_cut        # the connection fails MID-LINE: this many bytes of the last line never arrive (its terminator first)

    def nworkers(self):
        p = self.pool
        if p is None or p <= 0:
            return self.cpu
        return p

    def describe(self):
        return {'kind': self.kind, 'lines': [l.text.decode('ascii', 'replace') for l in self.lines], 'chunks': self.chunks, 'pool': self.pool,
                'cpu': self.cpu, 'handler': self.handler, 'end': self.end, 'fail_send': self.fail_send, 'start_managed': self.start_managed,
                'app_close': self.app_close, 'user': self.user, 'password': self.password, 'init_outcome': self.init_outcome, 'gate': self.gate,
                'tail_cut': self.tail_cut,
                'outcomes': [l.outcome for l in self.lines]}


EXPECTED_CALLS = {
    'NUS': ['notify_user', 'get_allowed_max_bandwidth', 'wants_tables_notification'],
    'NUA': ['notify_user_with_principal', 'get_allowed_max_bandwidth', 'wants_tables_notification'],
    'NNS': ['notify_new_session'], 'NSC': ['notify_session_close'], 'GIS': ['get_items'], 'GSC': ['get_schema'],
    'NUM': ['notify_user_message'], 'NNT': ['notify_new_tables'], 'NTC': ['notify_tables_close'],
    'MDA': ['notify_mpn_device_access'], 'MSA': ['notify_mpn_subscription_activation'], 'MDC': ['notify_mpn_device_token_change'],
}


def expected_calls(line):
    m = line.method
    if m == 'GIT':
        out = []
        for _ in line.q[1]:
            out += ['mode_may_be_allowed'] * MODE_N + ['get_distinct_snapshot_length', 'get_min_source_frequency']
        return out
    if m == 'GUI':
        out = []
        for _ in line.q[2]:
            out += ['ismode_allowed'] * MODE_N + ['get_allowed_buffer_size', 'get_allowed_max_item_frequency']
        return out
    return list(EXPECTED_CALLS[m])


VALID = {'get_allowed_max_bandwidth': 1.5, 'wants_tables_notification': True, 'get_items': ['a', 'b c'], 'get_schema': ['f1', 'f|2'],
         'mode_may_be_allowed': True, 'ismode_allowed': True, 'get_distinct_snapshot_length': 3, 'get_min_source_frequency': 1.0,
         'get_allowed_buffer_size': 2, 'get_allowed_max_item_frequency': 2.0}
WRONG = {'get_allowed_max_bandwidth': 1, 'wants_tables_notification': 'yes', 'get_items': ['a', 0], 'get_schema': 5,
         'get_distinct_snapshot_length': True, 'get_min_source_frequency': 1, 'get_allowed_buffer_size': 2.5, 'get_allowed_max_item_frequency': 2}
WRONG_FOR = {'NUS': 'get_allowed_max_bandwidth', 'NUA': 'wants_tables_notification', 'GIS': 'get_items', 'GSC': 'get_schema',
             'GIT': 'get_distinct_snapshot_length', 'GUI': 'get_allowed_buffer_size'}


def lib_exc(name, text):
    import lightstreamer_adapter.interfaces.metadata as im
    import lightstreamer_adapter.interfaces.data as idt
    if name == 'CreditsError':
        return im.CreditsError(-3, text, 'user msg')
    if name == 'ConflictingSessionError':
        return im.ConflictingSessionError(-4, text, 'sid', 'user msg')
    if name == 'EmptyError':
        # a user-defined exception whose instances are falsy (it defines __len__ and holds nothing)
        return type('EmptyError', (Exception,), {'__len__': lambda self: 0})(text)
    if hasattr(im, name):
        return getattr(im, name)(text)
    if hasattr(idt, name):
        return getattr(idt, name)(text)
    return {'RuntimeError': RuntimeError, 'KeyError': KeyError, 'ValueError': ValueError, 'TypeError': TypeError,
            'AttributeError': AttributeError}[name](text)


class Call:
    __slots__ = ('name', 'thread', 'b', 'e', 'ok', 'rid', 'args')


def make_meta_adapter(S, sc, log, cur_job):
    from lightstreamer_adapter.interfaces.metadata import MetadataProvider
    import fixture

    class M(MetadataProvider):
        pass
    job_rid = log['job_rid']

    def mk(name):
        def method(self, *args, **kwargs):
            th = S.me().name if S.me() else 'ctl'
            c = Call()
            S.yield_('callB', (name,))
            rid = job_rid.get(cur_job.get(th)) if th.startswith('worker') else None
            c.name, c.thread, c.rid, c.args, c.e, c.ok = name, th, rid, args, None, None
            c.b = S.step_no
            log['calls'].append(c)
            outcome = 'valid'
            if name == 'initialize':
                outcome = {'ret': 'valid', 'provider': ('raise', 'MetadataProviderError'), 'other': ('raise', 'RuntimeError'),
                           'type': ('raise', 'TypeError'), 'attr': ('raise', 'AttributeError'), 'empty': ('raise', 'EmptyError')}[sc.init_outcome]
            elif rid is not None:
                ln = log['lines_by_rid'][rid]
                outcome = ln.outcome
                if outcome == 'wrong' and WRONG_FOR.get(ln.method) != name:
                    outcome = 'valid'
                if isinstance(outcome, tuple):
                    # raise at the k-th adapter call made for this request (k = outcome[2], default 0)
                    k = outcome[2] if len(outcome) > 2 else 0
                    done = log['ncalls'].get(rid, 0)
                    log['ncalls'][rid] = done + 1
                    if done != min(k, max(len(expected_calls(ln)) - 1, 0)):
                        outcome = 'valid'
            gate = sc.gate
            cond = None
            if gate and rid == gate[0] and name != 'initialize':
                until = log['lines_by_rid'][gate[1]].wire_id.encode() + b'|'
                cond = lambda: any(x.startswith(until) for x in log['sock'].sent)
            S.yield_('callE', (name, outcome), cond=cond)
            c.e = S.step_no
            c.ok = not isinstance(outcome, tuple)
            if isinstance(outcome, tuple):
                raise lib_exc(outcome[1], '%s failed' % name)
            if outcome == 'wrong':
                return WRONG[name]
            return VALID.get(name)
        method.__name__ = name
        return method
    for n in fixture.META_METHODS:
        if hasattr(MetadataProvider, n):
            setattr(M, n, mk(n))
    return M()


def make_data_adapter(S, sc, log, cur_job):
    from lightstreamer_adapter.interfaces.data import DataProvider

    class D(DataProvider):
        def __init__(self):
            self.listener = None

        def _call(self, name, args, outcome='valid'):
            th = S.me().name if S.me() else 'ctl'
            c = Call()
            c.name, c.thread, c.rid, c.args, c.e, c.ok = name, th, None, args, None, None
            S.yield_('callB', (name,))
            c.b = S.step_no
            log['calls'].append(c)
            cond = None
            gate = sc.gate
            if gate and name == 'subscribe' and not log.get('gated') and args and args[0] == log['lines_by_rid'][gate[0]].q[1]:
                # this subscribe() blocks until the reply to a later request (for another item) has been written
                log['gated'] = True
                until = log['lines_by_rid'][gate[1]].wire_id.encode() + b'|'
                cond = lambda: any(x.startswith(until) for x in log['sock'].sent)
            S.yield_('callE', (name, outcome), cond=cond)
            c.e = S.step_no
            c.ok = not isinstance(outcome, tuple)
            if isinstance(outcome, tuple):
                raise lib_exc(outcome[1], '%s failed' % name)

        def initialize(self, parameters, config_file=None):
            oc = {'ret': 'valid', 'provider': ('raise', 'DataProviderError'), 'other': ('raise', 'RuntimeError'),
                  'type': ('raise', 'TypeError'), 'attr': ('raise', 'AttributeError'), 'empty': ('raise', 'EmptyError')}[sc.init_outcome]
            self._call('initialize', (parameters,), oc)

        def set_listener(self, event_listener):
            self._call('set_listener', ())
            self.listener = event_listener

        def issnapshot_available(self, item_name):
            self._call('issnapshot_available', (item_name,))
            return True

        def subscribe(self, item_name):
            self._call('subscribe', (item_name,))

        def unsubscribe(self, item_name):
            self._call('unsubscribe', (item_name,))
    return D()


def make_handler(S, sc, log):
    from lightstreamer_adapter.server import ExceptionHandler

    class H(ExceptionHandler):
        def handle_ioexception(self, e):
            S.yield_('handio', bool(sc.handler[1]))
            log['handio'].append((S.step_no, S.me().name if S.me() else 'ctl', repr(e)))
            return sc.handler[1]

        def handle_exception(self, e):
            S.yield_('hand', bool(sc.handler[0]))
            log['hand'].append((S.step_no, S.me().name if S.me() else 'ctl', repr(e)))
            return sc.handler[0]
    return H()


def static_served(sc):
    """Metadata requests that are submitted to the pool, in order: well-formed, known method, after the first init line"""
    out = []
    seen_init = False
    for ch in sc.chunks:
        for i in ch:
            l = sc.lines[i]
            if l.kind == 'init':
                seen_init = True
            elif l.kind == 'req' and seen_init and l.klass[2] == b'T' and l.klass[3] == b'T':
                out.append(l)
    return out


class Run:
    pass


FINE_FILES = ('lightstreamer_adapter/server.py', 'lightstreamer_adapter/subscription.py', 'lightstreamer_adapter/protocol.py',
              'lightstreamer_adapter/data_protocol.py', 'lightstreamer_adapter/metadata_protocol.py')


def run(sc, chooser, max_steps=8000, eager=(), fine=False, fine_seed=0):
    import lightstreamer_adapter.server as server
    S = dsched.Sched(fine=FINE_FILES if fine else None, fine_seed=fine_seed)
    if fine:
        max_steps = max_steps * 8
    log = {'calls': [], 'hand': [], 'handio': [], 'job_rid': {}, 'ncalls': {}, 'lines_by_rid': {l.rid: l for l in sc.lines if l.rid is not None}}
    cur_job = {}
    for j, ln in enumerate(static_served(sc)):
        log['job_rid'][j] = ln.rid
    stream = [b''.join(sc.lines[i].text for i in ch) for ch in sc.chunks]
    if sc.tail_cut and stream and sc.chunks[-1]:
        stream[-1] = stream[-1][:-sc.tail_cut]
    stream = [c for c in stream if c]
    r = Run()
    with shims.install(S, chunks=stream, end=sc.end, fail_send=sc.fail_send, cpu=sc.cpu) as env:
        log['sock'] = env.sock
        if sc.kind == 'meta':
            ad = make_meta_adapter(S, sc, log, cur_job)
            srv = server.MetadataProviderServer(ad, ('h', 1), name='M', keep_alive=0, thread_pool_size=sc.pool)
        else:
            ad = make_data_adapter(S, sc, log, cur_job)
            srv = server.DataProviderServer(ad, ('h', 1), name='D', keep_alive=0, thread_pool_size=sc.pool)
        if sc.user is not None:
            srv.remote_user = sc.user
        if sc.password is not None:
            srv.remote_password = sc.password
        if sc.handler is not None:
            srv.set_exception_handler(make_handler(S, sc, log))
        r.pool_size = srv.thread_pool_size
        # job -> request: the k-th submitted metadata job serves the k-th well-formed post-init request
        ex = getattr(srv, '_executor', None) or shims.MExecutor.instances[-1]
        orig_worker_job = {}

        def track(e):
            pass
        if sc.start_managed:
            S.spawn('starter', 'starter', srv.start)
        else:
            srv.start()
        if sc.app_close:
            def closer():
                for _ in range(sc.app_close):
                    srv.close()         # close() may be called again
            # the application may call close() only after start() has returned
            S.spawn('app', 'app', closer)
        # scheduling loop with job bookkeeping
        r.status = run_loop(S, chooser, max_steps, eager, cur_job, sc)
        r.final = {
            'init_expected': srv.init_expected, 'close_expected': _ce(srv),
            'stop': _stop_flag(srv),
            'outq': list(env.queues[0].items) if env.queues else [],
            'jobs': len(ex.jobs), 'shutdown': ex.shutdown_flag, 'sock_closed': env.sock.closed > 0,
            'workers': len(ex.workers),
        }
        r.sent = list(env.sock.sent)
        r.exits = list(env.os.exits)
        r.pending_chunks = len(env.sock.chunks)
        r.queue_log = list(env.queues[0].log) if env.queues else []
        r.crashes = [e for e in S.events if e[0] in ('thread-crash', 'job-error')]
        S.kill_all()
    r.S = S
    r.trace = S.trace
    r.events = S.events
    r.calls = log['calls']
    r.hand = log['hand']
    r.handio = log['handio']
    r.sc = sc
    r.taken = getattr(chooser, 'taken', [])
    r.threads = {t.name: t.state for t in S.threads}
    return r


def run_loop(S, chooser, max_steps, eager, cur_job, sc):
    """Sched.run with two additions: the job a worker is running is tracked (for the adapter stub), and an application
    close() thread is held back until start() has returned"""
    n = 0
    while n < max_steps:
        if S.halted:
            return 'exited'
        en = S.enabled_threads()
        starter = [t for t in S.threads if t.role == 'starter']
        if starter and starter[0].state != 'dead':
            en = [t for t in en if t.role != 'app']
        if not en:
            if S.blocked:
                import time
                time.sleep(0.3)
                if any(t.real.is_alive() and t.state == 'blocked' for t in S.blocked):
                    S.stuck = True
                    return 'deadlock'
            return 'quiescent'
        pick = None
        for t in en:
            if (eager(t) if callable(eager) else t.role in eager):
                pick = t
                break
        if pick is None:
            pick = en[0] if len(en) == 1 else chooser(en, S)
        rec = S.step(pick)
        if pick.role == 'worker':
            for e in S.events[::-1]:
                if e[1] != rec['step']:
                    break
                if e[0] == 'job-start' and e[2] == pick.name:
                    cur_job[pick.name] = e[3]
        n += 1
    return 'step-limit'


# ---------------------------------------------------------------- classification of outbound items
def classify_out(sc, item):
    if not isinstance(item, str):
        return sym('notif')
    if item == 'STOP_WAITING_PILL':
        return sym('stop')
    p = item.split('|')
    if len(p) >= 2 and p[1] == 'RAC':
        return sym('rac')
    if len(p) >= 2 and p[1] in ('UD3', 'EOS', 'CLS'):
        return sym('notif')
    if len(p) >= 2 and p[1] == 'FAL':
        return sym('fal')
    rid = None
    for l in sc.lines:
        if l.rid is not None and l.wire_id == p[0]:
            rid = l.rid
            if l.kind == 'init' and len(p) >= 2 and p[1] in ('MPI', 'DPI'):
                return [sym('init-reply'), A(rid), A(not (len(p) > 2 and p[2].startswith('E')))]
    if rid is None:
        return sym('notif')
    # the id may be shared by an init line and a request: prefer a non-init line whose method matches
    for l in sc.lines:
        if l.rid is not None and l.wire_id == p[0] and l.method == p[1] and l.kind != 'init':
            return [sym('reply'), A(l.rid)]
    return [sym('reply'), A(rid)]


def labels(r):
    """-> (list of (thread sexp, action sexp), problems)"""
    sc = r.sc
    out = []
    problems = []
    ev_by_step = collections.defaultdict(list)
    for e in r.events:
        ev_by_step[e[1]].append(e)
    by_text = {}
    for l in sc.lines:
        by_text[l.text.rstrip(b'\r\n')] = l
    buf = b''
    wname = {}
    aname = {}
    meta_jobs = [l.rid for l in sc.lines]      # placeholder
    synth = {'done': False}

    def th_sx(st):
        role, tid = st['role'], st['tid']
        if role == 'worker':
            return [sym('worker'), A(int(tid[6:]))]
        if role in ('free', 'thread'):
            return [sym('adapter'), A(aname.setdefault(tid, len(aname)))]
        return sym(role)
    for st in r.trace:
        kind, data, no, role = st['kind'], st['data'], st['step'], st['role']
        evs = ev_by_step[no]
        t = th_sx(st)
        if kind == 'start':
            if role == 'app':
                out.append((t, sym('start')))
            continue
        if kind in ('released', 'clock') or kind == 'lis-begin':
            if role == 'worker' and any(e[0] == 'job-end' for e in evs):
                out.append((t, sym('job-end')))
            continue
        if kind == 'thread-start':
            out.append((t, sym('thread-start')))
        elif kind == 'recv':
            names = [e[0] for e in evs]
            if 'recv' in names:
                chunk = [e for e in evs if e[0] == 'recv'][0][3]
                buf += chunk
                parts = buf.split(b'\n')
                buf = parts[-1]
                cls = []
                for ptxt in parts[:-1]:
                    ln = by_text.get(ptxt.rstrip(b'\r'))
                    if ln is None:
                        problems.append('reader got an unknown line %r' % ptxt)
                        cls.append(sym('garbage'))
                    else:
                        cls.append(ln.klass)
                out.append((t, [sym('recv'), cls]))
            elif 'recv-eof' in names:
                out.append((t, sym('recv-eof')))
            elif 'recv-error' in names:
                out.append((t, sym('recv-err')))
            elif 'recv-closed' in names:
                out.append((t, sym('recv-closed')))
        elif kind == 'put':
            if role == 'app' and out and any(x[0] == t and x[1] == sym('sock-close') for x in out[-40:]) and \
                    [x for x in out if x[0] == t][-1][1] == sym('sock-close'):
                out.append((t, sym('start')))       # a further close() call by the application begins
            out.append((t, [sym('put'), classify_out(sc, data)]))
        elif kind == 'callB':
            c = 'init' if data[0] == 'initialize' else 'set-listener' if data[0] == 'set_listener' else 'other'
            out.append((t, [sym('callB'), sym(c)]))
        elif kind == 'callE':
            c = 'init' if data[0] == 'initialize' else 'set-listener' if data[0] == 'set_listener' else 'other'
            out.append((t, [sym('callE'), sym(c), A(not isinstance(data[1], tuple))]))
        elif kind == 'hand':
            out.append((t, [sym('hand'), A(bool(data))]))
        elif kind == 'handio':
            out.append((t, [sym('handio'), A(bool(data))]))
        elif kind == 'acquire':
            dropped = False
            if role == 'reader' and data[0] == 'M':
                # do_unsubscription for an item without entry returns after the manager-lock region: no item-lock region follows
                nxt = [x for x in r.trace if x['step'] > no and x['tid'] == st['tid'] and x['kind'] not in ('released', 'clock')]
                dropped = not (nxt and nxt[0]['kind'] == 'acquire' and nxt[0]['data'][0] == 'I')
            if dropped:
                out.append((t, sym('lock-drop')))
            else:
                out.append((t, [sym('lock'), A(any(e[0] == 'submit' for e in evs))]))
        elif kind == 'join':
            out.append((t, sym('join')))
        elif kind == 'shutdown-wait':
            # workers never spawned do not exist in the implementation: in the model they are idle and leave now
            spawned = len([x for x in r.S.threads if x.role == 'worker'])
            if not synth['done']:
                synth['done'] = True
                for k in range(spawned, sc.nworkers()):
                    out.append(([sym('worker'), A(k)], sym('worker-exit')))
            out.append((t, sym('shutdown-wait')))
        elif kind == 'sock-close':
            out.append((t, sym('sock-close')))
        elif kind == 'get':
            out.append((t, sym('get')))
        elif kind == 'send':
            out.append((t, [sym('send'), A(any(e[0] == 'send' for e in evs))]))
        elif kind == 'job':
            js = [e for e in evs if e[0] == 'job-start']
            if js:
                out.append((t, [sym('job-start'), A(js[0][3])]))
            else:
                out.append((t, sym('worker-exit')))
        else:
            problems.append('unexpected yield %r of %s' % (kind, st['tid']))
        if role == 'worker' and any(e[0] == 'job-end' for e in evs):
            out.append((t, sym('job-end')))
    return out, problems


def kind_sx(sc):
    return sym(sc.kind)


def handler_sx(sc):
    return sym('none') if sc.handler is None else [sym('ret'), A(bool(sc.handler[0])), A(bool(sc.handler[1]))]


def model_call(r):
    labs, problems = labels(r)
    return [sym('shell_run'), kind_sx(r.sc), handler_sx(r.sc), A(r.sc.nworkers()), A(not r.sc.start_managed),
            [[t, a] for t, a in labs]], labs, problems


def impl_summary(r):
    """the observable part of the final state, in the vocabulary of EntryShell.sx_shell"""
    outq = [classify_out(r.sc, x) for x in r.final['outq']]
    written = [classify_out(r.sc, x.decode('utf-8', 'replace')[:-2]) for x in r.sent]
    return outq, written


def compare(ctx, runs):
    calls = []
    meta = []
    for r in runs:
        c, labs, problems = model_call(r)
        calls.append(c)
        meta.append((r, labs, problems))
    outs = ctx.model(calls)
    dis = []
    for (r, labs, problems), m in zip(meta, outs):
        for p in problems:
            dis.append({'relation': 'trace shape', 'detail': p, 'run': r})
        if sx.is_err(m):
            dis.append({'relation': 'Shell.run', 'detail': sx.dumps(m)[:300], 'run': r})
        elif m[0] == b'rejected':
            idx = int(m[1])
            dis.append({'relation': 'Shell.step accepts every implementation step',
                        'detail': 'the model refuses step %d %s after %s (state: reader %s, writer %s, workers %s)' % (
                            idx, sx.dumps(list(labs[idx])), sx.dumps([list(x) for x in labs[max(0, idx - 3):idx]]),
                            sx.dumps(m[2][2]), sx.dumps(m[2][3]), sx.dumps(m[2][4])), 'run': r})
        else:
            s = m[1]
            outq, written = impl_summary(r)
            got = {'outq': outq, 'written': written, 'init_expected': A(bool(r.final['init_expected'])), 'close_expected': A(bool(r.final['close_expected'])),
                   'stop': A(bool(r.final['stop'])), 'sock_closed': A(bool(r.final['sock_closed'])), 'exited': A(bool(r.exits)),
                   'jobs': A(r.final['jobs'])}
            want = {'outq': s[0], 'written': s[1], 'init_expected': s[5], 'close_expected': s[6], 'stop': s[7], 'sock_closed': s[8], 'exited': s[9], 'jobs': s[10]}
            for k in got:
                if got[k] != want[k]:
                    dis.append({'relation': 'final state: ' + k, 'detail': 'model %s, implementation %s' % (sx.dumps(want[k])[:300], sx.dumps(got[k])[:300]), 'run': r})
                    break
            else:
                nh = len(r.hand)
                if r.sc.handler is not None and int(s[11]) != nh:
                    dis.append({'relation': 'exception-handler calls', 'detail': 'model %d, implementation %d' % (int(s[11]), nh), 'run': r})
                if r.sc.handler is not None and int(s[12]) != len(r.handio):
                    dis.append({'relation': 'io-exception-handler calls', 'detail': 'model %d, implementation %d' % (int(s[12]), len(r.handio)), 'run': r})
    return dis


# ---------------------------------------------------------------- oracles
def wire_lines(r):
    return [x.decode('utf-8', 'replace')[:-2] for x in r.sent]


def reply_lines(r):
    """rid -> list of lines whose id and method match the request"""
    out = collections.defaultdict(list)
    for pos, line in enumerate(r.queue_log):
        if not isinstance(line, str):
            continue
        p = line.split('|')
        for l in r.sc.lines:
            if l.rid is not None and l.wire_id == p[0] and len(p) > 1 and p[1] == l.method:
                out[l.rid].append((pos, line))
    return out


def first_init(sc):
    for l in sc.lines:
        if l.kind == 'init':
            return l
    return None


def delivered(r):
    """lines the reader has read completely (by chunk accounting)"""
    n_chunks = len([e for e in r.events if e[0] == 'recv'])
    idx = []
    for ch in r.sc.chunks[:n_chunks]:
        idx += ch
    if r.sc.tail_cut and n_chunks >= len([c for c in r.sc.chunks if c]) and idx and r.sc.chunks[-1]:
        idx = idx[:-1]          # the last line never arrived completely
    return [r.sc.lines[i] for i in idx]


def oracle_c14(r):
    out = []
    q = [x for x in r.queue_log if isinstance(x, str)]
    racs = [x for x in q if x.split('|')[1:2] == ['RAC']]
    if q and q[0].split('|')[:2] != ['1', 'RAC']:
        out.append(('the first message enqueued is %r, not the credentials message' % (q[0][:60],), {'kind': 'rac_not_first'}))
    w = wire_lines(r)
    if w and w[0].split('|')[:2] != ['1', 'RAC']:
        out.append(('the first line written is %r, not the credentials message' % (w[0][:60],), {'kind': 'rac_not_first'}))
    if len(racs) > 1 or (q and len(racs) != 1):
        out.append(('%d credentials messages' % len(racs), {'kind': 'rac_count'}))
    # written exactly once: when the run is over, the writer has ended and no write failed, the credentials line that
    # was enqueued is on the wire (a close() right after start() must not discard it)
    write_fault = any(e[0] in ('send-error', 'send-closed') for e in r.events)
    if racs and r.status == 'quiescent' and not write_fault and not r.exits and r.threads.get('writer') == 'dead' \
            and not any(x.split('|')[:2] == ['1', 'RAC'] for x in w):
        out.append(('the credentials message was enqueued but never written although no write failed (lines written: %r)' % (w[:3],), {'kind': 'rac_not_written'}))
    if racs:
        try:
            m, ps = ari.params(racs[0].split('|', 1)[1])
            want = []
            if r.sc.user is not None:
                want.append(('user', r.sc.user))
            if r.sc.password is not None:
                want.append(('password', r.sc.password))
            want += [('enableClosePacket', 'true'), ('SDK', 'Python Adapter SDK')]
            if m != 'RAC' or ps != want:
                out.append(('credentials message carries %r, expected %r' % (ps, want), {'kind': 'rac_content'}))
        except (ari.Bad, ValueError) as e:
            out.append(('credentials message %r is not well-formed: %r' % (racs[0], e), {'kind': 'rac_content'}))
    return out


def oracle_c10(r):
    out = []
    sc = r.sc
    inits = [c for c in r.calls if c.name == 'initialize']
    if len(inits) > 1:
        out.append(('initialize invoked %d times' % len(inits), {'kind': 'init_twice'}))
    fi = first_init(sc)
    dl0 = delivered(r)
    others = [c for c in r.calls if c.name not in ('initialize', 'set_listener')]
    # requests that follow a refused / malformed / failed init are outside the property (the Proxy Adapter gives up)
    init_ok = fi is not None and fi in dl0 and fi.klass[2] == b'T' and fi.klass[3] != b'T' and sc.init_outcome == 'ret'
    if inits:
        i0 = inits[0]
        for c in others:
            if i0.e is None or c.b < i0.e:
                out.append(('%s began at step %s before initialize returned' % (c.name, c.b), {'kind': 'call_before_init'}))
                break
        if fi is None or fi not in dl0:
            out.append(('initialize invoked although no init request was received', {'kind': 'init_unrequested'}))
    elif others and (fi is None or fi not in dl0 or init_ok):
        out.append(('%s invoked although initialize never was' % others[0].name, {'kind': 'call_before_init'}))
    if init_ok and not inits and r.status == 'quiescent' and not r.pending_chunks:
        out.append(('a well-formed init request with an acceptable version did not lead to initialize', {'kind': 'init_missing'}))
    if sc.kind == 'data' and init_ok:
        sl = [c for c in r.calls if c.name == 'set_listener']
        subs = [c for c in r.calls if c.name in ('subscribe', 'issnapshot_available')]
        if subs and (not sl or sl[0].e is None or sl[0].e > subs[0].b):
            out.append(('subscribe before the listener was handed over', {'kind': 'listener_order'}))
        if sl and (not inits or inits[0].e is None or inits[0].e > sl[0].b or not inits[0].ok):
            out.append(('set_listener without a successful initialize before it', {'kind': 'listener_order'}))
    # rejected lines: requests before the first init, and every init after the first: no reply, no adapter call attributed
    dl = delivered(r)
    rl = reply_lines(r)
    seen_init = False
    for l in dl:
        if l.kind == 'init':
            if seen_init and l.rid in rl and l is not fi:
                out.append(('second init request %s was answered: %r' % (l.wire_id, rl[l.rid][0][1][:60]), {'kind': 'late_init_answered'}))
            seen_init = True
        elif l.kind == 'req' and not seen_init:
            if l.rid in rl:
                out.append(('request %s received before the init request was answered: %r' % (l.wire_id, rl[l.rid][0][1][:60]), {'kind': 'early_request_answered'}))
    # the init reply precedes the reply to every later request
    if fi is not None and fi.rid in rl:
        ipos = rl[fi.rid][0][0]
        for rid, lst in rl.items():
            if rid != fi.rid and lst[0][0] < ipos:
                out.append(('the reply to request index %d was enqueued before the init reply' % rid, {'kind': 'reply_before_init_reply'}))
    return out


def quiescent_ok(r):
    return r.status == 'quiescent' and not r.pending_chunks and r.sc.end == 'block' and r.sc.fail_send is None and not r.sc.app_close and not r.exits


def served_requests(r):
    """well-formed requests of a known method received after a completed init and before any close, in order"""
    out = []
    st = 'pre'
    for l in delivered(r):
        if l.kind == 'init':
            if st == 'pre':
                st = 'post'
        elif l.kind == 'close':
            pass
        elif l.kind == 'req' and st == 'post' and l.klass[0] == b'req' and l.klass[2] == b'T' and l.klass[3] == b'T':
            out.append(l)
    return out


def _ce(srv):
    import fixture
    v = fixture.close_expected(srv)
    return None if v is fixture.UNAVAILABLE else v


def _stop_flag(srv):
    import fixture
    rm = fixture.find_request_manager(srv)
    if not rm:
        return False
    try:
        return fixture.find_stop_event(rm).is_set()
    except AttributeError:
        return None


def content_cases(r):
    """for every served Metadata request of a run at rest: the driver call that makes Model/MetaHandlers.v predict the
    job's result from the request tokens and the outcomes the adapter stub gives, and what the implementation did —
    the CONTENT of each reply under the interleaving of this run (id / content cross-talk between concurrent jobs)"""
    from props import c08
    out = []
    sc = r.sc
    if sc.kind != 'meta' or not quiescent_ok(r) or any(l.kind == 'close' for l in delivered(r)):
        return out
    fi = first_init(sc)
    if fi is None or fi.klass[2] != b'T' or fi.klass[3] == b'T' or sc.init_outcome != 'ret':
        return out
    rl = reply_lines(r)
    for l in served_requests(r):
        exp = expected_calls(l)
        outs = []
        raise_at = None
        if isinstance(l.outcome, tuple):
            raise_at = min(l.outcome[2] if len(l.outcome) > 2 else 0, max(len(exp) - 1, 0))
        for j, name in enumerate(exp):
            if raise_at == j:
                e = lib_exc(l.outcome[1], '%s failed' % name)
                cls = l.outcome[1]
                code = {'CreditsError': -3, 'ConflictingSessionError': -4}.get(cls, 0)
                um = 'user msg' if cls in ('CreditsError', 'ConflictingSessionError') else None
                sid = 'sid' if cls == 'ConflictingSessionError' else None
                outs.append([sym('raise'), c08.sx_exn(cls, str(e).encode('utf-8'), code, um, sid, False)])
                break
            v = WRONG[name] if (l.outcome == 'wrong' and WRONG_FOR.get(l.method) == name) else VALID.get(name)
            outs.append([sym('ret'), ari.pyval(v)])
        toks = l.text.decode('ascii').rstrip().split('|')[2:]
        lines = rl.get(l.rid, [])
        pre = l.wire_id + '|'
        if len(lines) == 1 and lines[0][1].startswith(pre):
            actual = [sym('reply'), lines[0][1][len(pre):].encode('utf-8')]
        elif not lines:
            actual = sym('none')
        else:
            actual = [sym('odd'), A(len(lines))]
        out.append({'call': [sym('meta_handle'), sym(l.method), [t.encode('ascii') for t in toks], outs], 'actual': actual,
                    'id': l.wire_id, 'line': l.text.decode('ascii', 'replace')})
    return out


def deadlock_violation(r):
    if r.status == 'deadlock':
        who = [e[1] for e in r.events if e[0] == 'blocked-in-real-primitive']
        return [('thread(s) %s of the library blocked for good in a synchronisation primitive although every other thread is at rest: requests can no longer be served'
                 % (sorted(set(who)),), {'kind': 'deadlock'})]
    return []


def oracle_c04(r):
    out = deadlock_violation(r)
    sc = r.sc
    if sc.kind != 'meta':
        return out
    fi = first_init(sc)
    if fi is None or fi.klass[2] != b'T':
        return out
    rl = reply_lines(r)
    served = served_requests(r)
    closes = [l for l in delivered(r) if l.kind == 'close']
    io_fault = any(e[0] in ('recv-eof', 'recv-error', 'send-error', 'send-closed', 'recv-closed') for e in r.events)
    if r.exits and not io_fault and not sc.app_close:
        out.append(('the process exit primitive was called although no I/O failure occurred (a wrong-typed return / protocol error must leave '
                    'later requests unaffected)', {'kind': 'exit_on_protocol_error'}))
    for l in served:
        lines = rl.get(l.rid, [])
        if len(lines) > 1:
            out.append(('request %s (%s) has %d reply lines' % (l.wire_id, l.method, len(lines)), {'kind': 'reply_count', 'method': l.method}))
        cs = [c for c in r.calls if c.rid == l.rid]
        if not quiescent_ok(r) or closes:
            continue
        exp = expected_calls(l)
        raised = isinstance(l.outcome, tuple) and bool(exp)
        names = [c.name for c in cs]
        kraise = min(l.outcome[2] if (raised and len(l.outcome) > 2) else 0, max(len(exp) - 1, 0))
        want_names = exp[:kraise + 1] if raised else exp
        if l.outcome == 'wrong' and l.method in WRONG_FOR and WRONG_FOR[l.method] in exp:
            if lines:
                out.append(('request %s: wrong-typed return value but a reply was sent: %r' % (l.wire_id, lines[0][1][:80]), {'kind': 'wrong_type_replied', 'method': l.method}))
            if sc.handler is not None:
                nh = len([h for h in r.hand if 'RemotingException' in h[2] or True])
                # exactly one handler call per wrong-typed request: counted globally below
        else:
            if len(lines) != 1:
                out.append(('request %s (%s, adapter %s) has %d reply lines' % (l.wire_id, l.method, l.outcome, len(lines)),
                            {'kind': 'noniterable_list_return' if False else 'reply_count', 'method': l.method}))
            else:
                payload = lines[0][1].split('|', 2)[2] if lines[0][1].count('|') >= 2 else ''
                is_err = payload.startswith('E')
                if raised and not is_err:
                    out.append(('request %s: adapter raised %s but the reply is %r' % (l.wire_id, l.outcome[1], lines[0][1][:80]), {'kind': 'reply_status', 'method': l.method}))
                if not raised and is_err:
                    out.append(('request %s: adapter returned normally but the reply is %r' % (l.wire_id, lines[0][1][:80]), {'kind': 'reply_status', 'method': l.method}))
        # the property fixes WHICH methods are invoked (each once), not the order among the methods of one request
        if raised:
            rest = list(exp)
            sub = all((n in rest and (rest.remove(n) or True)) for n in names)
            bad_calls = not sub or len(names) != len(want_names)
        else:
            bad_calls = sorted(names) != sorted(want_names)
        if bad_calls:
            out.append(('request %s (%s): adapter calls %r, expected %r' % (l.wire_id, l.method, names, want_names), {'kind': 'dispatch', 'method': l.method}))
    if quiescent_ok(r) and not closes and sc.handler is not None:
        wrong = [l for l in served if l.outcome == 'wrong' and l.method in WRONG_FOR and WRONG_FOR[l.method] in expected_calls(l)]
        malformed = [l for l in delivered(r) if rejected_line(r, l)]
        if len(r.hand) != len(wrong) + len(malformed):
            out.append(('exception handler notified %d times, expected %d (wrong-typed returns %d, rejected lines %d)' % (
                len(r.hand), len(wrong) + len(malformed), len(wrong), len(malformed)), {'kind': 'handler_count'}))
    return out


def rejected_line(r, l):
    """does the line have to be rejected as a protocol error (given its position)?"""
    dl = delivered(r)
    pos = dl.index(l)
    init_done = any(x.kind == 'init' for x in dl[:pos])
    if l.kind == 'garbage':
        return False
    if l.kind == 'init':
        return init_done or l.klass[2] != b'T'
    if l.kind == 'close':
        ce = close_expected_at(r, pos)
        if ce:
            return l.klass[1] != b'T' or l.klass[2] != b'T'
        return not init_done
    if not init_done:
        return True
    if l.klass[3] != b'T':
        return False            # unknown method: discarded silently
    return l.klass[2] != b'T'


def close_expected_at(r, pos):
    dl = delivered(r)
    for x in dl[:pos]:
        if x.kind == 'init':
            ok = x.klass[2] == b'T' and x.klass[3] != b'T' and r.sc.init_outcome == 'ret'
            return not (ok and x.klass[4] == b'T')
    return True


def oracle_c18(r):
    out = deadlock_violation(r)
    sc = r.sc
    want = sc.cpu if (sc.pool is None or sc.pool <= 0) else sc.pool
    if r.pool_size != want:
        out.append(('thread_pool_size property is %r, expected %r' % (r.pool_size, want), {'kind': 'pool_size'}))
    nw = len([t for t in r.threads if t.startswith('worker')])
    if nw > want:
        out.append(('%d worker threads for a pool of %d' % (nw, want), {'kind': 'pool_size'}))
    for c in r.calls:
        if c.name in ('initialize', 'set_listener'):
            continue
        if not c.thread.startswith('worker'):
            out.append(('adapter method %s ran on thread %s, not on the worker pool' % (c.name, c.thread), {'kind': 'not_on_pool'}))
            break
    if want == 1:
        cs = sorted([c for c in r.calls if c.name not in ('initialize', 'set_listener') and c.e is not None], key=lambda c: c.b)
        for a, b in zip(cs, cs[1:]):
            if b.b < a.e:
                out.append(('pool of one: %s and %s overlap' % (a.name, b.name), {'kind': 'overlap_pool1'}))
                break
        if sc.kind == 'meta':
            order = []
            for c in cs:
                if c.rid is not None and (not order or order[-1] != c.rid):
                    order.append(c.rid)
            if order != sorted(order):
                out.append(('pool of one: requests handled in order %r' % order, {'kind': 'order_pool1'}))
    if sc.gate and quiescent_ok(r):
        rl = reply_lines(r)
        for rid in sc.gate:
            if rid not in rl:
                out.append(('with an adapter call blocked, request %s was never answered (the library stopped reading / writing)' % rid, {'kind': 'blocked'}))
    return out


def oracle_c20(r):
    out = deadlock_violation(r)
    sc = r.sc
    dl = delivered(r)
    # a close request honoured?
    honoured = False
    for pos, l in enumerate(dl):
        if l.kind == 'close' and close_expected_at(r, pos) and l.klass[1] == b'T' and l.klass[2] == b'T':
            honoured = True
    nio = len(r.handio) if sc.handler is not None else None
    read_fault = sc.end in ('eof', 'error') and not r.pending_chunks and any(e[0] in ('recv-eof', 'recv-error') for e in r.events)
    write_fault = any(e[0] == 'send-error' for e in r.events)
    closed_writes = any(e[0] == 'send-closed' for e in r.events)
    stop_before_fault = False
    if read_fault:
        fstep = [e[1] for e in r.events if e[0] in ('recv-eof', 'recv-error')][0]
        stop_before_fault = any(e[0] == 'put' and e[3] == 'STOP_WAITING_PILL' and e[1] < fstep for e in r.events)
    if honoured and not sc.app_close and r.status == 'quiescent' and sc.fail_send is None and not read_fault:
        if not r.final['sock_closed']:
            out.append(('close request honoured but the socket was not closed', {'kind': 'close_incomplete'}))
        if r.threads.get('writer') != 'dead' or r.threads.get('reader') != 'dead':
            out.append(('after the close request the reader / writer thread is still running (%r)' % ({k: v for k, v in r.threads.items() if k in ('reader', 'writer')},), {'kind': 'close_incomplete'}))
        if r.final['jobs'] or any(c.e is None for c in r.calls):
            out.append(('close returned while accepted worker tasks were not complete', {'kind': 'close_incomplete'}))
        nsub = sum(1 for e in r.events if e[0] == 'submit')
        nend = sum(1 for e in r.events if e[0] == 'job-end')
        if nend < nsub:
            out.append(('%d worker tasks were accepted before the close request but only %d were run to their end' % (nsub, nend), {'kind': 'close_incomplete'}))
        if r.handio or r.exits or closed_writes:
            out.append(('orderly close reported an I/O failure (handler calls %r, exits %r)' % (r.handio, r.exits), {'kind': 'close_reported'}))
        q = [x for x in r.queue_log if isinstance(x, str)]
        if 'STOP_WAITING_PILL' in q:
            before = [x for x in q[:q.index('STOP_WAITING_PILL')]]
            if wire_lines(r) != before:
                out.append(('messages enqueued before the close were not all written', {'kind': 'close_incomplete'}))
    if not honoured and not sc.app_close and r.status == 'quiescent' and sc.end == 'block' and sc.fail_send is None:
        if r.final['sock_closed'] or r.final['stop']:
            out.append(('the server stopped although no close request had to be honoured', {'kind': 'close_unexpected'}))
    if not honoured and not sc.app_close and r.status in ('quiescent', 'exited') and r.final['stop']:
        # whatever happened to the connection: only close() raises the stop flag, and nothing called for it
        out.append(('the close sequence was started although no complete close request to be honoured was received%s'
                    % (' (the connection failed in the middle of the last line)' if sc.tail_cut else ''), {'kind': 'close_unexpected'}))
    # I/O failures
    expect_io = 0
    if read_fault and not stop_before_fault and not (honoured or sc.app_close):
        expect_io += 1
    if write_fault:
        expect_io += 1
    if sc.handler is not None and not honoured and not sc.app_close and r.status in ('quiescent', 'exited'):
        if len(r.handio) != expect_io and not (r.exits and len(r.handio) <= expect_io):
            out.append(('I/O exception handler notified %d times, expected %d (read fault %s, write fault %s)' % (len(r.handio), expect_io, read_fault, write_fault), {'kind': 'io_handler_count'}))
    if expect_io and not honoured and not sc.app_close:
        default = sc.handler is None or bool(sc.handler[1])
        if default and not r.exits:
            out.append(('I/O failure with %s: the default reaction (process exit) did not happen' % ('no handler' if sc.handler is None else 'handler returning True'), {'kind': 'exit_missing'}))
        if not default and r.exits:
            out.append(('I/O failure with a handler returning False: the process exited', {'kind': 'exit_unwanted'}))
    if not expect_io and r.exits and not (honoured or sc.app_close):
        out.append(('process exit without an I/O failure', {'kind': 'exit_unwanted'}))
    if (honoured or sc.app_close) and not write_fault and sc.fail_send is None and (r.handio or r.exits) and not read_fault:
        out.append(('own close() reported as an I/O failure: %r' % (r.handio or r.exits,), {'kind': 'close_reported'}))
    if r.crashes:
        out.append(('a thread died: %r' % (r.crashes[0],), {'kind': 'crash'}))
    return out


def oracle_c09(r):
    """malformed / misplaced requests: no adapter call, no reply, one handler notification (Data default: one FAL); service continues"""
    out = []
    sc = r.sc
    if not quiescent_ok(r) or any(l.kind == 'close' for l in delivered(r)):
        return out
    dl = delivered(r)
    rl = reply_lines(r)
    rej = [l for l in dl if rejected_line(r, l)]
    for l in rej:
        if l.rid is not None and l.kind != 'init' and l.rid in rl:
            out.append(('rejected request %s was answered: %r' % (l.wire_id, rl[l.rid][0][1][:80]), {'kind': 'malformed_answered'}))
        if any(c.rid == l.rid for c in r.calls if c.rid is not None) and l.rid is not None:
            out.append(('rejected request %s reached the adapter' % l.wire_id, {'kind': 'malformed_delivered'}))
    wrong = [l for l in served_requests(r) if l.outcome == 'wrong' and l.method in WRONG_FOR and WRONG_FOR[l.method] in expected_calls(l)] if sc.kind == 'meta' else []
    if sc.handler is not None:
        if len(r.hand) != len(rej) + len(wrong):
            out.append(('exception handler notified %d times for %d rejected requests (+%d wrong-typed returns)' % (len(r.hand), len(rej), len(wrong)), {'kind': 'handler_count'}))
    elif sc.kind == 'data':
        fal = [x for x in r.queue_log if isinstance(x, str) and x.split('|')[1:2] == ['FAL']]
        if len(fal) != len(rej):
            out.append(('%d failure notifications for %d rejected requests (default handling)' % (len(fal), len(rej)), {'kind': 'fal_count'}))
    # service continues: every well-formed request of a known method received after the init request is answered
    seen_init = False
    for l in dl:
        if l.kind == 'init':
            seen_init = True
        elif l.kind == 'req' and seen_init and l.klass[2] == b'T' and l.klass[3] == b'T' and l not in wrong:
            if sc.kind == 'meta' or l.method in ('SUB', 'USB'):
                n = len(rl.get(l.rid, []))
                if n != 1 and not (sc.kind == 'data' and l.method == 'USB' and n == 0 and not data_usb_has_entry(r, l)):
                    out.append(('well-formed request %s received after a rejected one has %d replies' % (l.wire_id, n), {'kind': 'service_interrupted'}))
    return out


def data_usb_has_entry(r, l):
    """a USB for an item without bookkeeping (its SUB was rejected or never sent) is dropped by design"""
    dl = delivered(r)
    pos = dl.index(l)
    state = False
    seen_init = False
    for x in dl[:pos]:
        if x.kind == 'init':
            seen_init = True
        elif x.kind == 'req' and seen_init and x.klass[2] == b'T' and x.klass[3] == b'T' and x.q and x.q[1] == l.q[1]:
            state = (x.method == 'SUB') or (x.method == 'USB' and False)
            if x.method == 'SUB':
                state = True
            elif x.method == 'USB':
                state = False
    return state


ORACLES = {'C09': oracle_c09, 'C04': oracle_c04, 'C10': oracle_c10, 'C14': oracle_c14, 'C18': oracle_c18, 'C20': oracle_c20}
