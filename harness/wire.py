"""wire.py — shared pieces for the wire-layer properties (C05-C09, C11, C14):
  * an independent Python restatement of the ARI reference encoder (requests)
    — it must agree byte for byte with the extracted AriSpec.encode_line;
  * structured generators (text domain of C05, requests per method);
  * canonicalisation of the library's decoded results into the S-expression
    form the model prints (Model/EntryWire.v)."""
import sx
from sx import sym, A

SAFE = set(b'ABCDEFGHIJKLMNOPQRSTUVWXYZabcdefghijklmnopqrstuvwxyz0123456789_.-~')

REQUEST_METHODS = ['DPI', 'SUB', 'USB', 'MPI', 'NUS', 'NUA', 'NNS', 'NSC', 'GIS', 'GSC', 'GIT', 'GUI',
                   'NUM', 'NNT', 'NTC', 'MDA', 'MSA', 'MDC']
SHAPE = {'DPI': 'WInit', 'MPI': 'WInit', 'SUB': 'WItem', 'USB': 'WItem', 'NUS': 'WNUS', 'NUA': 'WNUA',
         'NNS': 'WNNS', 'NSC': 'WNSC', 'GIS': 'WGIS', 'GSC': 'WGSC', 'GIT': 'WGIT', 'GUI': 'WGUI',
         'NUM': 'WNUM', 'NNT': 'WNNT', 'NTC': 'WNTC', 'MDA': 'WMDA', 'MSA': 'WMSA', 'MDC': 'WMDC'}
MODES = {'RAW': 'R', 'MERGE': 'M', 'DISTINCT': 'D', 'COMMAND': 'C'}
PLATS = {'APPLE': 'A', 'GOOGLE': 'G'}


# ---------------------------------------------------------------- reference encoder
def ref_quote(b):
    out = bytearray()
    for c in b:
        if c in SAFE:
            out.append(c)
        elif c == 0x20:
            out += b'+'
        else:
            out += b'%%%02X' % c
    return bytes(out)


def enc_text(v):
    """v: None or str"""
    if v is None:
        return b'#'
    if v == '':
        return b'$'
    return ref_quote(v.encode('utf-8'))


def enc_S(v):
    return [b'S', enc_text(v)]


def enc_I(z):
    return [b'I', str(z).encode()]


def enc_M(m):
    return [b'M', b'#' if m is None else MODES[m].encode()]


def enc_P(p):
    if p is None:
        return [b'P', b'#']
    if p == '':
        return [b'P', b'$']
    return [b'P', PLATS[p].encode()]


def enc_map(pairs):
    out = []
    for k, v in pairs:
        out += enc_S(k) + enc_S(v)
    return out


def enc_seq(l):
    out = []
    for v in l:
        out += enc_S(v)
    return out


def enc_table(t, with_selector=True):
    win, mode, group, schema, mi, ma, sel = t
    out = enc_I(win) + enc_M(mode) + enc_S(group) + enc_S(schema) + enc_I(mi) + enc_I(ma)
    if with_selector:
        out += enc_S(sel)
    return out


def enc_device(d):
    plat, app, tok = d
    return enc_P(plat) + enc_S(app) + enc_S(tok)


def enc_subinfo(s):
    dev, trig, fmt = s
    return enc_device(dev) + enc_S(trig) + enc_S(fmt)


def encode_args(q):
    k = q[0]
    if k == 'WInit':
        return enc_map(q[1])
    if k in ('WItem', 'WNSC'):
        return enc_S(q[1])
    if k in ('WNUS', 'WNNS'):
        return enc_S(q[1]) + enc_S(q[2]) + enc_map(q[3])
    if k == 'WNUA':
        return enc_S(q[1]) + enc_S(q[2]) + enc_S(q[3]) + enc_map(q[4])
    if k in ('WGIS', 'WNUM'):
        return enc_S(q[1]) + enc_S(q[2]) + enc_S(q[3])
    if k == 'WGSC':
        return enc_S(q[1]) + enc_S(q[2]) + enc_S(q[3]) + enc_S(q[4])
    if k == 'WGIT':
        return enc_seq(q[1])
    if k == 'WGUI':
        return enc_S(q[1]) + enc_seq(q[2])
    if k == 'WNNT':
        out = enc_S(q[1]) + enc_S(q[2])
        for t in q[3]:
            out += enc_table(t)
        return out
    if k == 'WNTC':
        out = enc_S(q[1])
        for t in q[2]:
            out += enc_table(t)
        return out
    if k == 'WMDA':
        return enc_S(q[1]) + enc_S(q[2]) + enc_device(q[3])
    if k == 'WMSA':
        return enc_S(q[1]) + enc_S(q[2]) + enc_table(q[3], False) + enc_subinfo(q[4])
    if k == 'WMDC':
        return enc_S(q[1]) + enc_S(q[2]) + enc_device(q[3]) + enc_S(q[4])
    raise ValueError(k)


def encode_line(rid, meth, q, term=b'\r\n'):
    return b'|'.join([rid, meth.encode()] + encode_args(q)) + term


# ---------------------------------------------------------------- sexp of wire requests (model input)
def sx_text(v):
    return sx.opt(v, lambda s: s.encode('utf-8') if isinstance(s, str) else bytes(s))


def sx_pairs(pairs):
    return [[sx_text(k), sx_text(v)] for k, v in pairs]


def sx_mode(m):
    return sx.opt(m, lambda s: sym(s))


def sx_plat(p):
    if p is None:
        return sym('none')
    if p == '':
        return sym('empty')
    return [sym('member'), sym(p)]


def sx_table(t):
    win, mode, group, schema, mi, ma, sel = t
    return [sym('table'), A(win), sx_mode(mode), sx_text(group), sx_text(schema), A(mi), A(ma), sx_text(sel)]


def sx_device(d):
    return [sym('device'), sx_plat(d[0]), sx_text(d[1]), sx_text(d[2])]


def sx_subinfo(s):
    return [sym('mpnsub'), sx_device(s[0]), sx_text(s[1]), sx_text(s[2])]


def sx_wire(q):
    k = q[0]
    if k == 'WInit':
        return [sym(k), sx_pairs(q[1])]
    if k in ('WItem', 'WNSC'):
        return [sym(k), sx_text(q[1])]
    if k in ('WNUS', 'WNNS'):
        return [sym(k), sx_text(q[1]), sx_text(q[2]), sx_pairs(q[3])]
    if k == 'WNUA':
        return [sym(k), sx_text(q[1]), sx_text(q[2]), sx_text(q[3]), sx_pairs(q[4])]
    if k in ('WGIS', 'WNUM'):
        return [sym(k), sx_text(q[1]), sx_text(q[2]), sx_text(q[3])]
    if k == 'WGSC':
        return [sym(k), sx_text(q[1]), sx_text(q[2]), sx_text(q[3]), sx_text(q[4])]
    if k == 'WGIT':
        return [sym(k), [sx_text(v) for v in q[1]]]
    if k == 'WGUI':
        return [sym(k), sx_text(q[1]), [sx_text(v) for v in q[2]]]
    if k == 'WNNT':
        return [sym(k), sx_text(q[1]), sx_text(q[2]), [sx_table(t) for t in q[3]]]
    if k == 'WNTC':
        return [sym(k), sx_text(q[1]), [sx_table(t) for t in q[2]]]
    if k == 'WMDA':
        return [sym(k), sx_text(q[1]), sx_text(q[2]), sx_device(q[3])]
    if k == 'WMSA':
        return [sym(k), sx_text(q[1]), sx_text(q[2]), sx_table(q[3]), sx_subinfo(q[4])]
    if k == 'WMDC':
        return [sym(k), sx_text(q[1]), sx_text(q[2]), sx_device(q[3]), sx_text(q[4])]
    raise ValueError(k)


# ---------------------------------------------------------------- expected decoded request (oracle side)
def pydict(pairs):
    d = {}
    for k, v in pairs:
        d[k] = v
    return d


def expected_request(q):
    """what a correct decoding yields, as the canonical sexp (independent of the model)"""
    k = q[0]

    def sxd(pairs):
        return [[sx_text(a), sx_text(b)] for a, b in pydict(pairs).items()]
    if k == 'WInit':
        return [sym('QInit'), sxd(q[1])]
    if k == 'WItem':
        return [sym('QItem'), sx_text(q[1])]
    if k == 'WNSC':
        return [sym('QNSC'), sx_text(q[1])]
    if k in ('WNUS', 'WNNS'):
        return [sym('Q' + k[1:]), sx_text(q[1]), sx_text(q[2]), sxd(q[3])]
    if k == 'WNUA':
        return [sym('QNUA'), sx_text(q[1]), sx_text(q[2]), sx_text(q[3]), sxd(q[4])]
    if k in ('WGIS', 'WNUM'):
        return [sym('Q' + k[1:]), sx_text(q[1]), sx_text(q[2]), sx_text(q[3])]
    if k == 'WGSC':
        return [sym('QGSC'), sx_text(q[1]), sx_text(q[2]), sx_text(q[3]), sx_text(q[4])]
    if k == 'WGIT':
        return [sym('QGIT'), [sx_text(v) for v in q[1]]]
    if k == 'WGUI':
        return [sym('QGUI'), sx_text(q[1]), [sx_text(v) for v in q[2]]]
    if k == 'WNNT':
        return [sym('QNNT'), sx_text(q[1]), sx_text(q[2]), [sx_table(t) for t in q[3]]]
    if k == 'WNTC':
        return [sym('QNTC'), sx_text(q[1]), [sx_table(t) for t in q[2]]]
    if k == 'WMDA':
        return [sym('QMDA'), sx_text(q[1]), sx_text(q[2]), sx_device(q[3])]
    if k == 'WMSA':
        t = q[3]
        return [sym('QMSA'), sx_text(q[1]), sx_text(q[2]), sx_table(t[:6] + (None,)), sx_subinfo(q[4])]
    if k == 'WMDC':
        return [sym('QMDC'), sx_text(q[1]), sx_text(q[2]), sx_device(q[3]), sx_text(q[4])]
    raise ValueError(k)


# ---------------------------------------------------------------- canonicalise library results
def _wrong(v):
    """a value of a type the slot cannot hold: shown as such (never raised: the canonicalisers are total, and never
    merged with a well-typed value of the same text)"""
    return [sym('wrong-type'), type(v).__name__.encode(), repr(v)[:80].encode('utf-8', 'replace')]


def c_text(v):
    if v is None:
        return sym('none')
    if type(v) is str:
        return [sym('some'), v.encode('utf-8', 'surrogatepass')]
    return _wrong(v)


def c_int(v):
    if type(v) is int:
        return A(v)
    return _wrong(v)


def c_dict(d):
    return [[c_text(k), c_text(v)] for k, v in d.items()]


def c_mode(m):
    if m is None:
        return sym('none')
    if not hasattr(m, 'name'):
        return _wrong(m)
    return [sym('some'), sym(m.name)]


def c_plat(p):
    if p is None:
        return sym('none')
    if type(p) is str and p == '':
        return sym('empty')
    if not hasattr(p, 'name'):
        return _wrong(p)
    return [sym('member'), sym(p.name)]


def c_table(t):
    return [sym('table'), c_int(t.win_index), c_mode(t.mode), c_text(t.group), c_text(t.schema),
            c_int(t.min), c_int(t.max), c_text(t.selector)]


def c_device(d):
    return [sym('device'), c_plat(d.mpn_platform_type), c_text(d.application_id), c_text(d.device_token)]


def c_subinfo(s):
    return [sym('mpnsub'), c_device(s.device), c_text(s.trigger), c_text(s.notification_format)]


def reader_of(meth):
    import lightstreamer_adapter.data_protocol as dp
    import lightstreamer_adapter.metadata_protocol as mp
    return {
        'DPI': dp.read_init, 'SUB': dp.read_sub, 'USB': dp.read_usub,
        'MPI': mp.read_init, 'NUS': mp.read_notify_user, 'NUA': mp.read_notify_user_auth,
        'NNS': mp.read_notify_new_session, 'NSC': mp.read_notifiy_session_close,
        'GIS': mp.read_get_items, 'GSC': mp.read_get_schema, 'GIT': mp.read_get_item_data,
        'GUI': mp.read_get_user_item_data, 'NUM': mp.read_notify_user_message,
        'NNT': mp.read_notify_new_tables, 'NTC': mp.read_notify_tables_close,
        'MDA': mp.read_notify_device_access, 'MSA': mp.read_subscription_activation,
        'MDC': mp.read_device_token_change}[meth]


def canon_request(meth, r):
    """library reader result -> canonical sexp (roles taken from the result's keys)"""
    if meth in ('DPI', 'MPI'):
        return [sym('QInit'), c_dict(r)]
    if meth in ('SUB', 'USB'):
        return [sym('QItem'), c_text(r)]
    if meth == 'NUS':
        return [sym('QNUS'), c_text(r['user']), c_text(r['password']), c_dict(r['httpHeaders'])]
    if meth == 'NUA':
        return [sym('QNUA'), c_text(r['user']), c_text(r['password']), c_text(r['clientPrincipal']),
                c_dict(r['httpHeaders'])]
    if meth == 'NNS':
        return [sym('QNNS'), c_text(r['user']), c_text(r['session_id']), c_dict(r['clientContext'])]
    if meth == 'NSC':
        return [sym('QNSC'), c_text(r)]
    if meth == 'GIS':
        return [sym('QGIS'), c_text(r['user']), c_text(r['group']), c_text(r['session_id'])]
    if meth == 'GSC':
        return [sym('QGSC'), c_text(r['user']), c_text(r['group']), c_text(r['schema']), c_text(r['session_id'])]
    if meth == 'GIT':
        return [sym('QGIT'), [c_text(v) for v in r]]
    if meth == 'GUI':
        return [sym('QGUI'), c_text(r['user']), [c_text(v) for v in r['items']]]
    if meth == 'NUM':
        return [sym('QNUM'), c_text(r['user']), c_text(r['session_id']), c_text(r['message'])]
    if meth == 'NNT':
        return [sym('QNNT'), c_text(r['user']), c_text(r['session_id']), [c_table(t) for t in r['tableInfos']]]
    if meth == 'NTC':
        return [sym('QNTC'), c_text(r['session_id']), [c_table(t) for t in r['tableInfos']]]
    if meth == 'MDA':
        return [sym('QMDA'), c_text(r['user']), c_text(r['sessionId']), c_device(r['mpnDeviceInfo'])]
    if meth == 'MSA':
        return [sym('QMSA'), c_text(r['user']), c_text(r['session_id']), c_table(r['table']),
                c_subinfo(r['subscription'])]
    if meth == 'MDC':
        return [sym('QMDC'), c_text(r['user']), c_text(r['sessionId']), c_device(r['mpnDeviceInfo']),
                c_text(r['newDeviceToken'])]
    raise ValueError(meth)


def impl_read(meth, tokens):
    """call the real decorated reader on a token list (list of str);
    -> ('ok', sexp) | ('err', message bytes) | ('other', exception class name)"""
    from lightstreamer_adapter.protocol import RemotingException
    try:
        r = reader_of(meth)(list(tokens))
    except RemotingException as e:
        return ('err', str(e).encode('utf-8', 'surrogatepass'))
    except Exception as e:  # anything else escaping is a C09 violation
        return ('other', type(e).__name__)
    return ('ok', canon_request(meth, r))


def valid_utf8_everywhere(x):
    """True iff every byte atom of the sexp is valid UTF-8 (else errors='replace' kicked in)"""
    if isinstance(x, (bytes, bytearray)):
        try:
            bytes(x).decode('utf-8')
            return True
        except UnicodeDecodeError:
            return False
    return all(valid_utf8_everywhere(y) for y in x)


# ---------------------------------------------------------------- generators
SPECIALS = ['#', '$', '%23', '%24', '%', '+', '++', ' ', '  ', '|', '{', '}', '{0}', '{x}', '{}', '%s', '%(a)s', '\\',
            'P', 'S', 'I', 'M', 'B', 'D', 'E', 'V', 'Y', 'EC', 'KEEPALIVE', 'KEEPALIVE_STATS', 'CLOSE', 'MPI', 'DPI', 'SUB', 'RAC', 'UD3', 'EOS', 'FAL',
            'STOP_WAITING_PILL', 'KEEPALIVE_PILL', 'ARI.version', 'keepalive_hint.millis', 'reason', 'true', 'False', '0', '1', '-1', '1e+16', 'nan', 'inf',
            'AAPL.O\n', '12.5\n', 'x\r', '\nabc', 'abc\r\n', 'a\tb', '\x0b', 'a\x1cb', 'line1\nline2', 'a|b', 'k=v|w=5', '~', '*', "'quoted'", '"dq"',
            'gr\u00f6\u00dfe', '\u4ef7\u683c', '\u0446\u0435\u043d\u0430', 'm\u00b2', '\u0663', '\u00e9', 'A', 'z9', '0', 'None', 'null']
RESERVED = ['|', '#', '$', '%', '+', '*', '~', ' ', '\r', '\n', '\x00', 'é', '€', '😀',
            'a', 'Z', '0', '_', '.', '-', '/', '=', '&', '?', '"']


class Gen:
    def __init__(self, rng):
        self.rng = rng
        self.n = 0

    def text(self, allow_none=True, tagged=True):
        """a value from the C05 text domain; tagged values are distinct per slot; a small share of the values are
        untagged specials: values that ARE a reserved token, look like an escape, contain format-string or brace
        characters, or consist of non-ASCII letters / digits only (alphanumeric in the Unicode sense)"""
        r = self.rng
        self.n += 1
        x = r.random()
        if allow_none and x < 0.08:
            return None
        if x > 0.90:
            return r.choice(SPECIALS)
        if x < 0.14:
            return ''
        k = r.choice([1, 1, 2, 3, 5, 8, 13])
        parts = []
        for _ in range(k):
            y = r.random()
            if y < 0.35:
                parts.append(r.choice(RESERVED))
            elif y < 0.7:
                parts.append(''.join(r.choice('abcdefghijklmnopqrstuvwxyzABCXYZ0123456789') for _ in range(r.randint(1, 6))))
            elif y < 0.8:
                parts.append(chr(r.randint(0, 31)))
            elif y < 0.9:
                c = r.randint(0x80, 0xFFFF)
                if 0xD800 <= c <= 0xDFFF:
                    c = 0x20AC
                parts.append(chr(c))
            else:
                parts.append(chr(r.randint(0x10000, 0x10FFFF)))
        s = ''.join(parts)
        if tagged:
            s = ('%d:' % self.n) + s
        return s

    def integer(self):
        r = self.rng
        return r.choice([0, 1, -1, 2, 7, 2 ** 31, -2 ** 31, 2 ** 63, -2 ** 63, r.randint(-10 ** 6, 10 ** 6),
                         r.randint(-10 ** 30, 10 ** 30)])

    def mode(self):
        return self.rng.choice([None, 'RAW', 'MERGE', 'DISTINCT', 'COMMAND'])

    def plat(self):
        return self.rng.choice([None, '', 'APPLE', 'GOOGLE'])

    def pairs(self, kmax=6):
        r = self.rng
        n = r.choice([0, 0, 1, 1, 2, 3, kmax])
        out = [(self.text(), self.text()) for _ in range(n)]
        if n >= 2 and r.random() < 0.4:     # duplicate key: last binding wins
            out[-1] = (out[0][0], out[-1][1])
        return out

    def seq(self, kmax=8):
        n = self.rng.choice([0, 1, 1, 2, 3, kmax])
        out = [self.text() for _ in range(n)]
        if n >= 2 and self.rng.random() < 0.35:      # the same name more than once (lists are positional, not sets)
            out[self.rng.randrange(1, n)] = out[0]
            if n >= 3 and self.rng.random() < 0.5:
                out[-1] = out[0]
        return out

    def table(self):
        return (self.integer(), self.mode(), self.text(), self.text(), self.integer(), self.integer(), self.text())

    def tables(self, kmax=4):
        n = self.rng.choice([0, 1, 1, 2, kmax])
        return [self.table() for _ in range(n)]

    def device(self):
        return (self.plat(), self.text(), self.text())

    def subinfo(self):
        return (self.device(), self.text(), self.text())

    def request(self, meth):
        k = SHAPE[meth]
        if k == 'WInit':
            return (k, self.pairs())
        if k in ('WItem', 'WNSC'):
            return (k, self.text())
        if k in ('WNUS', 'WNNS'):
            return (k, self.text(), self.text(), self.pairs())
        if k == 'WNUA':
            return (k, self.text(), self.text(), self.text(), self.pairs())
        if k in ('WGIS', 'WNUM'):
            return (k, self.text(), self.text(), self.text())
        if k == 'WGSC':
            return (k, self.text(), self.text(), self.text(), self.text())
        if k == 'WGIT':
            return (k, self.seq())
        if k == 'WGUI':
            return (k, self.text(), self.seq())
        if k == 'WNNT':
            return (k, self.text(), self.text(), self.tables())
        if k == 'WNTC':
            return (k, self.text(), self.tables())
        if k == 'WMDA':
            return (k, self.text(), self.text(), self.device())
        if k == 'WMSA':
            return (k, self.text(), self.text(), self.table(), self.subinfo())
        if k == 'WMDC':
            return (k, self.text(), self.text(), self.device(), self.text())
        raise ValueError(k)

    def rid(self):
        r = self.rng
        return ''.join(r.choice('0123456789abcdef') for _ in range(r.choice([1, 8, 17]))).encode()
