"""C13 — keepalive liveness, in virtual time.
The real _Sender (and, for the interval change at init, the real servers) run
on a managed thread with the virtual queue and clock of shims.py; an
environment thread executes a timed script (submissions, interval changes,
pills), firing the queue timeout exactly when its deadline is reached.  The
sequence of environment actions (delay / fire / put / setk) is replayed through
Model/Sender.v, whose guards encode queue.get(timeout) semantics: a delay that
outlasts the model's wait, or a timeout that fires at a different moment than
the model's, is refused.  Oracle: the property text on (virtual time, line)."""
from fractions import Fraction

import dsched
import fixture
import shims
import sx
from sx import sym, A

TRUSTED = ['C13: virtual time — queue.get(timeout=T) raises Empty after exactly T of silence, a put at exactly the deadline is taken first, writes take no time; '
           'OS timer slack and a sendall that blocks are not exhibited (DESIGN.md section 8); a short real-time smoke run in the thorough tier is a test, not part of the proof']
ASSUMPTIONS = ['interval values are positive, zero or negative finite numbers; submissions are complete lines']


def Q(fr):
    fr = Fraction(fr)
    return [sym('q'), A(fr.numerator), A(fr.denominator)]


class Script:
    """k0: configured keepalive (seconds, float); events: list of (time, kind, arg) sorted by time
    kind: 'put' (arg line), 'setk' (arg seconds), 'pill', 'none', 'stop'; horizon: final time"""

    def __init__(self, k0, events, horizon):
        self.k0 = k0
        self.events = events
        self.horizon = horizon


def run_sender(sc):
    """-> (writes [(time Fraction, line)], labels [sexp], status)"""
    import lightstreamer_adapter.server as server
    import logging
    S = dsched.Sched()
    labels = []
    writes = []
    with shims.install(S) as env:
        clock = env.clock
        clock.now = Fraction(0)

        class Srv:
            name = 'S'

            def on_ioexception(self, e):
                S.events.append(('ioexc', S.step_no, 'writer', repr(e)))

            def on_exception(self, e):
                S.events.append(('exc', S.step_no, 'writer', repr(e)))

        class Sock:
            def sendall(self, data):
                writes.append((Fraction(clock.now), bytes(data)))

        snd = server._Sender('S', Sock(), Srv(), sc.k0, logging.getLogger('x'))
        snd.start()
        q = env.queues[0]
        writer = [t for t in S.threads if t.role == 'writer'][0]

        def parked():
            return writer.state == 'dead' or (writer.state == 'parked' and writer.pending[0] == 'get' and not q.items)

        fires = [0]

        env_first = [False]

        def advance(t, racy=False):
            # racy (kind 'put!'): a timeout that expires at exactly t fires first, and the submission that follows is made as
            # soon as the writer has left that wait — at its next preemption point, wherever that is — not when it is at rest
            while True:
                w = q.waiter
                dl = None if w is None or w['timeout'] is None else Fraction(w['start']) + Fraction(w['timeout'])
                if writer.state != 'dead' and dl is not None and not w['fired'] \
                        and (dl < t or (racy and dl == t)) and fires[0] < 6000:
                    # (a script is generated to produce at most ~2500 timeouts; far more means the interval in use is not the one
                    #  expected: firing stops and the model comparison reports the delay the model cannot accept)
                    fires[0] += 1
                    labels.append([sym('delay'), Q(dl - Fraction(clock.now))])
                    labels.append(sym('fire'))
                    clock.now = dl
                    w['fired'] = True
                    if racy and dl == t:
                        env_first[0] = True
                        S.yield_('env', None, cond=lambda: writer.state == 'dead' or (writer.state == 'parked' and q.waiter is not w))
                        break
                    S.yield_('env', None, cond=parked)
                else:
                    break
            labels.append([sym('delay'), Q(t - Fraction(clock.now))])
            clock.now = Fraction(t)

        def body():
            S.yield_('env', None, cond=parked)
            for t, kind, arg in sc.events:
                advance(Fraction(t), racy=(kind == 'put!'))
                if kind in ('put', 'put!'):
                    labels.append([sym('put'), A(1), [sym('some'), arg.encode('utf-8')]])
                    snd.send(arg, False)
                    env_first[0] = False
                elif kind == 'setk':
                    labels.append([sym('setk'), Q(Fraction(arg))])
                    snd.change_keep_alive(arg)
                elif kind == 'pill':
                    labels.append([sym('setk'), Q(Fraction(arg))])
                    labels.append([sym('put'), A(1), [sym('some'), b'KEEPALIVE_PILL']])
                    snd.change_keep_alive(arg, True)
                elif kind == 'none':
                    labels.append([sym('put'), A(1), sym('none')])
                    fixture.sender_queue(snd).put(None)
                elif kind == 'stop':
                    labels.append([sym('put'), A(1), [sym('some'), b'STOP_WAITING_PILL']])
                    fixture.sender_queue(snd).put('STOP_WAITING_PILL')
                S.yield_('env', None, cond=parked)
            advance(Fraction(sc.horizon))
        S.spawn('env', 'env', body)

        def chooser(en, sched):
            for t in en:
                if t.role == ('env' if env_first[0] else 'writer'):
                    return t
            return en[0]
        status = S.run(chooser, max_steps=200000)
        crashes = [e for e in S.events if e[0] in ('exc', 'ioexc') or (e[0] == 'thread-crash' and e[2:3] != ('env',) and 'env' not in e[1:3])]
        harness_crash = [e for e in S.events if e[0] == 'thread-crash' and 'env' in e[1:3]]
        S.kill_all()
    if harness_crash:
        # the harness's own environment thread failed (not the library): a broken harness, never a property violation
        raise RuntimeError('C13 harness environment thread crashed: %r' % (harness_crash[0],))
    return writes, labels, status, crashes


def oracle(sc, writes):
    """the property text on (virtual time, line) pairs; returns list of (detail, key).
    An interval change takes effect when the next wait begins; the text does not fix that moment, so around a change the
    oracle accepts every interval that was in force at some moment of the gap (exact otherwise; the comparison with the
    model is exact everywhere)."""
    out = []
    changes = [(Fraction(t), Fraction(a)) for t, k, a in sc.events if k in ('setk', 'pill')]
    stop_t = min([Fraction(t) for t, k, a in sc.events if k == 'stop'] + [None], key=lambda x: (x is None, x))

    def ks_between(a, b):
        v = Fraction(sc.k0)
        for ct, cv in changes:
            if ct < a:
                v = cv
        vals = {v}
        for ct, cv in changes:
            if a <= ct <= b:
                vals.add(cv)
        return vals
    pills = [Fraction(t) for t, k, a in sc.events if k in ('pill', 'none')]
    puts = []
    for t, k, a in sc.events:
        if k == 'stop':
            break
        if k in ('put', 'put!'):
            puts.append(a)
    prev = Fraction(0)
    for (t, data) in writes:
        line = data.decode('utf-8')
        if not line.endswith('\r\n') or '\r' in line[:-2] or '\n' in line[:-2]:
            out.append(('write %r at %s is not one complete line' % (data, t), {'kind': 'line_shape'}))
        Ks = ks_between(prev, t)
        if all(k > 0 for k in Ks) and t - prev > max(Ks):
            out.append(('silence of %s s from %s to %s while interval %s was in force' % (t - prev, prev, t, sorted(Ks)), {'kind': 'long_silence'}))
        if line == 'KEEPALIVE\r\n' and t not in pills:
            if all(k <= 0 for k in Ks):
                out.append(('KEEPALIVE at %s although keepalives were disabled (interval %s)' % (t, sorted(Ks)), {'kind': 'keepalive_while_disabled'}))
            elif (t - prev) not in Ks:
                out.append(('KEEPALIVE at %s after %s s of silence (interval %s)' % (t, t - prev, sorted(Ks)), {'kind': 'early_keepalive'}))
        prev = t
    # an explicit interval change that interrupts the wait ('pill') takes effect at once: from then on the connection is
    # never silent for longer than the NEW interval (in particular when keepalives were disabled before)
    wtimes = [t for t, _ in writes]
    for i, (ct, kind, arg) in enumerate(sc.events):
        ct = Fraction(ct)
        if kind != 'pill' or Fraction(arg) <= 0 or (stop_t is not None and ct >= stop_t):
            continue
        later = [Fraction(t2) for t2, k2, _ in sc.events[i + 1:] if k2 in ('setk', 'pill', 'stop')]
        limit = min(later + [Fraction(sc.horizon)])
        nxt = [t for t in wtimes if t >= ct]
        first = nxt[0] if nxt else None
        if ct + Fraction(arg) < limit and (first is None or first - ct > Fraction(arg)):
            out.append(('interval changed to %s s at %s with the wait interrupted, but nothing was written until %s' % (
                Fraction(arg), ct, first if first is not None else 'the end'), {'kind': 'long_silence_after_change'}))
    end = Fraction(sc.horizon) if stop_t is None else stop_t
    Ks = ks_between(prev, end)
    if all(k > 0 for k in Ks) and end - prev > max(Ks):
        out.append(('no write between %s and %s while interval %s was in force' % (prev, end, sorted(Ks)), {'kind': 'long_silence'}))
    got = [d.decode('utf-8')[:-2] for _, d in writes if d != b'KEEPALIVE\r\n']
    if got != puts:
        out.append(('non-keepalive lines written %r, submitted %r' % (got[:6], puts[:6]), {'kind': 'lines_changed'}))
    return out


def gen_script(rng):
    k0 = rng.choice([0, 0, -1, 0.0005, 0.3, 1, 1.5, 10, 2.25])
    t = Fraction(0)
    ev = []
    k = Fraction(k0).limit_denominator(10 ** 6)
    k0 = float(k) if k != int(k) else int(k)
    cur = Fraction(k0)
    n = rng.randint(1, 25)
    msgid = 0
    stopped = False
    budget = 2500
    for _ in range(n):
        base = cur if cur > 0 else Fraction(1)
        eps = min(Fraction(1, 1000), base / 10)
        gap = rng.choice([Fraction(0), base / 3, base - eps, base, base + eps, base * 2, base * rng.randint(3, 40),
                          Fraction(rng.randint(0, 5000), 1000) if base >= Fraction(3, 10) else base * rng.randint(0, 9)])
        if cur > 0:                      # bound the number of timeout keepalives a script produces
            nka = gap / cur
            if nka > budget:
                gap = cur * max(budget, 0)
                nka = max(budget, 0)
            budget -= nka
        t += gap
        r = rng.random()
        if r < 0.65:
            burst = rng.choice([1, 1, 1, 2, 5])
            racy = rng.random() < 0.35
            for b in range(burst):
                msgid += 1
                ev.append((t, 'put!' if racy and b == 0 else 'put', '%d|MSG|S|payload+%d' % (msgid, msgid)))
        elif r < 0.8:
            nk = rng.choice([0, -2, 0.5, 1, 1.5, 2.5, 10, 0.001])
            ev.append((t, 'setk', nk))
            msgid += 1
            if rng.random() < 0.7:
                ev.append((t, 'put', '%d|MPI|V' % msgid))     # the library follows the change by the init reply
            cur = Fraction(nk)
        elif r < 0.88:
            nk = rng.choice([0.5, 1, 2])
            ev.append((t, 'pill', nk))
            cur = Fraction(nk)
        elif r < 0.93:
            ev.append((t, 'none', None))
        elif r < 0.96 and not stopped:
            ev.append((t, 'stop', None))
            stopped = True
    horizon = t + (cur if cur > 0 else 1) * rng.choice([0, 1, 3, 50, 2000])
    return Script(k0, ev, horizon)


def through_server(rng):
    """interval change at init time through the real MetadataProviderServer: configured K, hint H; returns (script, writes)"""
    # handled by run_server below
    return None


def run_server(k0, hint_ms, t_init, idle_after):
    """real MetadataProviderServer: the init request (with keepalive hint) is read at virtual time t_init; returns writes"""
    import lightstreamer_adapter.server as server
    import fixture
    S = dsched.Sched()
    with shims.install(S, chunks=[], end='block') as env:
        clock = env.clock
        clock.now = Fraction(0)
        ad = fixture.metadata_adapter()
        srv = server.MetadataProviderServer(ad, ('h', 1), name='M', keep_alive=k0, thread_pool_size=1)
        env.sock.chunks.clear()
        writes = []
        orig = env.sock.sendall

        def sendall(data):
            writes.append((Fraction(clock.now), bytes(data)))
        env.sock.sendall = sendall
        srv.start()
        q = env.queues[0]
        writer = [t for t in S.threads if t.role == 'writer'][0]
        reader = [t for t in S.threads if t.role == 'reader'][0]

        def parked():
            return (writer.state == 'dead' or (writer.state == 'parked' and writer.pending[0] == 'get' and not q.items)) and \
                   (reader.state == 'dead' or (reader.state == 'parked' and reader.pending[0] == 'recv' and not env.sock.chunks))

        def advance(t):
            while True:
                w = q.waiter
                if writer.state != 'dead' and w is not None and w['timeout'] is not None and not w['fired'] \
                        and Fraction(w['start']) + Fraction(w['timeout']) < t:
                    clock.now = Fraction(w['start']) + Fraction(w['timeout'])
                    w['fired'] = True
                    S.yield_('env', None, cond=parked)
                else:
                    break
            clock.now = Fraction(t)

        def body():
            S.yield_('env', None, cond=parked)
            advance(Fraction(t_init))
            line = '10|MPI|S|ARI.version|S|1.8.3' + ('|S|keepalive_hint.millis|S|%s' % hint_ms if hint_ms is not None else '') + '\r\n'
            env.sock.chunks.append(line.encode('ascii'))
            S.yield_('env', None, cond=parked)
            advance(Fraction(t_init) + Fraction(idle_after))
        S.spawn('env', 'env', body)

        def chooser(en, sched):
            for role in ('writer', 'reader', 'worker'):
                for t in en:
                    if t.role == role:
                        return t
            return en[0]
        S.run(chooser, max_steps=200000)
        ka = srv.keep_alive
        S.kill_all()
    return writes, ka


def run_data_server(k0, events, horizon):
    """real DataProviderServer (configured interval k0, no hint) in virtual time.  events: [(t, kind, arg)] with kind in
    'line' (bytes delivered to the reader: init, a late init = protocol error answered by the default handling with a
    FAL notification, garbage) and 'failure' (the adapter calls listener.failure).  Returns every socket write with its
    virtual time, whichever thread made it."""
    import lightstreamer_adapter.server as server
    import fixture
    S = dsched.Sched()
    with shims.install(S, chunks=[], end='block') as env:
        clock = env.clock
        clock.now = Fraction(0)
        ad = fixture.data_adapter()
        srv = server.DataProviderServer(ad, ('h', 1), name='D', keep_alive=k0, thread_pool_size=1)
        env.sock.chunks.clear()
        writes = []

        def sendall(data):
            me = S.me()
            writes.append((Fraction(clock.now), bytes(data), getattr(me, 'role', '?')))
        env.sock.sendall = sendall
        srv.start()
        q = env.queues[0]
        writer = [t for t in S.threads if t.role == 'writer'][0]
        reader = [t for t in S.threads if t.role == 'reader'][0]

        def parked():
            return (writer.state == 'dead' or (writer.state == 'parked' and writer.pending[0] == 'get' and not q.items)) and \
                   (reader.state == 'dead' or (reader.state == 'parked' and reader.pending[0] == 'recv' and not env.sock.chunks))

        def advance(t):
            while True:
                w = q.waiter
                if writer.state != 'dead' and w is not None and w['timeout'] is not None and not w['fired'] \
                        and Fraction(w['start']) + Fraction(w['timeout']) < t:
                    clock.now = Fraction(w['start']) + Fraction(w['timeout'])
                    w['fired'] = True
                    S.yield_('env', None, cond=parked)
                else:
                    break
            clock.now = Fraction(t)

        def body():
            S.yield_('env', None, cond=parked)
            for t, kind, arg in events:
                advance(Fraction(t))
                if kind == 'line':
                    env.sock.chunks.append(arg)
                else:
                    ad.listener.failure(Exception(arg))
                S.yield_('env', None, cond=parked)
            advance(Fraction(horizon))
        S.spawn('env', 'env', body)

        def chooser(en, sched):
            for role in ('writer', 'reader', 'worker'):
                for t in en:
                    if t.role == role:
                        return t
            return en[0]
        S.run(chooser, max_steps=200000)
        crashes = [e for e in S.events if e[0] == 'thread-crash' and 'env' not in e[1:3]]
        S.kill_all()
    return writes, crashes


def data_server_part(ctx, res):
    """every line a Data server writes — replies, notifications, the FAL of the default exception handling — goes through
    the one writer, so each of them restarts the silence: a KEEPALIVE comes exactly K after the previous write"""
    rng = ctx.rng
    n = 12 if ctx.tier == 'quick' else 200
    for i in range(n):
        K = rng.choice([1, 1.5, 2, 0.5])
        t = Fraction(rng.randint(1, 40), 8)
        events = [(t, 'line', b'1|DPI|S|ARI.version|S|1.9.1\r\n')]
        for _ in range(rng.randint(1, 4)):
            t += Fraction(rng.randint(1, int(K * 8 * 3)), 8)
            if rng.random() < 0.6:
                events.append((t, 'line', rng.choice([b'2|DPI|S|ARI.version|S|1.9.1\r\n', b'3|SUB|X|i\r\n', b'4|USB\r\n'])))
            else:
                events.append((t, 'failure', 'adapter failure %d' % i))
        horizon = t + Fraction(int(K * 8 * 3), 8)
        import os
        import sys
        saved_err = sys.stderr
        sys.stderr = open(os.devnull, 'w')       # the default handling prints the traceback of the protocol error
        try:
            writes, crashes = run_data_server(K, events, horizon)
        finally:
            sys.stderr = saved_err
        res.evaluations += 1
        res.count('data-server-timed')
        case = {'server': 'data', 'k0': K, 'events': [(str(a), b, c.decode() if isinstance(c, bytes) else c) for a, b, c in events], 'horizon': str(horizon)}
        bad = None
        if crashes:
            bad = 'a library thread died: %r' % (crashes[0],)
        prev = Fraction(0)
        for tw, data, role in writes:
            if role != 'writer':
                bad = bad or 'line %r written by the %s thread, not by the writer' % (data[:40], role)
            gap = tw - prev
            if data == b'KEEPALIVE\r\n':
                if gap != Fraction(K):
                    bad = bad or 'KEEPALIVE at %s after %s s of silence (interval %s)' % (tw, gap, K)
            elif gap > Fraction(K):
                bad = bad or 'silence of %s s before the line at %s (interval %s)' % (gap, tw, K)
            prev = tw
        if horizon - prev > Fraction(K):
            bad = bad or 'silence of %s s at the end of the run (interval %s)' % (horizon - prev, K)
        nfal = sum(1 for _, d, _ in writes if b'|FAL|' in d)
        if nfal:
            res.nontrivial.add(repr(case))
        if bad:
            res.oracle_violations.append({'case': case, 'detail': bad, 'key': {'kind': 'data_server_timing'}})


def run(ctx, res):
    rng = ctx.rng
    n = 250 if ctx.tier == 'quick' else 6000
    res.rule = ('timed scripts for the real _Sender in virtual time: configured interval in {disabled, negative, 0.0005, 0.3, 1, 1.5, 2.25, 10}, submissions with gaps '
                'just below / exactly at / just above the interval, bursts, idle periods up to thousands of intervals, interval changes (with and without the interrupting pill), '
                'None items, stop; environment actions replayed through Model/Sender.v; plus the interval change at init through the real MetadataProviderServer; '
                'non-trivial = distinct scripts producing at least one timeout keepalive or one change')
    scripts = [gen_script(rng) for _ in range(n)]
    # fixed corner cases
    scripts.append(Script(1, [(Fraction(1), 'put', 'a|X')], 5))                        # put exactly at the deadline
    scripts.append(Script(1, [(Fraction(1), 'put!', 'a|X')], 5))                       # ... just after the timeout has fired
    scripts.append(Script(1.5, [(Fraction(3), 'put!', 'a|X'), (Fraction(3), 'put', 'b|X')], 9))
    scripts.append(Script(1.5, [], 1500))                                                 # long idle: 1000 keepalives
    scripts.append(Script(0, [(Fraction(3), 'put', 'a|X')], 100))                         # disabled
    scripts.append(Script(10, [(Fraction(2), 'setk', 1), (Fraction(2), 'put', '1|MPI|V')], 12))
    scripts.append(Script(0, [(Fraction(2), 'setk', 1.5), (Fraction(2), 'put', '1|MPI|V')], 12))
    calls = []
    runs = []
    for sc in scripts:
        writes, labels, status, crashes = run_sender(sc)
        runs.append((sc, writes, labels, status, crashes))
        calls.append([sym('sender_run'), Q(Fraction(sc.k0)), labels])
    outs = ctx.model(calls)
    for (sc, writes, labels, status, crashes), m in zip(runs, outs):
        res.evaluations += 1
        case = {'k0': sc.k0, 'events': [(str(t), k, a) for t, k, a in sc.events], 'horizon': str(sc.horizon)}
        nka = sum(1 for _, d in writes if d == b'KEEPALIVE\r\n')
        if nka or any(k in ('setk', 'pill') for _, k, _ in sc.events):
            res.nontrivial.add(repr(case))
        res.count('keepalives:%s' % ('0' if nka == 0 else '1-9' if nka < 10 else '10+'))
        if crashes:
            res.oracle_violations.append({'case': case, 'detail': 'the writer thread died: %r' % (crashes[0],), 'key': {'kind': 'crash'}})
        for detail, key in oracle(sc, writes):
            res.oracle_violations.append({'case': case, 'detail': detail, 'key': key})
        if sx.is_err(m):
            res.disagreements.append({'case': case, 'model': sx.dumps(m), 'impl': None, 'relation': 'Sender.srun'})
        elif m[0] == b'rejected':
            idx = int(m[1])
            res.disagreements.append({'case': case, 'model': 'refuses action %d %s (wait timeout %s, elapsed %s, K %s)' % (
                idx, sx.dumps(labels[idx]), sx.dumps(m[2]), sx.dumps(m[3]), sx.dumps(m[4])), 'impl': 'performed it',
                'relation': 'Sender.sstep accepts every environment action (timeouts fire exactly when the model wait expires)'})
        else:
            mw = [(Fraction(int(w[0][1]), int(w[0][2])), bytes(w[3]) + b'\r\n') for w in m[1]]
            if mw != writes:
                k = next((i for i, (a, b) in enumerate(zip(mw, writes)) if a != b), min(len(mw), len(writes)))
                res.disagreements.append({'case': case, 'model': [(str(t), d) for t, d in mw[k:k + 3]], 'impl': [(str(t), d) for t, d in writes[k:k + 3]],
                                          'relation': 'Sender writes (virtual time, line) = sendall calls of the real _Sender'})
        if res.evaluations % 60 == 0:
            res.sample({'k0': sc.k0, 'events': case['events'][:8], 'writes': [(str(t), d.decode()) for t, d in writes[:8]]})
    # interval change at init through the real server
    grid = [(None, None), (None, 500), (None, 1500), (None, 20000), (10, 3000), (10, 2250), (2, 5000), (0, 1500), (0, 400), (-1, 2000), (0.5, 300), (3, None), (0, None)]
    for k0, hint in grid:
        writes, ka = run_server(k0, hint, 2, 40)
        res.evaluations += 1
        res.count('server-init')
        case = {'through': 'MetadataProviderServer', 'keep_alive': k0, 'hint_ms': hint}
        t_reply = [t for t, d in writes if d.startswith(b'10|MPI')]
        if not t_reply:
            res.oracle_violations.append({'case': case, 'detail': 'no init reply', 'key': {'kind': 'no_reply'}})
            continue
        after = [t for t, d in writes if t > t_reply[0]]
        # the interval that has to be in force is the one the negotiation of C12 prescribes for (configured, hint),
        # not merely the one the server reports
        from props import c12
        msg = c12.oracle(k0, hint, ka)
        if msg:
            res.oracle_violations.append({'case': case, 'detail': 'interval in force after init: ' + msg, 'key': {'kind': 'interval_in_force'}})
        K = Fraction(ka).limit_denominator(10 ** 9)
        prev = t_reply[0]
        bad = None
        for t in after + [Fraction(42)]:
            if K > 0 and t - prev > K:
                bad = 'after the init reply the interval in force is %s s but there was a silence of %s s (%s..%s)' % (K, t - prev, prev, t)
                break
            prev = t
        if K <= 0 and after:
            bad = 'interval %s (disabled) but lines were written after the init reply: %r' % (K, after[:3])
        if K > 0 and after and any(b - a != K for a, b in zip([t_reply[0]] + after, after)):
            bad = 'keepalives after init not spaced by the interval %s: %r' % (K, [str(x) for x in after[:4]])
        if bad:
            res.oracle_violations.append({'case': case, 'detail': bad, 'key': {'kind': 'interval_change_at_init'}})
    data_server_part(ctx, res)
    res.traces = res.evaluations


def search(ctx, res):
    import random
    rng = random.Random(ctx.seed + 3)
    for _ in range(1500):
        sc = gen_script(rng)
        writes, labels, status, crashes = run_sender(sc)
        v = oracle(sc, writes)
        if v:
            return {'case': {'k0': sc.k0, 'events': [(str(t), k, a) for t, k, a in sc.events], 'horizon': str(sc.horizon)}, 'detail': v[0][0], 'key': v[0][1]}
    for k0, hint in [(None, 500), (0, 1500), (0, 400), (10, 3000)]:
        writes, ka = run_server(k0, hint, 2, 40)
        t_reply = [t for t, d in writes if d.startswith(b'10|MPI')]
        after = [t for t, d in writes if t_reply and t > t_reply[0]]
        K = Fraction(ka).limit_denominator(10 ** 9)
        if K > 0 and (not after or any(b - a != K for a, b in zip(t_reply + after, after))):
            return {'case': {'through': 'MetadataProviderServer', 'keep_alive': k0, 'hint_ms': hint}, 'detail': 'keepalives after init: %r, interval %s' % ([str(x) for x in after[:4]], K),
                    'key': {'kind': 'interval_change_at_init'}}
    return None


def replay(ctx, data):
    c = data['case']
    if c.get('server') == 'data':
        K = c['k0']
        events = [(Fraction(t), k, (a.encode('ascii') if k == 'line' else a)) for t, k, a in c['events']]
        writes, crashes = run_data_server(K, events, Fraction(c['horizon']))
        prev = Fraction(0)
        bad = [] if not crashes else ['thread died']
        for tw, d, role in writes:
            if role != 'writer':
                bad.append('written by %s' % role)
            gap = tw - prev
            if (d == b'KEEPALIVE\r\n' and gap != Fraction(K)) or (d != b'KEEPALIVE\r\n' and gap > Fraction(K)):
                bad.append('gap %s before %r' % (gap, d[:30]))
            prev = tw
        return bool(bad), 'writes %r; %r' % ([(str(t), d[:30], r) for t, d, r in writes[:10]], bad[:3])
    if 'events' in c:
        sc = Script(c['k0'], [(Fraction(t), k, a) for t, k, a in c['events']], Fraction(c['horizon']))
        writes, labels, status, crashes = run_sender(sc)
        v = oracle(sc, writes)
        return bool(v or crashes), 'writes %r; oracle %r' % ([(str(t), d) for t, d in writes[:10]], v[:2])
    writes, ka = run_server(c.get('keep_alive'), c.get('hint_ms'), 2, 40)
    return False, 'server-level case: writes %r, keep_alive %r (re-run the check)' % ([(str(t), d) for t, d in writes[:8]], ka)
