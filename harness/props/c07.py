"""C07 — replies and notifications are well-formed and decode to the adapter's data.
Correspondence: Model/Writers.v vs the real write_* functions (direct calls, every
slot with supported and unsupported types) and vs the lines the real servers put
on the queue; Model/AriReply.v (Coq reference decoders) vs harness/ari.py (an
independent Python ARI decoder).  Oracle: ari.py applied to the implementation's
lines recovers exactly what was supplied; token count depends on shape only;
unsupported types raise the protocol error and produce no line."""
import math
import struct

import ari
import fixture
import sx
import wire
from ari import Other, pyval
from sx import sym, A

TRUSTED = ['C07: float.__repr__ / float() are CPython facts: the model carries a float as its repr text; that the token parses back to '
           'the same number is checked by the oracle on floats across magnitudes (powers of 2 and 10, subnormals, extremes, random bit patterns)',
           'C07: base64.b64encode is modelled (Model/Base64.v) and pinned by this comparison']
ASSUMPTIONS = ['adapter-supplied values: text slots hold None / str (no lone surrogates) / bytes, ints, finite floats, bools, Mode lists built by the library itself; '
               'a non-dict events map or a str where a list is expected is outside the property (model-vs-code comparison only / skipped)']

MODES = ['RAW', 'MERGE', 'DISTINCT', 'COMMAND']


def floats(rng, n):
    out = [0.0, -0.0, 1.0, -1.0, 0.1, 1.5, 1e22, 1e23, 1e-7, 5e-324, 2.2250738585072014e-308, 1.7976931348623157e308,
           123456789.123456789, 1 / 3, 2 ** 53 + 0.0, 1e16, 9007199254740993.0, 3.0e-5, 1e15, 1e-4, 0.0001, 12345678901234567890.0]
    out += [2.0 ** k for k in range(-1074, 1024, 97)] + [10.0 ** k for k in range(-300, 309, 41)]
    while len(out) < n:
        bits = rng.getrandbits(64)
        f = struct.unpack('<d', struct.pack('<Q', bits))[0]
        if math.isfinite(f):
            out.append(f)
    return out


def mode_objs(names):
    from lightstreamer_adapter.interfaces.metadata import Mode
    return [Mode[n] for n in names]


UNSUP_TEXT = lambda: [0, 1, False, True, 0.0, 2.5, [], ['x'], {}, {'a': 1}, (), Other(True), Other(False)]


def c_text(v):
    return sym('none') if v is None else [sym('some'), v.encode('utf-8') if isinstance(v, str) else bytes(v)]


LINE_ALPHABET = set('ABCDEFGHIJKLMNOPQRSTUVWXYZabcdefghijklmnopqrstuvwxyz0123456789_.-~+%#$|=/')


def add(res, ctx, calls, impl, relation, case):
    """queue a model call for batch evaluation"""
    calls.append((relation, case, impl))


def run(ctx, res):
    import lightstreamer_adapter.metadata_protocol as mp
    import lightstreamer_adapter.data_protocol as dp
    import lightstreamer_adapter.protocol as pr
    from lightstreamer_adapter.protocol import RemotingException
    rng = ctx.rng
    g = wire.Gen(rng)
    N = 150 if ctx.tier == 'quick' else 6000
    res.rule = ('every write_* function called directly with (a) valid data: texts from the C05 domain incl. None/empty/bytes, lists and '
                'dicts of 0..k elements, ints, finite floats across magnitudes, every subset and order of modes, booleans; (b) one slot '
                'replaced by each unsupported type (truthy and falsy); compared with the model writer, decoded by an independent ARI decoder '
                'and by the Coq reference decoder (both must recover the supplied data); a sample also goes through the real servers; '
                'non-trivial = distinct lines / distinct rejected inputs')
    model_calls = []     # sexp calls
    pending = []         # (kind, case, impl_result, oracle_fn)

    def q(call, impl, case, oracle=None, deckind=None):
        model_calls.append(call)
        pending.append((case, impl, oracle, deckind))

    fl = floats(rng, 60 if ctx.tier == 'quick' else 4000)

    # ---- list replies (GIS / GSC)
    for i in range(N):
        meth, fn = (('GIS', mp.write_get_items) if i % 2 else ('GSC', mp.write_get_schema))
        k = rng.choice([0, 1, 1, 2, 3, 8])
        items = [g.text(allow_none=(i % 5 == 0)) for _ in range(k)]
        if i % 7 == 3 and items:
            j = rng.randrange(len(items))
            if items[j]:
                items[j] = items[j].encode('utf-8')
        val = items if i % 11 else (tuple(items) if items else None)
        exp = [x.decode('utf-8') if isinstance(x, bytes) else x for x in items]

        def orc(line, meth=meth, exp=exp):
            m, l = ari.strings(line)
            ok = (m == meth and l == exp and len(line.split('|')) == 1 + 2 * len(exp))
            return ok, 'decoded %r %r, supplied %r' % (m, l, exp)
        q([sym('write_list'), sym(meth), pyval(val)], ari.call_writer(fn, val), {'writer': fn.__name__, 'value': repr(val)[:300]}, orc, 'strings')
        res.count('list-valid')
    for meth, fn in (('GIS', mp.write_get_items), ('GSC', mp.write_get_schema)):
        for bad in UNSUP_TEXT():
            for pos in (0, 1, 2):
                items = ['a', 'b c', 'd']
                items[pos] = bad
                q([sym('write_list'), sym(meth), pyval(items)], ari.call_writer(fn, items),
                  {'writer': fn.__name__, 'value': repr(items), 'unsupported': type(bad).__name__, 'falsy': not bad}, 'reject')
                res.count('list-unsupported')
        for bad in (5, 2.5, True, Other(True)):      # non-iterable where a list is expected
            q([sym('write_list'), sym(meth), pyval(bad)], ari.call_writer(fn, bad),
              {'writer': fn.__name__, 'value': repr(bad), 'unsupported': 'non-iterable'}, 'reject')
            res.count('list-noniterable')

    # ---- item data (GIT / GUI)
    keys = {'GIT': ('distinctSnapshotLength', 'minSourceFrequency'), 'GUI': ('allowedBufferSize', 'allowedMaxFrequency')}
    fns = {'GIT': mp.write_get_item_data, 'GUI': mp.write_get_user_item_data}
    for i in range(N):
        meth = 'GIT' if i % 2 else 'GUI'
        k = rng.choice([0, 1, 1, 2, 4])
        data = []
        exp = []
        for _ in range(k):
            n = g.integer()
            f = rng.choice(fl)
            ms = rng.sample(MODES, rng.randint(0, 4))
            data.append({keys[meth][0]: n, keys[meth][1]: f, 'allowedModeList': mode_objs(ms)})
            exp.append((n, f, ms))

        def orc(line, meth=meth, exp=exp):
            m, l = ari.item_data(line)
            ok = m == meth and len(l) == len(exp) and all(
                a[0] == b[0] and a[1] == b[1] and math.copysign(1, a[1]) == math.copysign(1, b[1]) and a[2] == b[2]
                for a, b in zip(l, exp)) and len(line.split('|')) == 1 + 6 * len(exp)
            return ok, 'decoded %r, supplied %r' % (l, exp)
        call = [sym('write_item_data'), sym(meth), [[pyval(d[keys[meth][0]]), pyval(d[keys[meth][1]]), pyval(d['allowedModeList'])] for d in data]]
        q(call, ari.call_writer(fns[meth], data), {'writer': fns[meth].__name__, 'value': repr(exp)[:300]}, orc, 'item_data')
        res.count('itemdata-valid')
    for meth in ('GIT', 'GUI'):
        for slot in (0, 1):
            bads = [True, False, 1.5, '3', None, Other()] if slot == 0 else [1, 0, True, '1.0', None, Other()]
            for bad in bads:
                d = {keys[meth][0]: 3, keys[meth][1]: 1.5, 'allowedModeList': mode_objs(['RAW'])}
                d[keys[meth][slot]] = bad
                data = [{keys[meth][0]: 1, keys[meth][1]: 2.0, 'allowedModeList': []}, d]
                call = [sym('write_item_data'), sym(meth), [[pyval(x[keys[meth][0]]), pyval(x[keys[meth][1]]), pyval(x['allowedModeList'])] for x in data]]
                q(call, ari.call_writer(fns[meth], data), {'writer': fns[meth].__name__, 'slot': keys[meth][slot], 'unsupported': repr(bad)}, 'reject')
                res.count('itemdata-unsupported')

    # ---- notify user
    for i in range(N // 2):
        meth = 'NUS' if i % 2 else 'NUA'
        bw = rng.choice(fl)
        w = bool(i % 3)

        def orc(line, meth=meth, bw=bw, w=w):
            m, x, b = ari.notify_user(line)
            return (m == meth and x == bw and math.copysign(1, x) == math.copysign(1, bw) and b is w), 'decoded %r %r %r' % (m, x, b)
        q([sym('write_notify_user'), sym(meth), pyval(bw), pyval(w)], ari.call_writer(mp.write_notiy_user, getattr(mp.Method, meth), bw, w),
          {'writer': 'write_notiy_user', 'value': (meth, bw, w)}, orc, 'notify_user')
        res.count('notifyuser-valid')
    for bad_bw, bad_w in [(1, True), (True, True), (None, True), ('1.0', True), (1.0, 1), (1.0, 0), (1.0, None), (1.0, 'true'), (0, False)]:
        q([sym('write_notify_user'), sym('NUS'), pyval(bad_bw), pyval(bad_w)], ari.call_writer(mp.write_notiy_user, mp.Method.NUS, bad_bw, bad_w),
          {'writer': 'write_notiy_user', 'unsupported': repr((bad_bw, bad_w))}, 'reject')
        res.count('notifyuser-unsupported')

    # ---- updates / EOS / CLS / FAL
    for i in range(N):
        item = g.text(allow_none=False)
        rid = g.rid().decode()
        snap = bool(i % 2)
        k = rng.choice([0, 1, 2, 3, 9])
        ev = {}
        for _ in range(k):
            name = g.text(allow_none=False)
            r = rng.random()
            if r < 0.15:
                v = None
            elif r < 0.4:
                v = bytes(rng.getrandbits(8) for _ in range(rng.choice([0, 1, 2, 3, 4, 5, 64, 300])))
            else:
                v = g.text(allow_none=False, tagged=False)
            ev[name] = v
        if i % 50 == 7:
            ev['big'] = bytes(rng.getrandbits(8) for _ in range(70000))
        exp = list(ev.items())

        def orc(line, item=item, rid=rid, snap=snap, exp=exp):
            it, r, s, fs = ari.update(line)
            ok = (it == item and r == rid and s is snap and fs == exp and len(line.split('|')) == 7 + 4 * len(exp))
            return ok, 'decoded %r, supplied %r' % ((it, r, s, fs[:4]), (item, rid, snap, exp[:4]))
        q([sym('write_update'), pyval(item), pyval(rid), pyval(snap), pyval(ev)], ari.call_writer(dp.write_update_map, item, rid, snap, ev),
          {'writer': 'write_update_map', 'value': repr((item, rid, snap, exp))[:300]}, orc, 'update')
        res.count('update-valid')
    for bad in [0, 1, True, False, 2.5, 0.0, [], ['x'], {}, Other(True), Other(False)]:
        for where in ('value', 'field', 'flag'):
            ev = {'f1': 'v1', 'f2': b'\x00\x01'}
            snap = False
            if where == 'value':
                ev['f3'] = bad
            elif where == 'field':
                try:
                    ev[bad] = 'v'
                except TypeError:
                    continue
            else:
                if isinstance(bad, bool):
                    continue
                snap = bad
            q([sym('write_update'), pyval('it'), pyval('r1'), pyval(snap), pyval(ev)], ari.call_writer(dp.write_update_map, 'it', 'r1', snap, ev),
              {'writer': 'write_update_map', 'where': where, 'unsupported': repr(bad), 'falsy': not bad}, 'reject')
            res.count('update-unsupported')
    for i in range(N // 3):
        item = g.text(allow_none=False)
        rid = g.rid().decode()
        for meth, fn in (('EOS', dp.write_eos), ('CLS', dp.write_cls)):
            def orc(line, meth=meth, item=item, rid=rid):
                m, it, r = ari.item_notify(line)
                return (m == meth and it == item and r == rid), 'decoded %r' % ((m, it, r),)
            q([sym('write_item_notify'), sym(meth), pyval(item), pyval(rid)], ari.call_writer(fn, item, rid),
              {'writer': fn.__name__, 'value': (item, rid)}, orc, 'item_notify')
        msg = g.text(allow_none=False)

        def orcf(line, msg=msg):
            return ari.failure(line) == msg, 'decoded %r' % (ari.failure(line),)
        q([sym('write_failure'), msg.encode('utf-8')], ari.call_writer(dp.write_failure, Exception(msg)), {'writer': 'write_failure', 'value': msg}, orcf, 'failure')
        res.count('notify-valid')
    for bad in [0, 5, False, 1.5, [], Other(False)]:
        q([sym('write_item_notify'), sym('EOS'), pyval(bad), pyval('r')], ari.call_writer(dp.write_eos, bad, 'r'),
          {'writer': 'write_eos', 'unsupported': repr(bad), 'falsy': not bad}, 'reject')

    # ---- evaluate the model on everything
    outs = ctx.model(model_calls)
    dec_calls = []
    dec_idx = []
    for idx, ((case, impl, oracle, deckind), m) in enumerate(zip(pending, outs)):
        res.evaluations += 1
        if m == [sym('err'), sym('unmodelled')]:
            res.unmodelled += 1
            continue
        if m != impl:
            res.disagreements.append({'case': case, 'model': sx.dumps(m)[:600], 'impl': sx.dumps(impl)[:600],
                                      'relation': 'Writers.%s = %s' % (sx.dumps(model_calls[idx][0]), case.get('writer'))})
        if oracle == 'reject':
            res.nontrivial.add(repr(case))
            if impl != [sym('err'), sym('remoting')]:
                res.oracle_violations.append({'case': case, 'detail': 'unsupported value gave %s instead of the protocol error' % sx.dumps(impl)[:300],
                                              'key': {'kind': 'falsy_nontext_as_empty' if case.get('falsy') and impl[0] == b'ok' else 'unsupported_not_rejected',
                                                      'writer': case.get('writer')}})
        elif oracle is not None:
            if impl[0] != b'ok':
                res.oracle_violations.append({'case': case, 'detail': 'valid data rejected: %s' % sx.dumps(impl), 'key': {'kind': 'valid_rejected', 'writer': case.get('writer')}})
                continue
            line = impl[1].decode('utf-8')
            res.nontrivial.add(line)
            try:
                ok, detail = oracle(line)
            except (ari.Bad, ValueError, UnicodeDecodeError) as e:
                ok, detail = False, 'reference decoder rejects the line: %r' % (e,)
            if ok:
                # every token of a line is over the protocol's ASCII alphabet (text tokens: C05; markers, numbers, base64)
                badc = sorted(set(c for c in line if c not in LINE_ALPHABET))
                if badc:
                    ok, detail = False, 'characters %r outside the token alphabet in the line' % (''.join(badc)[:20],)
            if not ok:
                res.oracle_violations.append({'case': dict(case, line=line[:600]), 'detail': detail, 'key': {'kind': 'decode_mismatch', 'writer': case.get('writer')}})
            if deckind and len(line) < 20000:
                dec_calls.append([sym('decode_reply'), sym(deckind), impl[1]])
                dec_idx.append((deckind, line))
            if idx % 211 == 0:
                res.sample({'writer': case.get('writer'), 'line': line[:200]})
    # ---- Coq reference decoder vs Python reference decoder
    douts = ctx.model(dec_calls)
    for (kind, line), d in zip(dec_idx, douts):
        res.evaluations += 1
        res.count('specdecoder:' + kind)
        try:
            py = canon(kind, line)
        except (ari.Bad, ValueError, UnicodeDecodeError):
            py = sym('none')
        if d != py:
            res.disagreements.append({'case': {'line': line[:600], 'kind': kind}, 'model': sx.dumps(d)[:600], 'impl': sx.dumps(py)[:600],
                                      'relation': 'AriReply.decode_%s = harness/ari.py reference decoder' % kind})
    through_servers(ctx, res)
    res.traces = res.evaluations


def canon(kind, line):
    T = c_text
    if kind == 'strings':
        m, l = ari.strings(line)
        return [sym('some'), [m.encode(), [T(x) for x in l]]]
    if kind == 'item_data':
        m, l = ari.item_data(line, raw=True)
        return [sym('some'), [m.encode(), [[A(n), x.encode(), (sym('none') if ms is None else [sym('some'), [sym(k) for k in ms]])] for n, x, ms in l]]]
    if kind == 'notify_user':
        m, x, b = ari.notify_user(line, raw=True)
        return [sym('some'), [m.encode(), x.encode(), A(b)]]
    if kind == 'update':
        it, r, s, fs = ari.update(line)
        return [sym('some'), [T(it), T(r), A(s), [[T(n), ([sym('bytes'), v] if isinstance(v, bytes) else [sym('text'), T(v)])] for n, v in fs]]]
    if kind == 'item_notify':
        m, it, r = ari.item_notify(line)
        return [sym('some'), [m.encode(), T(it), T(r)]]
    if kind == 'failure':
        return [sym('some'), T(ari.failure(line))]
    raise ValueError(kind)


def through_servers(ctx, res):
    """the same writers reached through the real servers (glue: _on_<m>, reply assembly, notify prefix)"""
    rng = ctx.rng
    g = wire.Gen(rng)
    n = 25 if ctx.tier == 'quick' else 400
    env_calls = []
    for i in range(n):
        items = [g.text(allow_none=False) for _ in range(rng.choice([0, 1, 3]))]
        bad = (i % 5 == 4)
        ret = list(items)
        if bad:
            ret = ret + [rng.choice([0, False, 7, 1.5, [], Other(False)])]
        script = {'get_items': lambda *a: ret, 'get_schema': lambda *a: ret}
        with fixture.patched() as env:
            ad = fixture.metadata_adapter(script)
            h = fixture.make_handler()
            srv = fixture.start_meta(env, ad, handler=h)
            fixture.feed(srv, '1|MPI|S|ARI.version|S|1.8.3\r\n')
            fixture.drain(srv)
            meth = 'GIS' if i % 2 else 'GSC'
            line = '7a|GIS|S|u|S|g|S|s\r\n' if meth == 'GIS' else '7a|GSC|S|u|S|g|S|sc|S|s\r\n'
            fixture.feed(srv, line)
            msgs = fixture.drain(srv)
            nex = len(h.ex)
        res.evaluations += 1
        res.count('server:' + meth + (':unsupported' if bad else ''))
        case = {'through': 'MetadataProviderServer', 'method': meth, 'returned': repr(ret)[:200]}
        # envelope: the queued message is Envelope.reply_message(id, text the writer returns)
        import lightstreamer_adapter.metadata_protocol as mp
        w = ari.call_writer(mp.write_get_items if meth == 'GIS' else mp.write_get_schema, ret)
        if w[0] == b'ok' and len(msgs) == 1:
            env_calls.append(([sym('envelope_reply'), b'7a', w[1]], msgs[0], case))
        if bad:
            if msgs or nex != 1:
                res.oracle_violations.append({'case': case, 'detail': 'unsupported element: lines %r, handler calls %d (expected no line, 1 call)' % (msgs, nex),
                                              'key': {'kind': 'falsy_nontext_as_empty' if msgs and not ret[-1] else 'unsupported_not_rejected', 'writer': 'server'}})
        else:
            ok = False
            if len(msgs) == 1 and msgs[0].startswith('7a|'):
                try:
                    m, l = ari.strings(msgs[0][3:])
                    ok = (m == meth and l == items)
                except ari.Bad:
                    ok = False
            if not ok:
                res.oracle_violations.append({'case': case, 'detail': 'reply lines %r do not decode to %r' % (msgs, items), 'key': {'kind': 'decode_mismatch', 'writer': 'server'}})
    # GIT / GUI through the server: one triple per REQUESTED item, in request order, also when a name occurs twice
    for i in range(6 if ctx.tier == 'quick' else 60):
        names = [g.text(allow_none=False, tagged=False) for _ in range(rng.choice([1, 2, 3]))]
        items = names + [names[0]] if i % 2 == 0 else names + [rng.choice(names), names[-1]]
        cnt = {'n': 0, 'f': 0}

        def nxt_int(*a):
            cnt['n'] += 1
            return cnt['n']

        def nxt_float(*a):
            cnt['f'] += 1
            return float(cnt['f']) + 0.5
        gui = bool(i % 3 == 0)
        script = {'mode_may_be_allowed': lambda *a: True, 'ismode_allowed': lambda *a: True,
                  'get_distinct_snapshot_length': nxt_int, 'get_allowed_buffer_size': nxt_int,
                  'get_min_source_frequency': nxt_float, 'get_allowed_max_item_frequency': nxt_float}
        with fixture.patched() as env:
            ad = fixture.metadata_adapter(script)
            h = fixture.make_handler()
            srv = fixture.start_meta(env, ad, handler=h)
            fixture.feed(srv, '1|MPI|S|ARI.version|S|1.8.3\r\n')
            fixture.drain(srv)
            q = ('WGUI', 'u', items) if gui else ('WGIT', items)
            fixture.feed(srv, wire.encode_line(b'7c', 'GUI' if gui else 'GIT', q).decode('ascii'))
            msgs = fixture.drain(srv)
        res.evaluations += 1
        res.count('server:GIT/GUI:repeated-names')
        want = [(k + 1, float(k + 1) + 0.5, ['RAW', 'MERGE', 'DISTINCT', 'COMMAND']) for k in range(len(items))]
        ok = False
        if len(msgs) == 1 and msgs[0].startswith('7c|'):
            try:
                m, data = ari.item_data(msgs[0][3:])
                ok = data == want
            except (ari.Bad, ValueError):
                ok = False
        if not ok:
            res.oracle_violations.append({'case': {'through': 'MetadataProviderServer', 'method': 'GUI' if gui else 'GIT', 'items': items},
                                          'detail': 'reply %r does not carry one triple per requested item in request order (%d items requested)' % (msgs[:1], len(items)),
                                          'key': {'kind': 'decode_mismatch', 'writer': 'server-item-data'}})
    # data server: update / eos / cls through the listener
    for i in range(n):
        ev = {g.text(allow_none=False): rng.choice([None, 'v', b'\x01\x02', g.text(allow_none=False)]) for _ in range(rng.choice([0, 1, 3]))}
        item = g.text(allow_none=False)
        with fixture.patched() as env:
            ad = fixture.data_adapter({'issnapshot_available': lambda it: True})
            h = fixture.make_handler()
            srv = fixture.start_data(env, ad, handler=h)
            fixture.feed(srv, '1|DPI|S|ARI.version|S|1.9.1\r\n')
            fixture.feed(srv, wire.encode_line(b'r9', 'SUB', ('WItem', item)).decode('ascii'))
            fixture.drain(srv)
            env.time.now = 1700000000.0 + rng.randint(0, 10 ** 9) / 1000.0
            ad.listener.update(item, ev, bool(i % 2))
            ad.listener.end_of_snapshot(item)
            ad.listener.clear_snapshot(item)
            msgs = fixture.drain(srv)
            ts = int(round(env.time.time() * 1000))
        res.evaluations += 1
        res.count('server:UD3')
        import lightstreamer_adapter.data_protocol as dp
        for msg, w in zip(msgs, [ari.call_writer(dp.write_update_map, item, 'r9', bool(i % 2), ev),
                                 ari.call_writer(dp.write_eos, item, 'r9'), ari.call_writer(dp.write_cls, item, 'r9')]):
            if w[0] == b'ok' and len(msgs) == 3:
                env_calls.append(([sym('envelope_notify'), A(ts), w[1]], msg, {'through': 'DataProviderServer', 'item': item}))
        ok = len(msgs) == 3
        detail = 'lines %r' % (msgs,)
        if ok:
            try:
                ts, body = msgs[0].split('|', 1)
                it, r, s, fs = ari.update(body)
                ok = ts.isdigit() and (it, r, s, fs) == (item, 'r9', bool(i % 2), list(ev.items()))
                ok = ok and ari.item_notify(msgs[1].split('|', 1)[1]) == ('EOS', item, 'r9')
                ok = ok and ari.item_notify(msgs[2].split('|', 1)[1]) == ('CLS', item, 'r9')
            except (ari.Bad, ValueError) as e:
                ok, detail = False, repr(e)
        if not ok:
            res.oracle_violations.append({'case': {'through': 'DataProviderServer', 'item': item, 'events': repr(ev)[:300]}, 'detail': detail,
                                          'key': {'kind': 'decode_mismatch', 'writer': 'server'}})

    outs = ctx.model([c for c, _, _ in env_calls])
    for (c, msg, case), m in zip(env_calls, outs):
        res.evaluations += 1
        res.count('server:envelope')
        got = msg.encode('utf-8', 'surrogatepass')
        if not (isinstance(m, list) and len(m) == 2 and m[0] == got):
            res.disagreements.append({'case': case, 'model': sx.dumps(m)[:500], 'impl': sx.dumps(got)[:500],
                                      'relation': 'Envelope.reply_message / notify_message = message queued by send_reply / @notify _send_notify'})


def search(ctx, res):
    """failing-input search: unsupported values in every text slot + valid corner cases, oracle only"""
    import lightstreamer_adapter.metadata_protocol as mp
    import lightstreamer_adapter.data_protocol as dp
    from lightstreamer_adapter.protocol import RemotingException
    for bad in UNSUP_TEXT() + [b'', '']:
        for fn, args in ((mp.write_get_items, (['a', bad],)), (mp.write_get_schema, ([bad],)), (dp.write_update_map, ('i', 'r', False, {'f': bad})),
                         (dp.write_eos, (bad, 'r')), (dp.write_cls, ('i', bad))):
            supported = bad is None or isinstance(bad, (str, bytes)) and not (fn is dp.write_update_map and False)
            try:
                line = fn(*args)
                raised = None
            except RemotingException:
                line, raised = None, 'remoting'
            except Exception as e:
                line, raised = None, type(e).__name__
            if not supported and raised != 'remoting':
                return {'case': {'writer': fn.__name__, 'args': repr(args)}, 'detail': 'unsupported value gave %r / %r' % (line, raised),
                        'key': {'kind': 'falsy_nontext_as_empty' if (line and not bad) else 'unsupported_not_rejected', 'writer': fn.__name__}}
    g = wire.Gen(ctx.rng)
    for _ in range(3000):
        items = [g.text(allow_none=False, tagged=False) for _ in range(3)]
        line = mp.write_get_items(items)
        try:
            if ari.strings(line) != ('GIS', items):
                raise ari.Bad('mismatch')
        except Exception as e:
            return {'case': {'writer': 'write_get_items', 'args': repr(items)}, 'detail': 'line %r: %r' % (line, e), 'key': {'kind': 'decode_mismatch'}}
        ev = {a: b for a, b in zip(items, [None, 'x y', b'\xff\x00'])}
        line = dp.write_update_map(items[0], 'r', True, ev)
        try:
            if ari.update(line) != (items[0], 'r', True, list(ev.items())):
                raise ari.Bad('mismatch')
        except Exception as e:
            return {'case': {'writer': 'write_update_map', 'args': repr(ev)}, 'detail': 'line %r: %r' % (line, e), 'key': {'kind': 'decode_mismatch'}}
    return None


def replay(ctx, data):
    import lightstreamer_adapter.metadata_protocol as mp
    import lightstreamer_adapter.data_protocol as dp
    from lightstreamer_adapter.protocol import RemotingException
    case = data['case']
    ns = {'Other': Other, 'bytearray': bytearray}
    w = case.get('writer')
    if w in ('write_get_items', 'write_get_schema') and 'value' in case:
        val = eval(case['value'], ns)
        fn = getattr(mp, w)
        try:
            line = fn(val)
        except RemotingException:
            return False, 'raises RemotingException'
        except Exception as e:
            return True, 'raises %r' % (e,)
        try:
            exp = [x.decode() if isinstance(x, bytes) else x for x in (val or [])]
            good = all(x is None or isinstance(x, str) for x in exp) and ari.strings(line)[1] == exp
        except Exception:
            good = False
        return (not good), 'line %r' % (line,)
    return False, 'replay of this case kind is manual: %s' % (data.get('detail'),)
