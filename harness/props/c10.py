"""C10 — see harness/shellprops.py (shared exploration of the connection-level properties)
and harness/shellrun.py (oracle_c10)."""
import shellprops

PID = 'C10'
TRUSTED = shellprops.TRUSTED
ASSUMPTIONS = shellprops.ASSUMPTIONS


def run(ctx, res):
    shellprops.explore(ctx, res, PID)
    # init requests (one, several, none) that are readable while start() is still running
    shellprops.start_races(ctx, res, PID, 320 if ctx.tier == 'quick' else 6000)
    res.rule += '; plus start() on a scheduled thread with the first requests already readable, line-granular preemption (oracle only)'


def search(ctx, res):
    return shellprops.search(ctx, res, PID)


def replay(ctx, data):
    return shellprops.replay(ctx, data, PID)
