"""C15 — inbound framing independent of segmentation.  The real reader loop
(_RequestManager._do_run) is run on the calling thread over a scripted socket
delivering exactly the chosen chunks; the strings handed to the dispatcher are
recorded per chunk and compared with Model/Framing.v (feed) chunk by chunk."""
import itertools

import fixture
import sx
import wire
from sx import sym

TRUSTED = ['C15: socket.recv is scripted by a fake socket; str.splitlines / bytes.decode("ascii") are modelled in Model/Bytes.v (all eight ASCII line boundaries) and pinned by this comparison']
ASSUMPTIONS = ['theorem hypothesis: line bodies contain none of LF CR VT FF FS GS RS (values are percent-encoded); '
               'streams with raw control characters are still compared model-vs-code but are outside the theorem']


RECV = 1024          # the size the reader loop passes to recv()


class ScriptSock:
    def __init__(self, chunks, rm_box, log):
        self.chunks = list(chunks)
        self.k = 0
        self.rm_box = rm_box
        self.log = log
        self.sent = []

    def recv(self, n):
        if self.k < len(self.chunks):
            c = self.chunks[self.k]
            self.k += 1
            self.log.append(('chunk', self.k))
            if c == b'':
                # an empty recv means EOF to the code under test; the harness never
                # delivers empty chunks mid-stream (they are dropped by the caller)
                raise AssertionError('empty chunk')
            if len(c) > n:
                raise AssertionError('chunk longer than the recv() size %d: the caller must pre-split' % n)
            return c
        fixture.find_stop_event(self.rm_box[0]).set()
        return b''

    def sendall(self, d):
        self.sent.append(d)

    def close(self):
        pass


def run_impl(chunks):
    """-> list (per chunk) of dispatched strings, plus 'exception' marker"""
    log = []
    with fixture.patched() as env:
        ad = fixture.metadata_adapter()
        h = fixture.make_handler()
        srv = fixture.start_meta(env, ad, handler=h)
        rm = fixture.find_request_manager(srv)
        srv.on_received_request = lambda req: log.append(('line', req))
        sock = ScriptSock(chunks, [rm], log)
        fixture.reader_entry(srv)(sock)
        exc = len(h.ex) + len(h.io)
    per = []
    cur = None
    for kind, v in log:
        if kind == 'chunk':
            cur = []
            per.append(cur)
        else:
            cur.append(v.encode('ascii'))
    return per, exc


def segmentations(stream, rng, tier):
    n = len(stream)
    segs = []
    segs.append([stream])
    if n <= 400:
        segs.append([stream[i:i + 1] for i in range(n)])
    else:
        k = rng.randint(0, n - 200)          # byte-at-a-time over a window of a long stream
        segs.append([stream[:k]] + [stream[i:i + 1] for i in range(k, k + 200)] + [stream[k + 200:]])
    # every placement of up to 2 cut points (3 for short streams)
    maxlen3 = 26 if tier == 'quick' else 60
    maxlen2 = 90 if tier == 'quick' else 400
    if n <= maxlen2:
        for i in range(1, n):
            segs.append([stream[:i], stream[i:]])
        for i, j in itertools.combinations(range(1, n), 2):
            segs.append([stream[:i], stream[i:j], stream[j:]])
    if n <= maxlen3:
        for i, j, k in itertools.combinations(range(1, n), 3):
            segs.append([stream[:i], stream[i:j], stream[j:k], stream[k:]])
    if n > RECV:
        for size in (RECV, RECV - 1, RECV // 2, 1000):
            segs.append([stream[i:i + size] for i in range(0, n, size)])
        segs.append([stream[:RECV], stream[RECV:RECV + 1], stream[RECV + 1:]])
    for _ in range(10 if tier == 'quick' else 200):
        cuts = sorted(set(rng.randint(1, max(1, n - 1)) for _ in range(rng.randint(1, 12))))
        prev = 0
        s = []
        for c in cuts + [n]:
            if c > prev:
                s.append(stream[prev:c])
                prev = c
        segs.append(s)
    return segs


def run(ctx, res):
    rng = ctx.rng
    g = wire.Gen(rng)
    res.rule = ('streams of 1..6 encoded request lines (all 18 kinds, CRLF and LF mixed) plus an incomplete tail; '
                'segmentations: whole, byte-at-a-time, every placement of 1 and 2 cut points (3 for short streams), '
                'random many-cut; a final LF chunk flushes the tail; also streams with raw control characters and '
                'non-ASCII bytes (model-vs-code only); non-trivial = distinct (stream, segmentation) with >= 2 chunks')
    streams = []
    n_streams = 6 if ctx.tier == 'quick' else 60
    for s in range(n_streams):
        k = rng.randint(1, 6) if s > 1 else 1
        lines = []
        for _ in range(k):
            meth = rng.choice(wire.REQUEST_METHODS)
            q = g.request(meth) if s % 3 else ('WItem', 'i%d' % s) if meth in ('SUB', 'USB') else g.request(meth)
            lines.append(wire.encode_line(g.rid(), meth, q, rng.choice([b'\r\n', b'\n'])))
        tail = rng.choice([b'', b'12|SUB|S|it', b'9|NSC|S|x\r'])
        streams.append((lines, tail, True))
    # long streams: reads that fill the recv() buffer exactly (cuts at multiples of RECV), one byte less, and arbitrary
    for _ in range(2 if ctx.tier == 'quick' else 12):
        lines = []
        while sum(len(l) for l in lines) < 3 * RECV + rng.randint(0, 700):
            meth = rng.choice(wire.REQUEST_METHODS)
            lines.append(wire.encode_line(g.rid(), meth, g.request(meth), rng.choice([b'\r\n', b'\n'])))
        streams.append((lines, rng.choice([b'', b'12|SUB|S|it']), True))
    # lines whose length is exactly the recv size, one less, one more, twice
    for target in (RECV - 1, RECV, RECV + 1, 2 * RECV):
        head = b'7|NSC|S|'
        ln = head + b'x' * (target - len(head) - 2) + b'\r\n'
        assert len(ln) == target
        streams.append(([ln, b'8|NSC|S|y\n'], b'', True))
        streams.append(([b'6|NSC|S|w\r\n', ln], b'9|SUB|S|it', True))
    # short hand-made streams for the exhaustive 3-cut enumeration
    streams.append(([b'1|A|S|x\r\n', b'2|B\n'], b'3|C\r', True))
    streams.append(([b'a\n', b'\r\n', b'b|c\r\n'], b'', True))
    # raw control characters / lone CR / non-ASCII: model-vs-code only
    streams.append(([b'a\x0bb\r\n', b'c\rd\n', b'e\x1cf\x1dg\x1eh\n', b'\x0c\n'], b'x\x85', False))
    streams.append(([b'ok\n', b'bad\xc3\xa9\n', b'after\n'], b'', False))
    calls = []
    metas = []
    for lines, tail, wf in streams:
        stream = b''.join(lines) + tail
        for seg in segmentations(stream, rng, ctx.tier):
            seg = [c for c in seg if c] + [b'\n']
            seg = [c[i:i + RECV] for c in seg for i in range(0, len(c), RECV)]      # a read returns at most RECV bytes
            metas.append((lines, tail, wf, seg))
            calls.append([sym('feed_trace'), b'', seg])
    outs = ctx.model(calls)
    for (lines, tail, wf, seg), o in zip(metas, outs):
        res.evaluations += 1
        res.traces += 1
        per, exc = run_impl(seg)
        case = {'chunks': seg}
        if len(seg) > 2:
            res.nontrivial.add(tuple(seg))
        if sx.is_err(o):
            res.disagreements.append({'case': case, 'model': o, 'impl': per, 'relation': 'model call failed'})
            continue
        mper = []
        mexc = 0
        for x in o[0]:
            if x == b'decode-error':
                mexc = 1
                mper.append([])
            else:
                mper.append(list(x))
        res.count('wf' if wf else 'raw-control')
        if res.evaluations % 5000 == 1:
            res.sample({'chunks': seg, 'dispatched_per_chunk': per})
        if per != mper or (exc > 0) != (mexc > 0):
            res.disagreements.append({'case': case, 'model': [mper, mexc], 'impl': [per, exc],
                                      'relation': 'Framing.feed per chunk = strings dispatched by _do_run per chunk'})
        if wf:
            # oracle: each line exactly once, in order, unmodified, dispatched exactly when its LF has arrived
            flat = [l for c in per for l in c]
            want = list(lines) + [tail + b'\n']
            ok = flat == want and exc == 0
            if ok:
                consumed = 0
                pos = 0
                ends = []
                acc = 0
                for l in want:
                    acc += len(l)
                    ends.append(acc)
                done = 0
                for ci, c in enumerate(seg):
                    consumed += len(c)
                    should = sum(1 for e in ends if e <= consumed)
                    done += len(per[ci])
                    if done != should:
                        ok = False
                        break
            if not ok:
                res.oracle_violations.append({'case': case, 'detail': 'dispatched %r, expected lines %r' % (per, want),
                                              'key': {'stage': 'framing'}})
    # connections one after the other in the same process: what a connection still held (an unterminated line when it
    # ended) never shows up on the next connection
    for i in range(20 if ctx.tier == 'quick' else 300):
        la = [wire.encode_line(g.rid(), 'NSC', ('WNSC', 's%d' % i), b'\r\n')]
        partial = rng.choice([b'77|SUB|S|left', b'8|NUS|S|u|S', b'x'])
        per0, exc0 = run_impl([b''.join(la) + partial])              # ends at EOF holding `partial`
        res.evaluations += 1
        res.count('eof-with-partial-line')
        flat0 = [l for c in per0 for l in c]
        if flat0 != la:
            res.oracle_violations.append({'case': {'chunks': [b''.join(la) + partial], 'then': 'EOF'},
                                          'detail': 'the connection ended after the unterminated fragment %r: dispatched %r, expected only the complete line %r' % (partial, flat0, la),
                                          'key': {'stage': 'eof-partial'}})
        lb = [wire.encode_line(g.rid(), 'USB', ('WItem', 'i%d' % i), rng.choice([b'\r\n', b'\n'])) for _ in range(rng.randint(1, 3))]
        sb = b''.join(lb)
        cut = rng.randint(1, len(sb) - 1)
        per, exc = run_impl([sb[:cut], sb[cut:]])
        res.evaluations += 1
        res.count('connection-sequence')
        flat = [l for c in per for l in c]
        if flat != lb or exc:
            res.oracle_violations.append({'case': {'previous_connection': [b''.join(la) + partial], 'chunks': [sb[:cut], sb[cut:]]},
                                          'detail': 'after a connection that ended holding %r, the next connection dispatched %r, expected %r' % (partial, flat, lb),
                                          'key': {'stage': 'connection-sequence'}})
    res.exhaustive = True
    res.exhaustive_note = 'for every generated stream within the length limits all placements of 1 and 2 cut points (3 for streams <= 26 bytes in quick, 60 in thorough) are enumerated'


def search(ctx, res):
    return None


def replay(ctx, data):
    def raw(cs):
        return [bytes.fromhex(c[4:]) if c.startswith('hex:') else c.encode('latin-1') for c in cs]
    if data['case'].get('previous_connection'):
        run_impl(raw(data['case']['previous_connection']))
    chunks = data['case']['chunks']
    seg = raw(chunks)
    per, exc = run_impl(seg)
    stream = b''.join(seg)
    want = [l + b'\n' for l in stream.split(b'\n')[:-1]]
    flat = [l for c in per for l in c]
    return flat != want, 'dispatched %r, stream lines %r' % (flat, want)
