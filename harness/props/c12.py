"""C12 — keepalive negotiation.  Correspondence: Model/Keepalive.v (ka_after)
against the real servers (init line through on_received_request, observing
server.keep_alive and the interval held by the real _Sender).  Oracle: the
property text restated over those observables."""
from fractions import Fraction
import itertools

import fixture
import sx

TRUSTED = [
    'C12: binary64 arithmetic of keep_alive*1000 and ms/1000 is modelled by exact rationals; results compared with relative tolerance 1e-12 (exactly on grid points, which are exactly representable)',
    'C12: float(hint) is taken as data: the model receives the exact rational value of the parsed float',
]
ASSUMPTIONS = [
    'hints that parse to nan/inf are outside the property domain and are not generated',
    'the interval observed is server.keep_alive and _Sender._keepalive after the init line has been handled (how the writer uses it is C13)',
]

CONFIGURED = [None, -5, -0.5, 0, 0.0005, 0.5, 0.999, 1, 1.001, 5, 6, 9.999, 10, 10.001, 30, 2, 0.0]
HINTS = [None, '-1', '0', '0.5', '1', '499', '500', '999', '999.999', '1000', '1000.001', '1001',
         '4999', '5000', '5001', '9999', '10000', '10001', '1000000000', '1500.5', '2e3', '-510',
         '0.0', '-0.0', '1e-3', '  750  ', '+2500', '1_500',
         # not numbers: no usable hint (the value of the reserved key is whatever the Proxy Adapter sent)
         'abc', '', '0x10', '1,5', '12ms']


def hint_value(h):
    """the number of milliseconds the hint asks for, None when there is no (usable) hint"""
    if h is None:
        return None
    try:
        return Fraction(float(h))
    except ValueError:
        return None


def init_line(kind, hint, outcome):
    meth = 'DPI' if kind == 'data' else 'MPI'
    if outcome == 'refused':
        version = '1.8.2' if kind == 'data' else '1.8.1'
    else:
        version = '1.9.1'
    toks = ['10000010c3e4d0462', meth, 'S', 'ARI.version', 'S', version]
    if hint is not None:
        from urllib.parse import quote_plus
        toks += ['S', 'keepalive_hint.millis', 'S', quote_plus(hint) if hint != '' else '$']
    return '|'.join(toks) + '\r\n'


def run_impl(kind, c, hint, outcome):
    """returns (server.keep_alive, sender._keepalive, reply line, adapter initialized?)"""
    def boom(params, cfg=None):
        from lightstreamer_adapter.interfaces.data import DataProviderError
        from lightstreamer_adapter.interfaces.metadata import MetadataProviderError
        raise (DataProviderError if kind == 'data' else MetadataProviderError)('init failed')
    script = {'initialize': boom} if outcome == 'error' else {}
    with fixture.patched() as env:
        if kind == 'data':
            ad = fixture.data_adapter(script)
            srv = fixture.start_data(env, ad, keep_alive=c)
        else:
            ad = fixture.metadata_adapter(script)
            srv = fixture.start_meta(env, ad, keep_alive=c)
        before = srv.keep_alive
        fixture.drain(srv)
        escaped = None
        try:
            srv.on_received_request(init_line(kind, hint, outcome))
        except Exception as ex:      # nothing may come out of the request dispatcher
            escaped = repr(ex)
        msgs = fixture.drain(srv)
        ka = srv.keep_alive
        ska = fixture.sender_keepalive(fixture.find_sender(srv))
        inited = any(cl[0] == 'initialize' for cl in ad.calls)
    return before, ka, ska, msgs, inited, escaped


def close(a, b):
    a = Fraction(a)
    b = Fraction(b)
    if a == b:
        return True
    return abs(a - b) <= Fraction(1, 10 ** 12) * max(abs(a), abs(b))


def oracle(c, hint_val, ka):
    """the property text, over exact rationals; returns None or a message"""
    ka = Fraction(ka)
    configured = Fraction(10) if c is None else max(Fraction(0), Fraction(c))
    if hint_val is None:
        exp = Fraction(1) if c is None else configured
        return None if close(ka, exp) else 'no hint: interval %s, expected %s' % (ka, exp)
    h = Fraction(hint_val)
    if h <= 0:
        return None if close(ka, configured) else 'non-positive hint changed the interval: %s, expected %s' % (ka, configured)
    # positive hint
    bound = max(h / 1000, Fraction(1))
    if not (ka > 0):
        return 'positive hint %s ms but keepalives are disabled afterwards (interval %s)' % (h, ka)
    if ka > bound * (1 + Fraction(1, 10 ** 12)):
        return 'positive hint %s ms but interval %s s exceeds max(hint, 1 s) = %s' % (h, ka, bound)
    if c is None:
        base = Fraction(10000)
    elif Fraction(c) > 0:
        base = Fraction(c) * 1000
    else:
        base = None
    # strictly inside a branch (away from the rounding boundary) the value is determined
    if base is None or h < base * (1 - Fraction(1, 10 ** 9)):
        exp = max(h, Fraction(1000)) / 1000
        if not close(ka, exp):
            return 'stricter positive hint %s ms not adopted with the 1 s floor: interval %s, expected %s' % (h, ka, exp)
    elif h > base * (1 + Fraction(1, 10 ** 9)):
        if not close(ka, configured):
            return 'laxer hint %s ms changed the interval: %s, expected %s' % (h, ka, configured)
    return None


def finding_key(c, hint_val):
    key = {}
    if c is not None and Fraction(c) <= 0:
        key['configured'] = 'off'
    elif c is None:
        key['configured'] = 'none'
    else:
        key['configured'] = 'positive'
    if hint_val is None:
        key['hint'] = 'absent'
    elif hint_val <= 0:
        key['hint'] = 'nonpositive'
    elif hint_val < 1000:
        key['hint'] = 'below_floor'
    else:
        key['hint'] = 'at_or_above_floor'
    return key


def cases(ctx):
    out = []
    grid_h = list(HINTS)
    for c in CONFIGURED:
        hs = list(grid_h)
        if c is not None and c > 0:
            ms = c * 1000
            hs += [repr(float(ms) - 1), repr(float(ms)), repr(float(ms) + 1)]
        for h in hs:
            out.append((c, h))
    n_rand = 300 if ctx.tier == 'quick' else 120000
    rng = ctx.rng
    for _ in range(n_rand):
        r = rng.random()
        if r < 0.2:
            c = None
        elif r < 0.4:
            c = rng.choice([0, -1, -0.25, 0.0])
        else:
            c = rng.choice([rng.randint(1, 40), round(rng.uniform(0.001, 30), rng.randint(0, 4))])
        r = rng.random()
        if r < 0.1:
            h = None
        elif r < 0.25:
            h = repr(-rng.randint(0, 20000))
        elif r < 0.6:
            h = str(rng.randint(1, 30000))
        else:
            h = repr(round(rng.uniform(0.0001, 40000), rng.randint(0, 3)))
        out.append((c, h))
    return out


def one(ctx, kind, c, hint, outcome):
    before, ka, ska, msgs, inited, escaped = run_impl(kind, c, hint, outcome)
    return {'kind': kind, 'configured': c, 'hint': hint, 'outcome': outcome,
            'before': before, 'ka': ka, 'sender_ka': ska, 'msgs': msgs, 'inited': inited, 'escaped': escaped}


def run(ctx, res):
    cs = cases(ctx)
    res.rule = ('grid of configured intervals x hint strings (boundaries around 1000 ms, 10000 ms and '
                'configured*1000 ms +-1, decimal/exponent spellings) x {data,metadata} x init outcome '
                '{ok, adapter error, version refused}, plus seeded random (configured, hint) pairs; each run '
                'through the real server (init line -> on_received_request) and through the extracted model; '
                'non-trivial = distinct (configured, hint) with a positive hint (the decision tree beyond its first test)')
    kinds_outcomes = [('data', 'ok'), ('metadata', 'ok'), ('data', 'error'), ('metadata', 'refused'),
                      ('data', 'refused'), ('metadata', 'error')]
    calls = []
    runs = []
    for idx, (c, h) in enumerate(cs):
        hv = hint_value(h)
        # the full outcome matrix on the grid; random cases rotate through it
        kos = kinds_outcomes if idx < len(CONFIGURED) * (len(HINTS) + 3) else [kinds_outcomes[idx % 6]]
        for kind, outcome in kos:
            r = one(ctx, kind, c, h, outcome)
            runs.append((c, h, hv, r))
            calls.append([sx.sym('ka_after'), sx.opt(None if c is None else Fraction(c), sx.Q), sx.opt(hv, sx.Q)])
    outs = ctx.model(calls)
    for (c, h, hv, r), o in zip(runs, outs):
        res.evaluations += 1
        res.traces += 1
        case = {'kind': r['kind'], 'configured': c, 'hint': h, 'init_outcome': r['outcome']}
        if r['escaped']:
            res.oracle_violations.append({'case': case, 'detail': 'an exception escaped the request dispatcher while handling the init request: %s' % r['escaped'],
                                          'key': {'kind': 'init_crashed', 'hint': 'malformed' if (h is not None and hv is None) else 'number'}})
        if sx.is_err(o):
            res.disagreements.append({'case': case, 'model': o, 'impl': r['ka'], 'relation': 'model call failed'})
            continue
        mka = sx.unQ(o[0])
        branch = o[1].decode()
        res.count(branch)
        if hv is not None and hv > 0:
            res.nontrivial.add((repr(c), h))
        res.sample({'case': case, 'impl_keep_alive': r['ka'], 'model_keep_alive': str(mka), 'branch': branch})
        # correspondence (skipped within one rounding step of the h = configured*1000
        # boundary, where binary64 and exact arithmetic may take different branches;
        # the oracle still applies there)
        if hv is not None and c is not None and Fraction(c) > 0 and \
                abs(hv - Fraction(c) * 1000) <= Fraction(1, 10 ** 9) * Fraction(c) * 1000 and \
                hv != Fraction(c) * 1000:
            res.count('rounding_boundary_skipped')
            res.unmodelled += 1
            msg = oracle(c, hv, r['ka'])
            if msg:
                res.oracle_violations.append({'case': case, 'detail': msg, 'key': finding_key(c, hv)})
            continue
        cb = Fraction(10) if c is None else max(Fraction(0), Fraction(c))
        if not close(r['before'], cb):
            res.disagreements.append({'case': case, 'model': str(cb), 'impl': r['before'],
                                      'relation': 'ka_init = server.keep_alive before init'})
        if not close(r['ka'], mka):
            res.disagreements.append({'case': case, 'model': str(mka), 'impl': r['ka'],
                                      'relation': 'ka_after = server.keep_alive after init', 'branch': branch})
        if not close(r['sender_ka'], mka):
            res.disagreements.append({'case': case, 'model': str(mka), 'impl': r['sender_ka'],
                                      'relation': 'ka_after = interval held by the writer after init', 'branch': branch})
        # oracle on the implementation (both the public property and what the writer will use)
        for obs, what in ((r['ka'], 'server.keep_alive'), (r['sender_ka'], 'writer interval')):
            msg = oracle(c, hv, obs)
            if msg:
                res.oracle_violations.append({'case': case, 'detail': what + ': ' + msg,
                                              'key': finding_key(c, hv)})
                break
    res.exhaustive = True
    res.exhaustive_note = 'the boundary grid (%d configured x %d+ hints x 6 kind/outcome combinations) is enumerated completely; random pairs are sampled' % (len(CONFIGURED), len(HINTS))


def search(ctx, res):
    """after a broken obligation / disagreement: oracle over a denser grid"""
    for c in CONFIGURED + [0.25, 0.75, 3, 7, 12, 20]:
        hs = [None] + [repr(x) for x in (-2, 0, 0.25, 1, 250, 499.5, 500, 750, 999, 1000, 1001, 1500, 2500,
                                         4000, 5000, 7500, 9999, 10000, 10001, 15000, 50000)]
        for h in hs:
            for kind, outcome in (('data', 'ok'), ('metadata', 'ok'), ('metadata', 'refused'), ('data', 'error')):
                r = one(ctx, kind, c, h, outcome)
                hv = hint_value(h)
                for obs, what in ((r['ka'], 'server.keep_alive'), (r['sender_ka'], 'writer interval')):
                    msg = oracle(c, hv, obs)
                    if msg:
                        return {'case': {'kind': kind, 'configured': c, 'hint': h, 'init_outcome': outcome},
                                'detail': what + ': ' + msg, 'key': finding_key(c, hv)}
    return None


def replay(ctx, data):
    case = data['case']
    r = one(ctx, case['kind'], case['configured'], case['hint'], case['init_outcome'])
    hv = hint_value(case['hint'])
    if r['escaped']:
        return True, 'an exception escaped the request dispatcher: %s' % r['escaped']
    for obs, what in ((r['ka'], 'server.keep_alive'), (r['sender_ka'], 'writer interval')):
        msg = oracle(case['configured'], hv, obs)
        if msg:
            return True, what + ': ' + msg
    return False, 'oracle satisfied: keep_alive=%r' % (r['ka'],)
