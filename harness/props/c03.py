"""C03 — see harness/itemprops.py (shared exploration of the Data-server item properties)
and harness/datarun.py (oracle_c03)."""
import itemprops

PID = 'C03'
TRUSTED = itemprops.TRUSTED
ASSUMPTIONS = itemprops.ASSUMPTIONS


def run(ctx, res):
    itemprops.explore(ctx, res, PID)


def minimise(ctx, v):
    return itemprops.minimise(ctx, v, PID)


def search(ctx, res):
    return itemprops.search(ctx, res, PID)


def replay(ctx, data):
    return itemprops.replay(ctx, data, PID)
