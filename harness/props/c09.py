"""C09 — malformed requests fail cleanly.
Correspondence: Readers.read_request (Coq) vs the real decorated read_* functions on a
malformed stream (every truncation, every marker replaced, every typed value
corrupted, token deletion / duplication, random token lists) — result AND
message text compared; then malformed-then-valid sequences through both real
servers.  Oracle: only the library's protocol error naming the method escapes;
the mutation classes the property names are rejected; no adapter call, no
reply, one handler call (Data default: one FAL), service continues."""
import fixture
import sx
import wire
from sx import sym, A

TRUSTED = ['C09: int() is modelled on ASCII tokens (the reader decodes ASCII only) up to 4300 digits; longer numerals are counted as unmodelled']
ASSUMPTIONS = ['tokens are ASCII strings without the separator (they come from str.split on a decoded ASCII line)']

FIXED = {'DPI': 0, 'MPI': 0, 'GIT': 0, 'SUB': 2, 'USB': 2, 'NSC': 2, 'GUI': 2, 'NTC': 2, 'NUS': 4, 'NNS': 4, 'NNT': 4,
         'NUA': 6, 'GIS': 6, 'NUM': 6, 'GSC': 8, 'MDA': 10, 'MDC': 12, 'MSA': 26}
MARKERS = ['S', 'I', 'M', 'P', 'B', 'D', 'X', '', 's', 'SS', '#', '$', '{', '}', '{0}', '{x}', '{}', '%s']
BAD_INT = ['x', '', '1.0', '1e3', '0x10', '--1', '1-', '1 2', '_1', '1_', '1__0', 'None', '#', '$', '+', '-', 'I',
           '{', '}', '{0}', '{x}', '{}', '%s', '%(a)s', '{0.__class__}']
PY_INT = ['+2', '1_0', ' 3 ', '-0', '007', '\t5']          # accepted by int(): not malformed
BAD_MODE = ['X', 'Q', 'raw', 'x', '1', ' ', 'ZM', '%52', '{', '}', '{0}', '{x}', '%s',
            # unknown codes that merely BEGIN with the letter of a mode
            'RAW', 'Mx', 'CD', 'MM', 'M ', 'MERGE', 'RMDC', 'M#', 'C$']
OK_MODE = ['R', 'M', 'D', 'C', '#', '$']
BAD_PLAT = ['X', 'a', 'AG', 'APPLE', ' ', '1', 'A ', '', '{', '}', '{0}', '{x}', '%s']
OK_PLAT = ['A', 'G', '#', '$']


def decorated_check():
    """every reader of the 18 request methods turns ANY failure of its body into the protocol error naming the method
    (what remoting_exception_on_parse is for), however that wrapper is written: probed with an argument that makes the
    body fail with a foreign exception (None instead of the token list)"""
    from lightstreamer_adapter.protocol import RemotingException
    bad = []
    for meth in wire.REQUEST_METHODS:
        f = wire.reader_of(meth)
        try:
            f(None)
            bad.append(meth)                       # accepted None as a token list
        except RemotingException as ex:
            if not str(ex).endswith('while parsing %s request' % meth):
                bad.append(meth)
        except Exception:
            bad.append(meth)
    return bad


def positions(meth, toks):
    """classify token positions of a well-formed token list: marker positions and typed values"""
    out = []
    for i in range(0, len(toks) - 1, 2):
        out.append((i, toks[i]))
    return out


def mutations(rng, meth, toks, tier):
    """-> list of (tokens, klass, must_reject)"""
    out = []
    n = len(toks)
    fx = FIXED[meth]
    for k in range(n):
        must = k < fx
        if meth in ('NNT', 'NTC') and k >= fx and (k - fx) % 14 != 0:
            must = True
        out.append((toks[:k], 'truncate', must))
    for i, mk in positions(meth, toks):
        for t in MARKERS:
            if t != mk:
                must = i < fx or meth in ('NNT', 'NTC', 'GIT', 'GUI')
                if meth in ('DPI', 'MPI', 'NUS', 'NUA', 'NNS') and i >= fx:
                    # inside a map: a trailing half pair is ignored by design, every complete pair is read
                    tail = n - fx
                    must = (i - fx) < (tail - tail % 4) if tail % 4 == 0 else False
                out.append((toks[:i] + [t] + toks[i + 1:], 'marker', must))
        v = i + 1
        if mk == 'I':
            for t in BAD_INT:
                out.append((toks[:v] + [t] + toks[v + 1:], 'bad-int', True))
            for t in PY_INT:
                out.append((toks[:v] + [t] + toks[v + 1:], 'py-int', False))
        elif mk == 'M':
            for t in BAD_MODE:
                out.append((toks[:v] + [t] + toks[v + 1:], 'bad-mode', True))
            for t in OK_MODE:
                out.append((toks[:v] + [t] + toks[v + 1:], 'ok-mode', False))
        elif mk == 'P':
            for t in BAD_PLAT:
                out.append((toks[:v] + [t] + toks[v + 1:], 'bad-platform', True))
            for t in OK_PLAT:
                out.append((toks[:v] + [t] + toks[v + 1:], 'ok-platform', False))
    for _ in range(6 if tier == 'quick' else 40):
        if n:
            i = rng.randrange(n)
            out.append((toks[:i] + toks[i + 1:], 'delete', False))
            out.append((toks[:i] + [toks[i]] + toks[i:], 'duplicate', False))
    for _ in range(6 if tier == 'quick' else 60):
        k = rng.randint(0, 30)
        out.append(([rng.choice(['S', 'I', 'M', 'P', '#', '$', '1', '-5', 'x', 'R', 'A', 'a+b', '%41', '']) for _ in range(k)], 'random', False))
    return out


def run(ctx, res):
    rng = ctx.rng
    g = wire.Gen(rng)
    res.rule = ('per method: well-formed requests, then every truncation, every type marker replaced by each other marker and junk, every I / M / P '
                'value replaced by values outside and inside its grammar, token deletion / duplication, random token lists; each decoded by the real '
                'decorated read_* and by the model (result and message compared); malformed-then-valid sequences through both servers; '
                'non-trivial = distinct mutated token lists that are rejected')
    und = decorated_check()
    if und:
        res.oracle_violations.append({'case': {'methods': und}, 'detail': 'read_* functions without the remoting_exception_on_parse wrapper: %r' % und,
                                      'key': {'kind': 'undecorated', 'methods': und}})
    per = 2 if ctx.tier == 'quick' else 25
    cases = []
    for meth in wire.REQUEST_METHODS:
        for _ in range(per):
            q = g.request(meth)
            toks = [t.decode('ascii') for t in wire.encode_args(q)]
            cases.append((meth, toks, 'valid', False))
            for mt, klass, must in mutations(rng, meth, toks, ctx.tier):
                cases.append((meth, mt, klass, must))
    outs = ctx.model([[sym('read_request'), sym(m), [t.encode('ascii') for t in toks]] for m, toks, _, _ in cases])
    for (meth, toks, klass, must), mo in zip(cases, outs):
        res.evaluations += 1
        res.count(klass)
        kind, val = wire.impl_read(meth, toks)
        impl = [sym('ok'), val] if kind == 'ok' else [sym('err'), val] if kind == 'err' else [sym('other'), val.encode()]
        case = {'method': meth, 'tokens': toks, 'class': klass}
        if kind == 'other':
            res.oracle_violations.append({'case': case, 'detail': 'exception %s escaped the reader instead of the protocol error' % val,
                                          'key': {'kind': 'foreign_exception', 'method': meth, 'exception': val}})
        elif kind == 'err':
            res.nontrivial.add((meth, tuple(toks)))
            if meth.encode() not in val:
                res.oracle_violations.append({'case': case, 'detail': 'protocol error does not name the method: %r' % val, 'key': {'kind': 'unnamed_error', 'method': meth}})
        elif must:
            res.oracle_violations.append({'case': case, 'detail': 'malformed request (%s) was decoded: %s' % (klass, sx.dumps(val)[:300]),
                                          'key': {'kind': 'malformed_accepted', 'method': meth, 'class': klass}})
        elif klass == 'valid' and kind != 'ok':
            res.oracle_violations.append({'case': case, 'detail': 'well-formed request rejected', 'key': {'kind': 'valid_rejected', 'method': meth}})
        if mo != impl:
            if any(len(t) > 4000 for t in toks) or not wire.valid_utf8_everywhere(mo):
                res.unmodelled += 1
            else:
                res.disagreements.append({'case': case, 'model': sx.dumps(mo)[:500], 'impl': sx.dumps(impl)[:500], 'relation': 'Readers.read_request = decorated read_*'})
        if res.evaluations % 1500 == 0:
            res.sample({'method': meth, 'class': klass, 'tokens': toks[:12], 'result': sx.dumps(impl)[:160]})
    try:
        servers(ctx, res)
    except Exception as e:      # an exception escaping on_received_request is itself a violation of the property
        import traceback
        res.oracle_violations.append({'case': {'server': 'inert'}, 'detail': 'an exception escaped Server.on_received_request: %r' % (e,),
                                      'key': {'kind': 'escaped_dispatcher'}})
    pipelined(ctx, res)
    res.traces = res.evaluations


VALID_AFTER = {'meta': ('9|NSC|S|s9', ('notify_session_close', 's9'), '9|NSC|V'), 'data': ('9|SUB|S|it9', ('subscribe', 'it9'), '9|SUB|V')}


def servers(ctx, res):
    rng = ctx.rng
    g = wire.Gen(rng)
    n = 3 if ctx.tier == 'quick' else 30
    for kind in ('meta', 'data'):
        meths = [m for m in wire.REQUEST_METHODS if (m in ('SUB', 'USB')) == (kind == 'data') and m not in ('DPI', 'MPI')]
        for meth in meths:
            for _ in range(n):
                q = g.request(meth)
                toks = [t.decode('ascii') for t in wire.encode_args(q)]
                muts = [m for m in mutations(rng, meth, toks, 'quick') if m[2]]
                if not muts:
                    continue
                mt, klass, _ = rng.choice(muts)
                bad_line = '|'.join(['77', meth] + mt)
                if mt and mt[-1] == '':
                    continue        # a trailing empty token is stripped by parse_request: a different request
                if any(t == '' for t in mt):
                    continue        # empty tokens are dropped by parse_request
                with fixture.patched() as env:
                    h = fixture.make_handler()
                    if kind == 'meta':
                        ad = fixture.metadata_adapter({'notify_session_close': lambda s: None})
                        srv = fixture.start_meta(env, ad, handler=h)
                        fixture.feed(srv, '1|MPI|S|ARI.version|S|1.8.3\r\n')
                    else:
                        ad = fixture.data_adapter({'issnapshot_available': lambda i: True})
                        srv = fixture.start_data(env, ad, handler=h)
                        fixture.feed(srv, '1|DPI|S|ARI.version|S|1.9.1\r\n')
                    fixture.drain(srv)
                    n0 = len(ad.calls)
                    fixture.feed(srv, bad_line + '\r\n')
                    calls_bad = ad.calls[n0:]
                    msgs_bad = fixture.drain(srv)
                    nex = len(h.ex)
                    vline, vcall, vreply = VALID_AFTER[kind]
                    fixture.feed(srv, vline + '\r\n')
                    calls_ok = [c for c in ad.calls[n0 + len(calls_bad):] if c[0] != 'issnapshot_available']
                    msgs_ok = fixture.drain(srv)
                res.evaluations += 1
                res.count('server:' + kind)
                bad = None
                if calls_bad:
                    bad = 'malformed request was delivered to the adapter: %r' % (calls_bad,)
                elif msgs_bad:
                    bad = 'malformed request was answered / notified: %r' % (msgs_bad,)
                elif nex != 1:
                    bad = 'exception handler invoked %d times' % nex
                elif calls_ok != [vcall] or msgs_ok != [vreply]:
                    bad = 'service did not continue normally: calls %r, lines %r' % (calls_ok, msgs_ok)
                if bad:
                    res.oracle_violations.append({'case': {'server': kind, 'method': meth, 'line': bad_line, 'class': klass}, 'detail': bad,
                                                  'key': {'kind': 'server_malformed', 'method': meth}})
    # Data default handling (no handler installed): one FAL notification
    with fixture.patched() as env:
        ad = fixture.data_adapter({'issnapshot_available': lambda i: True})
        srv = fixture.start_data(env, ad)
        fixture.feed(srv, '1|DPI|S|ARI.version|S|1.9.1\r\n')
        fixture.drain(srv)
        import io
        import contextlib
        with contextlib.redirect_stderr(io.StringIO()):
            fixture.feed(srv, '5|SUB|X|item\r\n')
        msgs = fixture.drain(srv)
        fixture.feed(srv, '6|SUB|S|item\r\n')
        later = fixture.drain(srv)
    res.evaluations += 1
    ok = len(msgs) == 1 and msgs[0].split('|')[1:3] == ['FAL', 'E'] and later == ['6|SUB|V'] and ('subscribe', 'item') in ad.calls
    if not ok:
        res.oracle_violations.append({'case': {'server': 'data', 'line': '5|SUB|X|item', 'handler': 'default'},
                                      'detail': 'default handling: lines %r then %r' % (msgs, later), 'key': {'kind': 'server_malformed', 'method': 'SUB'}})


def pipelined(ctx, res):
    """malformed and well-formed requests pipelined through the real reader loop, pool and writer under the scheduler
    (shared machinery of the connection-level properties): rejected lines reach neither adapter nor wire, service continues"""
    import random
    import shellprops
    import shellrun
    n = 2000 if ctx.tier == 'quick' else 8000
    digs = shellprops.run_many('C09', ctx.rng.getrandbits(40), n)
    for d in digs:
        res.evaluations += 1
        res.count('pipelined:' + d['kind'])
        for v in d['viol']:
            res.oracle_violations.append(v)
    for x in shellprops.compare_digests(ctx, [d for d in digs if not d.get('fine')]):      # line-granular runs are oracle-only
        if x.get('unmodelled'):
            res.unmodelled += 1
        else:
            res.disagreements.append(x)
    # malformed requests that are readable while start() is still running
    shellprops.start_races(ctx, res, 'C09', 320 if ctx.tier == 'quick' else 6000)


def search(ctx, res):
    rng = ctx.rng
    g = wire.Gen(rng)
    for meth in wire.REQUEST_METHODS:
        for _ in range(6):
            q = g.request(meth)
            toks = [t.decode('ascii') for t in wire.encode_args(q)]
            for mt, klass, must in mutations(rng, meth, toks, 'thorough'):
                kind, val = wire.impl_read(meth, mt)
                if kind == 'other':
                    return {'case': {'method': meth, 'tokens': mt, 'class': klass}, 'detail': 'exception %s escaped the reader' % val,
                            'key': {'kind': 'foreign_exception', 'method': meth, 'exception': val}}
                if kind == 'ok' and must:
                    return {'case': {'method': meth, 'tokens': mt, 'class': klass}, 'detail': 'malformed request decoded', 'key': {'kind': 'malformed_accepted', 'method': meth, 'class': klass}}
                if kind == 'err' and meth.encode() not in val:
                    return {'case': {'method': meth, 'tokens': mt, 'class': klass}, 'detail': 'error does not name the method', 'key': {'kind': 'unnamed_error', 'method': meth}}
    return None


def replay(ctx, data):
    c = data['case']
    if 'tokens' in c:
        kind, val = wire.impl_read(c['method'], c['tokens'])
        k = data.get('key', {}).get('kind')
        fails = (kind == 'other') or (k == 'malformed_accepted' and kind == 'ok') or (k == 'unnamed_error' and kind == 'err' and c['method'].encode() not in val)
        return fails, 'read_%s -> %s %r' % (c['method'], kind, val if kind != 'ok' else sx.dumps(val)[:300])
    if 'methods' in c:
        und = decorated_check()
        return bool(und), 'undecorated readers: %r' % und
    return False, 'server-level case: replay by re-running the check (detail: %s)' % data.get('detail')
