"""C05 — text codec.  Correspondence: Codec.encode_utext / decode_utext (Coq,
over Unicode scalar values through Utf8.v and Quote.v) vs protocol.encode_string /
decode_string.  Oracle (from the property text): token alphabet, non-emptiness,
round trip, '#'/'$' only for None/'' (collision table over the whole corpus),
decoding of alternative percent-encodings."""
import itertools

import sx
import wire
from sx import sym, A

TRUSTED = ['C05: urllib.parse.quote_plus / unquote_plus and str.encode("utf-8") / bytes.decode are modelled by hand '
           '(Model/Quote.v, Model/Utf8.v) and pinned per scalar value / per byte by this comparison',
           'C05: invalid UTF-8 after unquoting (errors="replace") is outside the property and outside the model (counted as unmodelled)']
ASSUMPTIONS = ['text values: None, or str without lone surrogates']

ALPHABET = set(b'ABCDEFGHIJKLMNOPQRSTUVWXYZabcdefghijklmnopqrstuvwxyz0123456789_.-~+%')
ALPHABET_STR = set('ABCDEFGHIJKLMNOPQRSTUVWXYZabcdefghijklmnopqrstuvwxyz0123456789_.-~+%#$')
RES3 = ['|', '#', '$', '%', '+', '*', '~', ' ', '\r', '\n', '\x00', 'é', '€', '😀',
        'a', 'Z', '0', '_', '.', '-', '/', '=', '&', '?', '"']


def scalars_of(s):
    return [A(ord(c)) for c in s]


def sx_utext(v):
    return sym('none') if v is None else [sym('some'), scalars_of(v)]


def alt_encodings(rng, s, k):
    """k random alternative standard URL-encodings of the UTF-8 bytes of s (independent of the model)"""
    b = s.encode('utf-8')
    out = []
    for _ in range(k):
        t = bytearray()
        for c in b:
            r = rng.random()
            lit_ok = c < 0x80 and c not in (0x25, 0x2B)
            std_lit = chr(c).isalnum() and c < 0x80 or c in b'.-_~*'
            if c == 0x20 and r < 0.5:
                t += b'+'
            elif std_lit and r < 0.6:
                t.append(c)
            elif lit_ok and r < 0.15:
                t.append(c)          # literal of a non-standard but harmless ASCII byte
            else:
                h = '%02X' % c
                h = ''.join(ch.lower() if rng.random() < 0.5 else ch for ch in h)
                t += b'%' + h.encode()
        out.append(bytes(t))
    return out


def corpus(ctx):
    rng = ctx.rng
    vals = [None, '']
    # every scalar (thorough) or all < 0x800 + boundaries + stride (quick)
    if ctx.tier == 'thorough':
        cps = [c for c in range(0x110000) if not 0xD800 <= c <= 0xDFFF]
    else:
        cps = set(range(0x800))
        for b in (0x7F, 0x80, 0x7FF, 0x800, 0xFFF, 0x1000, 0xCFFF, 0xD000, 0xD7FF, 0xE000, 0xFFFD, 0xFFFE, 0xFFFF, 0x10000,
                  0x10001, 0x3FFFF, 0x40000, 0xFFFFF, 0x100000, 0x10FFFE, 0x10FFFF):
            cps.add(b)
        stride = 257 + rng.randrange(64)
        cps.update(range(rng.randrange(stride), 0x110000, stride))
        cps = sorted(c for c in cps if not 0xD800 <= c <= 0xDFFF)
    nscal = len(cps)
    vals += [chr(c) for c in cps]
    # all strings of length <= 3 over the reserved alphabet (thorough: all; quick: <=2 plus a sample of 3)
    for n in (1, 2):
        vals += [''.join(t) for t in itertools.product(RES3, repeat=n)]
    triples = [''.join(t) for t in itertools.product(RES3, repeat=3)]
    if ctx.tier == 'quick':
        triples = rng.sample(triples, 3000)
    vals += triples
    g = wire.Gen(rng)
    nrand = 2000 if ctx.tier == 'quick' else 40000
    for i in range(nrand):
        v = g.text(tagged=(i % 2 == 0))
        if v is not None and rng.random() < 0.05:
            v = v * rng.randint(2, 40)
        vals.append(v)
    return vals, nscal


def run(ctx, res):
    from lightstreamer_adapter import protocol
    rng = ctx.rng
    vals, nscal = corpus(ctx)
    res.rule = ('values: None, "", every Unicode scalar value as a 1-char string (thorough: all 1,112,064; quick: all < U+0800, '
                'all UTF-8 length-class and surrogate-gap boundaries, a seeded stride of the rest), strings of length <= 3 over '
                'a 25-character reserved alphabet (thorough: all; quick: all <= 2 and 3000 of length 3), random mixed strings; '
                'each encoded by protocol.encode_string and by the model, decoded back by both; plus random alternative '
                'percent-encodings and malformed escapes for the decoder; non-trivial = distinct values whose token needs at least one escape')
    res.exhaustive = ctx.tier == 'thorough'
    res.exhaustive_note = ('all Unicode scalar values and all strings of length <= 3 over the reserved alphabet' if res.exhaustive
                           else 'all scalar values below U+0800 and all strings of length <= 2 over the reserved alphabet')
    enc_m = ctx.model([[sym('encode_utext'), sx_utext(v)] for v in vals])
    toks = []
    seen = {}
    for v, em in zip(vals, enc_m):
        res.evaluations += 1
        tok = protocol.encode_string(v)
        tb = tok.encode('ascii', 'replace') if isinstance(tok, str) else b'<non-str>'
        toks.append(tb)
        key = {'value': v if v is None else [ord(c) for c in v][:64]}
        # oracle
        bad = None
        if not isinstance(tok, str) or tok == '':
            bad = 'token is empty or not a str'
        elif any(c not in ALPHABET for c in tb) and tb not in (b'#', b'$'):
            bad = 'token %r has a character outside A-Za-z0-9_.-~+%%' % tok
        elif (tb == b'#') != (v is None) or (tb == b'$') != (v == ''):
            bad = "'#'/'$' not reserved for None/'' (value %r gives %r)" % (v, tok)
        elif protocol.decode_string(tok) != v:
            bad = 'round trip: %r -> %r -> %r' % (v, tok, protocol.decode_string(tok))
        elif tb in seen and seen[tb] != v:
            bad = 'collision: %r and %r both encode to %r' % (seen[tb], v, tok)
        seen[tb] = v
        if bad:
            res.oracle_violations.append({'case': {'value_scalars': key['value'], 'token': tb}, 'detail': bad,
                                          'key': {'stage': 'encode', 'none': v is None, 'empty': v == ''}})
        if sx.is_err(em) or em != tb:
            res.disagreements.append({'case': key, 'model': em, 'impl': tb, 'relation': 'Codec.encode_utext = protocol.encode_string'})
        if b'%' in tb or b'+' in tb:
            res.nontrivial.add(tb)
        if v is None:
            res.count('none')
        elif v == '':
            res.count('empty')
        elif len(v) == 1:
            res.count('scalar:%d-byte' % len(v.encode('utf-8')))
        else:
            res.count('string')
    res.extra['scalar_values_covered'] = nscal
    res.sample({'value': 'a b|é€😀', 'token': protocol.encode_string('a b|é€😀')})
    # decoder: model vs code on every produced token
    dec_m = ctx.model([[sym('decode_utext'), t] for t in toks])
    for v, t, dm in zip(vals, toks, dec_m):
        exp = [sym('ok'), sx_utext(v)]
        if dm != exp:
            res.disagreements.append({'case': {'token': t}, 'model': dm, 'impl': exp,
                                      'relation': 'Codec.decode_utext(token) = protocol.decode_string(token)'})
    # alternative encodings + malformed escapes
    alts = []
    base = [v for v in vals[2 + nscal:] if v][:: (3 if ctx.tier == 'quick' else 1)]
    base += [chr(c) for c in (0x20, 0x2A, 0x7E, 0x2B, 0x25, 0xE9, 0x20AC, 0x1F600)]
    for v in base:
        for t in alt_encodings(rng, v, 2):
            if t not in (b'#', b'$'):
                alts.append((v, t))
    mal = [b'%', b'%z', b'%zz', b'a%', b'%4', b'%4g', b'%G1', b'100%', b'%%41', b'%2', b'+%', b'%e9', b'%C3', b'%ff%fe', b'a%C3%28']
    dec_alt = ctx.model([[sym('decode_utext'), t] for _, t in alts] + [[sym('decode_utext'), t] for t in mal])
    for (v, t), dm in zip(alts, dec_alt):
        res.evaluations += 1
        res.count('alt-encoding')
        got = protocol.decode_string(t.decode('ascii'))
        if got != v:
            res.oracle_violations.append({'case': {'token': t, 'value_scalars': [ord(c) for c in v][:64]},
                                          'detail': 'alternative encoding %r decodes to %r, expected %r' % (t, got, v),
                                          'key': {'stage': 'alt-decode'}})
        if dm != [sym('ok'), sx_utext(got)]:
            res.disagreements.append({'case': {'token': t}, 'model': dm, 'impl': got,
                                      'relation': 'Codec.decode_utext = protocol.decode_string (alternative encodings)'})
        res.nontrivial.add(t)
    for t, dm in zip(mal, dec_alt[len(alts):]):
        res.evaluations += 1
        res.count('malformed-escape')
        got = protocol.decode_string(t.decode('ascii'))
        if dm == sym('invalid-utf8'):
            res.unmodelled += 1
            continue
        if dm != [sym('ok'), sx_utext(got)]:
            res.disagreements.append({'case': {'token': t}, 'model': dm, 'impl': got,
                                      'relation': 'Codec.decode_utext = protocol.decode_string (malformed escapes)'})
    use_sites(ctx, res, vals)
    concurrent_use(ctx, res)
    res.traces = res.evaluations


def concurrent_use(ctx, res):
    """the codec is a function of its argument also when several threads use it at once: two or three scheduled threads
    encode / decode different values with every source line of protocol.py a preemption point; each result must be the one
    a lone caller gets"""
    import random
    import dsched
    from lightstreamer_adapter import protocol
    pool = ['a b', 'item|1', 'x', 'y', '', None, '#', 'gr\u00f6\u00dfe', 'a b', 'p+q', '100%', 'same', 'same']
    n = 80 if ctx.tier == 'quick' else 3000
    for i in range(n):
        rng = random.Random(ctx.seed * 1000 + i)
        S = dsched.Sched(fine=('lightstreamer_adapter/protocol.py',), fine_seed=i, fine_p=0.6)
        scripts = {}
        out = {}
        for t in range(rng.choice([2, 2, 3])):
            name = 't%d' % t
            scripts[name] = [rng.choice(pool) for _ in range(rng.randint(2, 5))]

            def body(name=name):
                got = []
                for v in scripts[name]:
                    tok = protocol.encode_string(v)
                    got.append((tok, protocol.decode_string(tok)))
                out[name] = got
            S.spawn(name, 'free', body)
        status = S.run(dsched.RandomChooser(rng), max_steps=20000)
        crashes = [e for e in S.events if e[0] == 'thread-crash']
        S.kill_all()
        res.evaluations += 1
        res.count('concurrent-use')
        for name, vs in scripts.items():
            want = [(protocol.encode_string(v), v) for v in vs]
            if out.get(name) != want or crashes:
                res.oracle_violations.append({'case': {'threads': {k: [repr(x) for x in v] for k, v in scripts.items()}, 'seed': i},
                                              'detail': 'thread %s encoding / decoding %r while other threads use the codec got %r, a lone caller gets %r%s'
                                                        % (name, vs, out.get(name), want, (' (%r)' % (crashes[0],)) if crashes else ''),
                                              'key': {'stage': 'concurrent-use'}})
                break


def use_sites(ctx, res, vals):
    """every text slot of the writers carries exactly the token of the codec (no second encoding path)"""
    import wire
    import lightstreamer_adapter.data_protocol as dp
    import lightstreamer_adapter.metadata_protocol as mp
    from lightstreamer_adapter import protocol
    sample = [v for v in wire.SPECIALS] + [v for v in vals if isinstance(v, str) and v][:: max(1, len(vals) // 400)]
    for v in sample:
        t = protocol.encode_string(v)
        want = {
            'write_update_map': (lambda: dp.write_update_map(v, v, True, {v: v}), ['UD3', 'S', t, 'S', t, 'B', '1', 'S', t, 'S', t]),
            'write_eos': (lambda: dp.write_eos(v, v), ['EOS', 'S', t, 'S', t]),
            'write_cls': (lambda: dp.write_cls(v, v), ['CLS', 'S', t, 'S', t]),
            'write_get_items': (lambda: mp.write_get_items([v, v]), ['GIS', 'S', t, 'S', t]),
            'write_get_schema': (lambda: mp.write_get_schema([v]), ['GSC', 'S', t]),
            'write_credentials': (lambda: protocol.write_credentials(v, v), None),
            'write_failure': (lambda: dp.write_failure(Exception(v)), ['FAL', 'E', protocol.encode_string(str(Exception(v)))]),
        }
        for name, (fn, toks) in want.items():
            res.evaluations += 1
            res.count('use-site:' + name)
            try:
                line = fn()
            except Exception as e:
                res.oracle_violations.append({'case': {'writer': name, 'value_scalars': [ord(c) for c in v][:64]},
                                              'detail': '%s raised %r for a text value' % (name, e), 'key': {'stage': 'use-site', 'writer': name}})
                continue
            got = line.split('|')
            if toks is None:
                ok = got[:2] == ['RAC', 'S'] and got[2:6] == ['user', 'S', t, 'S'] and got[6:9] == ['password', 'S', t]
            else:
                ok = got == toks
            if not ok or any(c not in ALPHABET_STR for c in line.replace('|', '')):
                res.oracle_violations.append({'case': {'writer': name, 'value_scalars': [ord(c) for c in v][:64], 'line': line[:300]},
                                              'detail': '%s: the text slots of %r are not the codec token %r of the value' % (name, line[:120], t),
                                              'key': {'stage': 'use-site', 'writer': name}})


def search(ctx, res):
    """after a broken obligation / correspondence: widen the oracle corpus"""
    from lightstreamer_adapter import protocol
    seen = {}
    for c in itertools.chain(range(0x800), range(0x800, 0x110000, 97)):
        if 0xD800 <= c <= 0xDFFF:
            continue
        for v in (chr(c), 'a' + chr(c), chr(c) + ' '):
            try:
                t = protocol.encode_string(v)
                ok = (isinstance(t, str) and t and all(ord(x) in ALPHABET for x in t) and t not in ('#', '$')
                      and protocol.decode_string(t) == v and seen.setdefault(t, v) == v)
            except Exception as e:  # noqa
                ok = False
                t = repr(e)
            if not ok:
                return {'case': {'value_scalars': [ord(x) for x in v], 'token': t}, 'detail': 'codec oracle fails for %r -> %r' % (v, t),
                        'key': {'stage': 'encode'}}
    for v in (None, ''):
        t = protocol.encode_string(v)
        if t != ('#' if v is None else '$') or protocol.decode_string(t) != v:
            return {'case': {'value_scalars': v if v is None else [], 'token': t}, 'detail': 'special value %r -> %r' % (v, t), 'key': {'stage': 'encode'}}
    return None


def replay(ctx, data):
    from lightstreamer_adapter import protocol
    case = data['case']
    if 'value_scalars' in case and data.get('key', {}).get('stage') != 'alt-decode':
        vs = case['value_scalars']
        v = None if vs is None else ''.join(chr(c) for c in vs)
        t = protocol.encode_string(v)
        ok = (isinstance(t, str) and t != '' and (all(ord(x) in ALPHABET for x in t) or t in ('#', '$'))
              and (t == '#') == (v is None) and (t == '$') == (v == '') and protocol.decode_string(t) == v)
        return (not ok), 'encode_string(%r) = %r, decodes to %r' % (v, t, protocol.decode_string(t) if isinstance(t, str) else None)
    tok = case['token']
    tok = bytes.fromhex(tok[4:]).decode('ascii') if tok.startswith('hex:') else tok
    v = ''.join(chr(c) for c in case['value_scalars'])
    got = protocol.decode_string(tok)
    return got != v, 'decode_string(%r) = %r, expected %r' % (tok, got, v)
