"""C16 — outbound messages are atomic lines in per-thread submission order.
The real DataProviderServer runs under the deterministic scheduler with the
writer scheduled like any other thread (not eagerly): pool workers replying,
adapter threads calling update (payloads up to > 64 KiB), end_of_snapshot,
clear_snapshot and failure, events nested in subscribe().  Every put / get /
sendall step is replayed through Model/Outbound.v (written lines, byte stream,
queue, liveness of the writer compared).  Oracle: the byte stream split on
CRLF is exactly the submitted messages, nothing lost or duplicated, per-thread
order, nested events before the reply.  Thorough tier adds a real-thread,
real-socketpair stress run (oracle only; a test, not part of the proof)."""
import json
import multiprocessing
import random

import datarun
import dsched
import fixture
import itemprops
import sx
from sx import sym, A

TRUSTED = itemprops.TRUSTED + ['C16: queue.Queue is modelled as a list with atomic append / pop-head (linearizable FIFO); socket.sendall is atomic and complete']
ASSUMPTIONS = ['messages contain no CR / LF (C05, C07); the connection is up (no write fault) unless the scenario injects one']


def gen(rng):
    sc = itemprops.gen_scenario(rng, free_threads=4)
    # more producers: extra adapter threads with failures and large updates
    items = sorted(set(r[2] for r in sc.requests()))
    for _ in range(rng.randint(0, 3)):
        sc.free.append([(rng.choice(['upd', 'upd', 'fal', 'eos', 'cls']), rng.choice(items)) for _ in range(rng.randint(1, 5))])
    nlis = sum(len(f) for f in sc.free) + 8
    big = 0
    for k in range(nlis):
        if rng.random() < 0.15:
            sz = rng.choice([1, 100, 5000, 9000, 20000, 70000])
            if sz > 60000:
                big += 1
                if big > 1:          # the model's byte stream is a cons list: keep runs cheap
                    sz = 5000
            sc.sizes[k] = sz
    if rng.random() < 0.1:
        sc.fail_send = rng.randint(1, 6)
    return sc


def digest(r):
    F = datarun.Facts(r)
    labs, prod = datarun.outbound_labels(r)
    viol = [{'case': {'scenario': r.sc.describe(), 'schedule': [c for c, _ in r.taken], 'source': 'random'}, 'detail': d, 'key': k, 'kind': 'schedule'}
            for d, k in datarun.oracle_c16(r, F)]
    if r.crashes:
        viol.append({'case': {'scenario': r.sc.describe(), 'schedule': [c for c, _ in r.taken], 'source': 'random'},
                     'detail': 'a library thread / pool job died with %r' % (r.crashes[0],), 'key': {'kind': 'crash'}, 'kind': 'schedule'})
    sent = [bytes(x) for x in r.sent]
    return {'labels': labs, 'sent': sent, 'viol': viol, 'status': r.status, 'nprod': len(prod),
            'scenario': r.sc.describe(), 'schedule': [c for c, _ in r.taken], 'big': sum(1 for x in sent if len(x) > 65536)}


def work(arg):
    import logging
    logging.disable(logging.CRITICAL)
    seed, n = arg
    rng = random.Random(seed)
    out = []
    for i in range(n):
        sc = gen(rng)
        s2 = rng.getrandbits(32)
        ch = dsched.PCTChooser(random.Random(s2), depth=rng.choice([2, 4, 8])) if i % 2 else dsched.RandomChooser(random.Random(s2))
        fine = (i % 4 == 3)
        fixture.set_logging(i % 3 == 1)          # a third of the runs with every library logger at DEBUG
        if fine:
            # line-granular preemption (oracle only): few producers, small payloads, switches biased to stay on a thread
            sc.sizes = {k: min(v, 100) for k, v in sc.sizes.items()}
            ch = dsched.RandomChooser(random.Random(s2))
        r = datarun.run_scenario(sc, ch, eager=(), probe=False, fine=fine, fine_seed=s2)
        d = digest(r) if not fine else digest_fine(r, s2)
        out.append(d)
    return out


class StickyChooser:
    """keeps running the same thread with probability `stay` (else uniform): at line granularity a uniform choice at every
    step would never let a thread get anywhere"""

    def __init__(self, rng, stay=0.9):
        self.rng = rng
        self.stay = stay
        self.last = None
        self.taken = []

    def __call__(self, en, sched):
        if self.last in en and self.rng.random() < self.stay:
            t = self.last
        else:
            t = en[self.rng.randrange(len(en))]
        self.last = t
        self.taken.append((en.index(t), len(en)))
        return t


def digest_fine(r, fine_seed, fine_p=0.12):
    F = datarun.Facts(r)
    viol = [{'case': {'scenario': r.sc.describe(), 'schedule': [c for c, _ in r.taken], 'source': 'fine', 'fine_seed': fine_seed, 'fine_p': fine_p}, 'detail': d, 'key': k, 'kind': 'schedule'}
            for d, k in datarun.oracle_c16(r, F)]
    if r.crashes:
        viol.append({'case': {'scenario': r.sc.describe(), 'schedule': [c for c, _ in r.taken], 'source': 'fine', 'fine_seed': fine_seed, 'fine_p': fine_p},
                     'detail': 'a library thread / pool job died with %r' % (r.crashes[0],), 'key': {'kind': 'crash'}, 'kind': 'schedule'})
    return {'labels': None, 'sent': [], 'viol': viol, 'status': r.status, 'nprod': 0, 'scenario': r.sc.describe(),
            'schedule': [c for c, _ in r.taken], 'big': 0, 'fine': True}


def run(ctx, res):
    rng = ctx.rng
    n = 600 if ctx.tier == 'quick' else 20000
    nproc = 8
    res.rule = ('real DataProviderServer under the deterministic scheduler, writer NOT scheduled eagerly: 1..3 items with pipelined SUB/USB histories (workers reply), '
                '0..7 adapter threads calling update / end_of_snapshot / clear_snapshot / failure with payloads 0 B .. 200 kB, events nested in subscribe(), pool 1,2,3,8, '
                'occasional write fault on the k-th sendall (leaving a fragment on the wire); PCT and uniform random schedules; every put / get / sendall replayed through Model/Outbound.v; '
                'one run in four with line-granular preemption (every source line of the library a yield point), judged by the oracle only; the oracle also checks, per listener call, that the line enqueued carries that call\'s payload; '
                'plus one line whose length (with / without CRLF) is exactly at, just below and just above 1, 4, 8, 16, 32, 64, 128 KiB (oracle only); non-trivial = distinct runs with at least two producer threads')
    shard = max(20, n // (nproc * 2))
    jobs = []
    k = 0
    while k < n:
        jobs.append((rng.getrandbits(40), min(shard, n - k)))
        k += shard
    with multiprocessing.get_context('fork').Pool(nproc) as pool:
        results = pool.map(work, jobs, chunksize=1)
    alld = [d for out in results for d in out]
    for d in alld:
        if d.get('fine'):
            res.evaluations += 1
            res.count('line-granular (oracle only)' + ('' if d['status'] == 'quiescent' else ':' + d['status']))
            for v in d['viol']:
                res.oracle_violations.append(v)
    digs = [d for d in alld if not d.get('fine')]
    outs = ctx.model([[sym('outbound_run'), d['labels']] for d in digs])
    for d, m in zip(digs, outs):
        res.evaluations += 1
        res.count('producers:%d' % min(d['nprod'], 6))
        if d['big']:
            res.count('has-line>64KiB')
        if d['scenario'].get('fail_send'):
            res.count('write-fault')
        if d['nprod'] >= 2:
            res.nontrivial.add((json.dumps(d['scenario'], sort_keys=True, default=str), tuple(d['schedule'])))
        for v in d['viol']:
            res.oracle_violations.append(v)
        case = {'scenario': d['scenario'], 'schedule': d['schedule']}
        if sx.is_err(m):
            res.disagreements.append({'case': case, 'model': sx.dumps(m)[:300], 'impl': None, 'relation': 'Outbound.orun'})
        elif m[0] == b'rejected':
            idx = int(m[1])
            res.disagreements.append({'case': case, 'model': 'refuses step %d %s' % (idx, sx.dumps(d['labels'][idx])[:200]), 'impl': 'performed it',
                                      'relation': 'Outbound.ostep accepts every put / get / sendall of the implementation'})
        else:
            wire = b''.join(d['sent'])
            if bytes(m[2]) != wire:
                res.disagreements.append({'case': case, 'model': bytes(m[2])[:200], 'impl': wire[:200], 'relation': 'Outbound byte stream = bytes passed to sendall'})
            elif [bytes(x) for x in m[6]] != wire.split(b'\r\n')[:-1] or bytes(m[7]) != b'':
                res.disagreements.append({'case': case, 'model': 'split_crlf disagrees', 'impl': None, 'relation': 'Outbound.split_crlf = split on CRLF'})
        if res.evaluations % 150 == 0:
            res.sample({'scenario': d['scenario'], 'schedule': d['schedule'][:40], 'lines': [x[:80] for x in d['sent'][:6]]})
    res.traces = len(digs)
    boundary_part(ctx, res)
    producer_races(ctx, res)
    if ctx.tier == 'thorough':
        real_thread_stress(ctx, res)
    # keep one violation per kind
    seen = set()
    uniq = []
    for v in res.oracle_violations:
        k = json.dumps(v['key'], sort_keys=True)
        if k not in seen or len(uniq) < 3:
            uniq.append(v)
        seen.add(k)
    res.oracle_violations[:] = uniq


def producer_race_work(arg):
    """several adapter threads submitting at the same time on items that are subscribed, LINE-granular preemption with a
    high density of preemption points: races between producers that no lock, queue or clock access separates (a buffer
    shared by two calls of the notification path).  Oracle only."""
    import logging
    logging.disable(logging.CRITICAL)
    from datarun import Scenario
    seed, n = arg
    rng = random.Random(seed)
    out = []
    for i in range(n):
        items = ['a', 'b'][:rng.choice([1, 2])]
        reqs = [('%s1' % it, 'SUB', it) for it in items]
        nthreads = rng.choice([2, 3, 4])
        free = [[(rng.choice(['upd', 'upd', 'upd', 'eos', 'cls', 'fal']), rng.choice(items)) for _ in range(rng.randint(3, 7))] for _ in range(nthreads)]
        sc = Scenario(rng.choice([1, 2]), [reqs], {it: {'snap': [True]} for it in items}, free=free)
        s2 = rng.getrandbits(32)
        # the subscriptions first (threads of the library have priority until they are at rest), then the producers at random
        r2 = random.Random(s2)

        def bias(en, sched):
            lib = [t for t in en if t.role in ('reader', 'worker', 'writer')]
            return lib[0] if lib else None
        r = datarun.run_scenario(sc, dsched.RandomChooser(r2, bias=bias), eager=(), probe=False, fine=True, fine_seed=s2, fine_p=0.45)
        out.append(digest_fine(r, s2, 0.45))
    return out


def producer_races(ctx, res):
    n = 160 if ctx.tier == 'quick' else 4000
    jobs = [(ctx.rng.getrandbits(40), n // 8) for _ in range(8)]
    with multiprocessing.get_context('fork').Pool(8) as pool:
        results = pool.map(producer_race_work, jobs, chunksize=1)
    for out in results:
        for d in out:
            res.evaluations += 1
            res.count('producer-race (line-granular, oracle only)' + ('' if d['status'] == 'quiescent' else ':' + d['status']))
            for v in d['viol']:
                v['key'] = dict(v['key'], producer_race=True)
                res.oracle_violations.append(v)


def boundary_scenario(size):
    from datarun import Scenario
    return Scenario(1, [[('a1', 'SUB', 'a')]], {'a': {'snap': [True], 'sub': ['ret'], 'nest': [['upd', 'upd']]}}, sizes={0: size})


def boundary_run(size):
    sc = boundary_scenario(size)
    r = datarun.run_scenario(sc, dsched.RandomChooser(random.Random(size)), eager=('writer',), probe=False)
    return sc, r


def boundary_cases():
    """payload sizes that put the length of one line — with and without its CRLF — exactly at, one below and one above the
    powers of two from 1 KiB to 128 KiB (the natural buffer / slice sizes)"""
    sc, r = boundary_run(1000)
    big = [x for x in r.sent if b'x' * 1000 in x]
    if len(big) != 1:
        return None, 'calibration run: %d lines carry the 1000-byte payload' % len(big)
    c = len(big[0]) - 1000                 # everything but the payload, CRLF included
    sizes = []
    for T in (1024, 4096, 8192, 16384, 32768, 65536, 131072):
        for d in (-1, 0, 1, 2, 3):
            if T - c + d > 0:
                sizes.append(T - c + d)
    return sizes, None


def boundary_part(ctx, res):
    sizes, err = boundary_cases()
    if sizes is None:
        res.oracle_violations.append({'case': {'scenario': boundary_scenario(1000).describe(), 'schedule': []}, 'detail': err, 'key': {'kind': 'boundary_calibration'}, 'kind': 'schedule'})
        return
    for size in sizes:
        sc, r = boundary_run(size)
        res.evaluations += 1
        res.count('line-length-at-power-of-two')
        for d, k in datarun.oracle_c16(r, datarun.Facts(r)):
            k = dict(k)
            k['boundary'] = True
            res.oracle_violations.append({'case': {'scenario': sc.describe(), 'schedule': [c for c, _ in r.taken], 'source': 'boundary'}, 'detail': d, 'key': k, 'kind': 'schedule'})
        if r.crashes:
            res.oracle_violations.append({'case': {'scenario': sc.describe(), 'schedule': [c for c, _ in r.taken], 'source': 'boundary'},
                                          'detail': 'a library thread died with %r' % (r.crashes[0],), 'key': {'kind': 'crash', 'boundary': True}, 'kind': 'schedule'})


def real_thread_stress(ctx, res):
    """real threads, real queue, real socketpair: oracle only (a test)"""
    import socket
    import threading
    import lightstreamer_adapter.server as server
    import fixture
    a, b = socket.socketpair()
    saved = server.create_socket_and_connect
    server.create_socket_and_connect = lambda address, ssl_context=None: a
    try:
        ad = fixture.data_adapter({'issnapshot_available': lambda i: True})
        srv = server.DataProviderServer(ad, ('h', 1), name='stress', keep_alive=0, thread_pool_size=4)
        srv.start()
        b.sendall(b'1|DPI|S|ARI.version|S|1.9.1\r\n')
        nitems = 6
        for i in range(nitems):
            b.sendall(('s%d|SUB|S|it%d\r\n' % (i, i)).encode())
        got = bytearray()
        done = threading.Event()

        def reader():
            while not done.is_set() or True:
                try:
                    d = b.recv(1 << 20)
                except OSError:
                    return
                if not d:
                    return
                got.extend(d)
        rt = threading.Thread(target=reader, daemon=True)
        rt.start()
        import time
        t0 = time.time()
        while ad.listener is None and time.time() - t0 < 5:
            time.sleep(0.01)
        time.sleep(0.3)
        nthreads, per = 8, 300

        def producer(k):
            for j in range(per):
                size = 70000 if j % 97 == 0 else (j % 50)
                ad.listener.update('it%d' % (k % nitems), {'k': 'T%d-%d:' % (k, j) + 'x' * size}, False)
        ths = [threading.Thread(target=producer, args=(k,)) for k in range(nthreads)]
        for t in ths:
            t.start()
        for t in ths:
            t.join()
        time.sleep(1.0)
        srv.close()
        try:
            b.shutdown(socket.SHUT_RDWR)      # close() alone does not wake a thread blocked in recv on Linux
        except OSError:
            pass
        b.close()
        lines = bytes(got).split(b'\r\n')
        seqs = {}
        bad = None
        count = 0
        for l in lines:
            if b'|UD3|' in l:
                count += 1
                import urllib.parse
                tag = urllib.parse.unquote_plus(l.rsplit(b'|', 1)[1].decode('ascii')).split(':', 1)[0]
                k, j = tag[1:].split('-')
                if seqs.get(k, -1) + 1 != int(j):
                    bad = 'thread %s: update %s written after %s' % (k, j, seqs.get(k, -1))
                    break
                seqs[k] = int(j)
        res.evaluations += 1
        res.count('real-thread-stress')
        res.extra['real_thread_stress_updates'] = count
        if bad or count != nthreads * per:
            res.oracle_violations.append({'case': {'real_threads': nthreads, 'per_thread': per}, 'detail': bad or 'expected %d updates on the wire, saw %d' % (nthreads * per, count),
                                          'key': {'kind': 'real_thread_stress'}})
    finally:
        server.create_socket_and_connect = saved
        # whatever happened above, the library's (non-daemon) reader thread must see the connection end,
        # or the interpreter cannot exit
        for sk in (b, a):
            try:
                sk.shutdown(socket.SHUT_RDWR)
            except OSError:
                pass
            try:
                sk.close()
            except OSError:
                pass


def minimise(ctx, v):
    return v


def search(ctx, res):
    class R:
        pass
    rr = R()
    rr.oracle_violations, rr.evaluations, rr.count = [], 0, (lambda *a: None)
    boundary_part(ctx, rr)
    if rr.oracle_violations:
        return rr.oracle_violations[0]
    rng = random.Random(ctx.seed + 11)
    for out in (work((rng.getrandbits(40), 150)) for _ in range(6)):
        for d in out:
            if d['viol']:
                return d['viol'][0]
    return None


def replay(ctx, data):
    c = data['case']
    if 'scenario' not in c:
        return False, 'stress case: re-run the thorough check'
    sc = itemprops.scenario_from(c['scenario'])
    sc.sizes = {int(k): v for k, v in (c['scenario'].get('sizes') or {}).items()}
    sc.fail_send = c['scenario'].get('fail_send')
    fine = c.get('source') == 'fine'
    r = datarun.run_scenario(sc, dsched.ListChooser(c['schedule']), eager=(), probe=False, fine=fine, fine_seed=c.get('fine_seed', 0), fine_p=c.get('fine_p', 0.12))
    v = datarun.oracle_c16(r, datarun.Facts(r))
    return bool(v), 'oracle: %r' % (v[:3],)
