"""C08 — adapter exceptions map to the protocol's error subtype, payload intact.
Exhaustive on the 18 methods x 14 exception classes matrix (both tiers), with
payloads from the C05 domain and codes over negative / zero / positive ints.
Correspondence: Writers.error_reply vs the real write_* functions called with
exception=...; AriReply.spec_designated / spec_letter (the Coq specification
table) vs the table of the property text restated here; AriReply.decode_error
vs harness/ari.py.  Oracle: the table of the property text + payload recovery."""
import ari
import fixture
import sx
import wire
from ari import pyval
from sx import sym, A

TRUSTED = ['C08: str(exception) is taken as data (the message the exception was built with); the (method, class) matrix is enumerated completely on every run']
ASSUMPTIONS = ['ConflictingSessionError is considered for notify_new_session only; a user-defined subclass of a designated class is only required to give a well-formed error reply carrying the message']

METHODS = wire.REQUEST_METHODS
LIB = ['MetadataProviderError', 'NotificationError', 'AccessError', 'ItemsError', 'SchemaError', 'CreditsError',
       'ConflictingSessionError', 'DataProviderError', 'SubscribeError', 'FailureError']
LETTER = {'MetadataProviderError': 'M', 'NotificationError': 'N', 'AccessError': 'A', 'ItemsError': 'I', 'SchemaError': 'S',
          'CreditsError': 'C', 'ConflictingSessionError': 'X', 'DataProviderError': 'D', 'SubscribeError': 'U', 'FailureError': 'F'}
# the table of the property text / adapter interface docstrings
DESIGNATED = {
    'DPI': ['DataProviderError'], 'MPI': ['MetadataProviderError'],
    'SUB': ['SubscribeError', 'FailureError'], 'USB': ['SubscribeError', 'FailureError'],
    'NUS': ['AccessError', 'CreditsError'], 'NUA': ['AccessError', 'CreditsError'],
    'NNS': ['CreditsError', 'NotificationError', 'ConflictingSessionError'],
    'NSC': ['NotificationError'], 'GIS': ['ItemsError'], 'GSC': ['ItemsError', 'SchemaError'], 'GIT': [], 'GUI': [],
    'NUM': ['CreditsError', 'NotificationError'], 'NNT': ['CreditsError', 'NotificationError'], 'NTC': ['NotificationError'],
    'MDA': ['CreditsError', 'NotificationError'], 'MSA': ['CreditsError', 'NotificationError'], 'MDC': ['CreditsError', 'NotificationError'],
}


def lib_classes():
    import lightstreamer_adapter.interfaces.metadata as im
    import lightstreamer_adapter.interfaces.data as idt
    out = {}
    for n in LIB:
        out[n] = getattr(im, n, None) or getattr(idt, n)
    return out


def make(cls_name, classes, msg, code, um, sid, usersub=False):
    if cls_name in classes:
        base = classes[cls_name]
        # usersub: False | True (plain subclass) | 'empty' (a subclass whose instances are falsy: it defines __len__, as an
        # exception aggregating causes would, and holds none) — raising is what signals the error, not the object's truth value
        cls = base if not usersub else type('MyEmpty' + cls_name, (base,), {'__len__': lambda self: 0}) if usersub == 'empty' \
            else type('My' + cls_name, (base,), {})
        if cls_name == 'CreditsError':
            return cls(code, msg, um)
        if cls_name == 'ConflictingSessionError':
            return cls(code, msg, sid, um)
        return cls(msg)
    if cls_name == 'UserDefined':
        return type('UserDefined', (Exception,), {})(msg)
    if cls_name == 'UserDefinedEmpty':
        return type('UserDefinedEmpty', (Exception,), {'__bool__': lambda self: False})(msg)
    return {'RuntimeError': RuntimeError, 'ValueError': ValueError, 'KeyError': KeyError}[cls_name](msg)


def writer(meth):
    import lightstreamer_adapter.metadata_protocol as mp
    import lightstreamer_adapter.data_protocol as dp
    M = mp.Method
    return {
        'DPI': lambda e: dp.write_init(exception=e), 'MPI': lambda e: mp.write_init(exception=e),
        'SUB': lambda e: dp.write_sub(e), 'USB': lambda e: dp.write_unsub(e),
        'NUS': lambda e: mp.write_notiy_user(M.NUS, exception=e), 'NUA': lambda e: mp.write_notiy_user(M.NUA, exception=e),
        'NNS': lambda e: mp.write_notify_new_session(e), 'NSC': lambda e: mp.write_notify_session_close(e),
        'GIS': lambda e: mp.write_get_items(exception=e), 'GSC': lambda e: mp.write_get_schema(exception=e),
        'GIT': lambda e: mp.write_get_item_data(exception=e), 'GUI': lambda e: mp.write_get_user_item_data(exception=e),
        'NUM': lambda e: mp.write_notify_user_message(e), 'NNT': lambda e: mp.write_notify_new_tables(e),
        'NTC': lambda e: mp.write_notify_tables_close(e), 'MDA': lambda e: mp.write_notify_device_acces(e),
        'MSA': lambda e: mp.write_subscription_activation(e), 'MDC': lambda e: mp.write_device_token_change(e)}[meth]


def sx_exn(cls_name, msg, code, um, sid, usersub=False):
    if cls_name in LIB:
        c = [sym('usersub' if usersub else 'lib'), sym(cls_name)]
    else:
        c = sym('foreign')
    # str(KeyError('x')) is repr('x'): taken as data, see run()
    return [sym('exn'), c, msg, A(code), pyval(um), pyval(sid)]


def check_oracle(meth, cls_name, usersub, e, line, msg, code, um, sid):
    """the property text as a predicate on the reply line"""
    r = ari.error(line)
    if r['method'] != meth:
        return 'method token %r' % r['method']
    if r['msg'] != str(e):
        return 'message %r, expected %r' % (r['msg'], str(e))
    if usersub or cls_name not in LIB:
        if cls_name not in LIB and r['subtype'] is not None:
            return 'unrelated exception class got subtype %r' % r['subtype']
        return None            # user subclass: well-formed + message is all that is required
    if cls_name == 'ConflictingSessionError' and meth != 'NNS':
        return None            # unspecified
    want = LETTER[cls_name] if cls_name in DESIGNATED[meth] else None
    if r['subtype'] != want:
        return 'subtype %r, the protocol designates %r' % (r['subtype'], want)
    if want in ('C', 'X'):
        if r['code'] != code:
            return 'client error code %r, expected %r' % (r['code'], code)
        if r['user_msg'] != um:
            return 'user message %r, expected %r' % (r['user_msg'], um)
        if want == 'X' and r['session'] != sid:
            return 'session id %r, expected %r' % (r['session'], sid)
    return None


def run(ctx, res):
    rng = ctx.rng
    g = wire.Gen(rng)
    classes = lib_classes()
    res.rule = ('the full matrix 18 methods x {10 library classes, RuntimeError, ValueError, KeyError, a user-defined Exception subclass} plus '
                'user subclasses of every library class, each with several payloads (messages / user messages / session ids from the C05 domain, '
                'None and empty user messages, codes negative / 0 / positive / +-2^63); non-trivial = distinct reply lines')
    res.exhaustive = True
    res.exhaustive_note = 'the (method, exception class) matrix is enumerated completely; payloads are sampled'
    reps = 3 if ctx.tier == 'quick' else 150
    cases = []
    allcls = [(c, False) for c in LIB] + [(c, False) for c in ('RuntimeError', 'ValueError', 'KeyError', 'UserDefined', 'UserDefinedEmpty')] + \
        [(c, True) for c in LIB] + [(c, 'empty') for c in LIB]
    for meth in METHODS:
        for cls_name, usersub in allcls:
            for k in range(reps):
                msg = g.text(allow_none=False, tagged=(k != 1)) if k != 1 else ''
                um = [None, '', g.text(allow_none=False)][k % 3] if k < 3 else g.text()
                sid = g.text(allow_none=(k > 2))
                code = [0, -7, 5, 2 ** 63, -2 ** 63][k % 5] if k < 5 else g.integer()
                cases.append((meth, cls_name, usersub, msg, code, um, sid))
    calls = []
    impls = []
    excs = []
    for meth, cls_name, usersub, msg, code, um, sid in cases:
        e = make(cls_name, classes, msg, code, um, sid, usersub)
        excs.append(e)
        impls.append(ari.call_writer(writer(meth), e))
        calls.append([sym('error_reply'), sym(meth), sx_exn(cls_name, str(e).encode('utf-8'), code, um, sid, usersub)])
    outs = ctx.model(calls)
    dec_calls = []
    dec_lines = []
    for (meth, cls_name, usersub, msg, code, um, sid), e, impl, m in zip(cases, excs, impls, outs):
        res.evaluations += 1
        case = {'method': meth, 'class': ('MyEmpty' if usersub == 'empty' else 'My' if usersub else '') + cls_name, 'msg': msg, 'code': code, 'user_msg': um, 'session': sid}
        res.count('%s' % ('usersub' if usersub else ('lib' if cls_name in LIB else 'foreign')))
        if m != impl:
            res.disagreements.append({'case': case, 'model': sx.dumps(m)[:500], 'impl': sx.dumps(impl)[:500], 'relation': 'Writers.error_reply = write_*(exception=e)'})
        if impl[0] != b'ok':
            res.oracle_violations.append({'case': case, 'detail': 'no error reply produced: %s' % sx.dumps(impl), 'key': {'kind': 'no_reply', 'method': meth, 'class': cls_name}})
            continue
        line = impl[1].decode('utf-8')
        res.nontrivial.add(line)
        try:
            bad = check_oracle(meth, cls_name, usersub, e, line, msg, code, um, sid)
        except (ari.Bad, ValueError, UnicodeDecodeError) as ex:
            bad = 'reply %r is not a well-formed error reply: %r' % (line, ex)
        if bad:
            res.oracle_violations.append({'case': dict(case, line=line), 'detail': bad, 'key': {'kind': 'error_reply', 'method': meth, 'class': cls_name}})
        dec_calls.append([sym('decode_reply'), sym('error'), impl[1]])
        dec_lines.append(line)
        if res.evaluations % 331 == 0:
            res.sample({'method': meth, 'class': case['class'], 'line': line[:200]})
    # Coq spec decoder vs Python decoder
    douts = ctx.model(dec_calls)
    T = lambda v: sym('none') if v is None else [sym('some'), v.encode('utf-8')]
    O = lambda v, f: sym('none') if v == 'absent' else [sym('some'), f(v)]
    for line, d in zip(dec_lines, douts):
        res.evaluations += 1
        try:
            r = ari.error(line)
            py = [sym('some'), [r['method'].encode(), (sym('none') if r['subtype'] is None else [sym('some'), r['subtype'].encode()]), T(r['msg']),
                                (sym('none') if r['code'] is None else [sym('some'), A(r['code'])]), O(r['user_msg'], T), O(r['session'], T)]]
        except (ari.Bad, ValueError):
            py = sym('none')
        if d != py:
            res.disagreements.append({'case': {'line': line}, 'model': sx.dumps(d)[:500], 'impl': sx.dumps(py)[:500], 'relation': 'AriReply.decode_error = harness/ari.py error decoder'})
    # Coq spec table vs the table of the property text
    tcalls = [[sym('spec_designated'), sym(m), sym(c)] for m in METHODS for c in LIB]
    touts = ctx.model(tcalls)
    k = 0
    for m in METHODS:
        for c in LIB:
            d = touts[k]
            k += 1
            res.evaluations += 1
            want = [A(c in DESIGNATED[m]), LETTER[c].encode(), A(not (c == 'ConflictingSessionError' and m != 'NNS'))]
            if d != want:
                res.disagreements.append({'case': {'method': m, 'class': c}, 'model': sx.dumps(d), 'impl': sx.dumps(want), 'relation': 'AriReply.spec_designated/spec_letter = table of the property text'})
    through_server(ctx, res, classes)
    through_init_and_foreign(ctx, res, classes)
    concurrent_first_use(ctx, res)
    res.traces = res.evaluations


def through_server(ctx, res, classes):
    """a sample of the matrix through the real servers (adapter method raises)"""
    adapter_method = {'NUS': 'notify_user', 'NNS': 'notify_new_session', 'NSC': 'notify_session_close', 'GIS': 'get_items', 'GSC': 'get_schema',
                      'GIT': 'get_distinct_snapshot_length', 'NUM': 'notify_user_message', 'NTC': 'notify_tables_close', 'MDA': 'notify_mpn_device_access'}
    lines = {'NUS': 'q|NUS|S|u|S|p', 'NNS': 'q|NNS|S|u|S|s', 'NSC': 'q|NSC|S|s', 'GIS': 'q|GIS|S|u|S|g|S|s', 'GSC': 'q|GSC|S|u|S|g|S|sc|S|s',
             'GIT': 'q|GIT|S|i1', 'NUM': 'q|NUM|S|u|S|s|S|m', 'NTC': 'q|NTC|S|s', 'MDA': 'q|MDA|S|u|S|s|P|A|S|app|S|tok'}
    for meth, am in adapter_method.items():
        for cls_name in LIB + ['RuntimeError']:
            e = make(cls_name, classes, 'm %s|x' % cls_name, -3, '', 'sid 1')

            def boom(*a, e=e):
                raise e
            with fixture.patched() as env:
                ad = fixture.metadata_adapter({am: boom})
                h = fixture.make_handler()
                srv = fixture.start_meta(env, ad, handler=h)
                fixture.feed(srv, '1|MPI|S|ARI.version|S|1.8.3\r\n')
                fixture.drain(srv)
                fixture.feed(srv, lines[meth] + '\r\n')
                msgs = fixture.drain(srv)
            res.evaluations += 1
            res.count('server')
            bad = None
            if len(msgs) != 1 or not msgs[0].startswith('q|'):
                bad = 'expected one reply with id q, got %r' % (msgs,)
            else:
                try:
                    bad = check_oracle(meth, cls_name, False, e, msgs[0][2:], None, -3, '', 'sid 1')
                except (ari.Bad, ValueError) as ex:
                    bad = 'malformed error reply %r: %r' % (msgs[0], ex)
            if bad:
                res.oracle_violations.append({'case': {'through': 'MetadataProviderServer', 'method': meth, 'class': cls_name, 'lines': msgs}, 'detail': bad,
                                              'key': {'kind': 'error_reply', 'method': meth, 'class': cls_name}})


FOREIGN_CLASSES = ['RuntimeError', 'ValueError', 'KeyError', 'TypeError', 'OSError', 'LookupError', 'ArithmeticError', 'AttributeError',
                   'IndexError', 'StopIteration', 'AssertionError', 'NotImplementedError', 'UnicodeError', 'ZeroDivisionError']


def through_init_and_foreign(ctx, res, classes):
    """the two init methods, and a wider set of unrelated exception classes, through the real servers: whatever is raised
    (by initialize or by a request handler) comes back as an error reply of that method carrying str(exception); typed only as designated"""
    import builtins
    cases = []
    for cls_name in LIB + FOREIGN_CLASSES:
        cases.append(('MPI', 'meta', cls_name))
        cases.append(('DPI', 'data', cls_name))
    for cls_name in FOREIGN_CLASSES:
        cases.append(('NUS', 'meta', cls_name))
        cases.append(('GIS', 'meta', cls_name))
        cases.append(('SUB', 'data', cls_name))
    for meth, kind, cls_name in cases:
        if cls_name in LIB:
            e = make(cls_name, classes, 'm %s|x' % cls_name, -3, '', 'sid 1')
        else:
            e = getattr(builtins, cls_name)('m %s|x' % cls_name)

        def boom(*a, e=e, **k):
            raise e
        with fixture.patched() as env:
            h = fixture.make_handler()
            if kind == 'meta':
                script = {'initialize': boom} if meth == 'MPI' else {'notify_user': boom, 'get_items': boom}
                ad = fixture.metadata_adapter(script)
                srv = fixture.start_meta(env, ad, handler=h)
                init = 'q|MPI|S|ARI.version|S|1.8.3\r\n' if meth == 'MPI' else '1|MPI|S|ARI.version|S|1.8.3\r\n'
            else:
                script = {'initialize': boom} if meth == 'DPI' else {'subscribe': boom, 'issnapshot_available': lambda i: True}
                ad = fixture.data_adapter(script)
                srv = fixture.start_data(env, ad, handler=h)
                init = 'q|DPI|S|ARI.version|S|1.9.1\r\n' if meth == 'DPI' else '1|DPI|S|ARI.version|S|1.9.1\r\n'
            fixture.drain(srv)
            fixture.feed(srv, init)
            if meth not in ('MPI', 'DPI'):
                fixture.drain(srv)
                fixture.feed(srv, {'NUS': 'q|NUS|S|u|S|p', 'GIS': 'q|GIS|S|u|S|g|S|s', 'SUB': 'q|SUB|S|item1'}[meth] + '\r\n')
            msgs = [m for m in fixture.drain(srv) if isinstance(m, str) and m.startswith('q|')]
        res.evaluations += 1
        res.count('server-init-and-foreign')
        bad = None
        if len(msgs) != 1:
            bad = 'expected one reply with id q, got %r' % (msgs,)
        else:
            try:
                bad = check_oracle(meth, cls_name, False, e, msgs[0][2:], None, -3, '', 'sid 1')
            except (ari.Bad, ValueError) as ex:
                bad = 'malformed error reply %r: %r' % (msgs[0], ex)
        if bad:
            res.oracle_violations.append({'case': {'through': kind + ' server', 'method': meth, 'class': cls_name, 'lines': msgs}, 'detail': bad,
                                          'key': {'kind': 'error_reply', 'method': meth, 'class': cls_name}})


def _first_use_child(arg):
    """(child process) concurrent FIRST uses of the error-reply machinery after the library's module state has been reset:
    anything initialised lazily must not be observable half-built"""
    import importlib
    import logging
    import random
    import dsched
    logging.disable(logging.CRITICAL)
    seed, n = arg
    import lightstreamer_adapter.protocol as protocol
    import lightstreamer_adapter.metadata_protocol as mp
    import lightstreamer_adapter.data_protocol as dp
    classes = lib_classes()
    out = []
    nstuck = 0
    for i in range(n):
        importlib.reload(protocol)              # module-level state back to what it is in a fresh process
        M = mp.Method
        jobs = [('NUS/AccessError', lambda: mp.write_notiy_user(M.NUS, exception=classes['AccessError']('a'))),
                ('NNS/ConflictingSessionError', lambda: mp.write_notify_new_session(classes['ConflictingSessionError'](-3, 'conflict', 'S|1', None))),
                ('NUS/CreditsError', lambda: mp.write_notiy_user(M.NUS, exception=classes['CreditsError'](7, 'no credits', 'um'))),
                ('SUB/SubscribeError', lambda: dp.write_sub(classes['SubscribeError']('s'))),
                ('GIS/ItemsError', lambda: mp.write_get_items(exception=classes['ItemsError']('i')))]
        rng = random.Random(seed * 7919 + i)
        rng.shuffle(jobs)
        jobs = jobs[:rng.choice([2, 3])]
        S = dsched.Sched(fine=('lightstreamer_adapter/protocol.py', 'lightstreamer_adapter/metadata_protocol.py',
                               'lightstreamer_adapter/data_protocol.py'), fine_seed=i, fine_p=0.5)
        got = {}
        for name, fn in jobs:
            def body(name=name, fn=fn):
                try:
                    got[name] = fn()
                except Exception as ex:
                    got[name] = 'raised ' + repr(ex)
            S.spawn(name, 'free', body)
        S.step_timeout = 1.5
        status = S.run(dsched.RandomChooser(rng), max_steps=20000)
        S.kill_all()
        if status in ('stuck', 'deadlock') or S.blocked:
            nstuck += 1                          # a real lock of the library is held by a parked thread: this schedule cannot be continued
            if nstuck > 12:
                break
            continue
        for name, fn in jobs:
            want = fn()                          # a lone, later caller
            if got.get(name) != want:
                out.append({'round': i, 'threads': [j[0] for j in jobs], 'who': name, 'got': got.get(name), 'lone_caller': want})
                break
    return out


def concurrent_first_use(ctx, res):
    import multiprocessing
    n = 60 if ctx.tier == 'quick' else 2000
    with multiprocessing.get_context('fork').Pool(1) as pool:
        bad = pool.apply(_first_use_child, ((ctx.seed, n),))
    res.evaluations += n
    res.count('concurrent-first-use', n)
    for b in bad[:3]:
        res.oracle_violations.append({'case': {'threads': b['threads'], 'round': b['round'], 'seed': ctx.seed},
                                      'detail': 'first error replies built concurrently in a fresh process: %s got %r, a lone caller gets %r' % (b['who'], b['got'], b['lone_caller']),
                                      'key': {'kind': 'concurrent_first_use'}})


def search(ctx, res):
    classes = lib_classes()
    for meth in METHODS:
        for cls_name in LIB + ['RuntimeError', 'KeyError', 'UserDefined']:
            for msg, code, um, sid in (('m', 0, None, 's'), ('', -1, '', ''), ('a b|c', 2 ** 40, 'u m', 'é')):
                e = make(cls_name, classes, msg, code, um, sid)
                try:
                    line = writer(meth)(e)
                    bad = check_oracle(meth, cls_name, False, e, line, msg, code, um, sid)
                except Exception as ex:
                    line, bad = None, 'writer/decoder raised %r' % (ex,)
                if bad:
                    return {'case': {'method': meth, 'class': cls_name, 'msg': msg, 'code': code, 'user_msg': um, 'session': sid, 'line': line}, 'detail': bad,
                            'key': {'kind': 'error_reply', 'method': meth, 'class': cls_name}}
    return None


def replay(ctx, data):
    c = data['case']
    classes = lib_classes()
    name = c['class']
    usersub = name.startswith('My') and name[2:] in LIB
    if usersub:
        name = name[2:]
    elif name.startswith('MyEmpty') and name[7:] in LIB:
        usersub, name = 'empty', name[7:]
    e = make(name, classes, c.get('msg') or '', c.get('code') or 0, c.get('user_msg'), c.get('session'), usersub)
    try:
        line = writer(c['method'])(e)
        bad = check_oracle(c['method'], name, usersub, e, line, c.get('msg'), c.get('code'), c.get('user_msg'), c.get('session'))
    except Exception as ex:
        line, bad = None, 'raised %r' % (ex,)
    return bool(bad), 'line %r: %s' % (line, bad)
