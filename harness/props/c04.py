"""C04 — two levels.  Dispatch / pool / reply discipline under all interleavings: harness/shellprops.py
(shared exploration of the connection-level properties) and harness/shellrun.py (oracle_c04).  Content of
each handler (which adapter methods, which decoded values in which position, how returns / raises become
the reply): harness/metahandlers.py against Model/MetaHandlers.v."""
import metahandlers
import shellprops

PID = 'C04'
TRUSTED = shellprops.TRUSTED
ASSUMPTIONS = shellprops.ASSUMPTIONS


def run(ctx, res):
    shellprops.explore(ctx, res, PID)
    n = metahandlers.explore(ctx, res, 40 if ctx.tier == 'quick' else 1500)
    res.rule += ('; handler content: %d requests (14 post-init methods, structured argument values, per adapter call a right-typed / '
                 'wrong-typed return or one of 24 exception classes) through the real server vs Model.MetaHandlers.handle_tokens' % n)


def search(ctx, res):
    return shellprops.search(ctx, res, PID)


def replay(ctx, data):
    return shellprops.replay(ctx, data, PID)
