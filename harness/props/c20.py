"""C20 — see harness/shellrun.py (oracle_c20) and harness/shellprops.py (shared exploration of the connection-level
properties, keepalives disabled) for the scheduled part; `keepalive_fault` below adds, in virtual time, the write faults
that hit a line the keepalive timer produced: "the k-th write failing" does not depend on what the k-th write carries."""
from fractions import Fraction

import dsched
import fixture
import shellprops
import shims
import sx
from sx import sym, A

PID = 'C20'
TRUSTED = shellprops.TRUSTED
ASSUMPTIONS = shellprops.ASSUMPTIONS

HANDLERS = ['absent', True, False, None]


def run_timed(kind, K, handler, fail_k, t_init, horizon):
    """real server of the given kind with a positive keepalive interval, idle but for an optional init request at t_init;
    the fail_k-th socket write raises OSError.  -> dict of observables"""
    import lightstreamer_adapter.server as server
    S = dsched.Sched()
    with shims.install(S, chunks=[], end='block', fail_send=fail_k) as env:
        clock = env.clock
        clock.now = Fraction(0)
        if kind == 'meta':
            ad = fixture.metadata_adapter()
            srv = server.MetadataProviderServer(ad, ('h', 1), name='M', keep_alive=K, thread_pool_size=1)
            init = b'10|MPI|S|ARI.version|S|1.8.3\r\n'
        else:
            ad = fixture.data_adapter()
            srv = server.DataProviderServer(ad, ('h', 1), name='D', keep_alive=K, thread_pool_size=1)
            init = b'10|DPI|S|ARI.version|S|1.8.3\r\n'
        h = None
        if handler != 'absent':
            h = fixture.make_handler(ret_io=handler, ret_ex=False)
            srv.set_exception_handler(h)
        env.sock.chunks.clear()
        attempts = []
        orig = env.sock.sendall

        def sendall(data):
            attempts.append((Fraction(clock.now), bytes(data)))
            return orig(data)
        env.sock.sendall = sendall
        srv.start()
        q = env.queues[0]
        writer = [t for t in S.threads if t.role == 'writer'][0]
        reader = [t for t in S.threads if t.role == 'reader'][0]

        def rest(t, what):
            return t.state == 'dead' or (t.state == 'parked' and t.pending[0] == what)

        def parked():
            return S.halted or ((writer.state == 'dead' or (rest(writer, 'get') and not q.items)) and
                                (reader.state == 'dead' or (rest(reader, 'recv') and not env.sock.chunks)))

        # environment actions as labels of Model/SenderFault.v: (label, ok) — ok False on the label whose sendall is the failing one
        labels = []
        seen = [0]

        def note_puts():
            # what the library enqueued since the last look (the init reply; nothing else enqueues in these sessions)
            for item in list(q.log)[seen[0]:]:
                labels.append([[sym('put'), A(1), [sym('some'), item.encode('utf-8')] if isinstance(item, str) else sym('none')], None])
            seen[0] = len(q.log)

        def advance(t):
            n = 0
            while not S.halted and n < 50:
                w = q.waiter
                if writer.state != 'dead' and w is not None and w['timeout'] is not None and not w['fired'] \
                        and Fraction(w['start']) + Fraction(w['timeout']) < t:
                    n += 1
                    dl = Fraction(w['start']) + Fraction(w['timeout'])
                    labels.append([[sym('delay'), Q(dl - Fraction(clock.now))], None])
                    labels.append([sym('fire'), None])
                    clock.now = dl
                    w['fired'] = True
                    S.yield_('env', None, cond=parked)
                else:
                    break
            if not S.halted:
                labels.append([[sym('delay'), Q(Fraction(t) - Fraction(clock.now))], None])
                clock.now = Fraction(t)

        def body():
            S.yield_('env', None, cond=parked)
            note_puts()
            if t_init is not None:
                advance(Fraction(t_init))
                env.sock.chunks.append(init)
                S.yield_('env', None, cond=parked)
                note_puts()
            advance(Fraction(horizon))
        S.spawn('env', 'env', body)

        def chooser(en, sched):
            for role in ('writer', 'reader', 'worker'):
                for t in en:
                    if t.role == role:
                        return t
            return en[0]
        status = S.run(chooser, max_steps=50000)
        note_puts()              # (a run that ended in the exit primitive before the environment looked again)
        out = {'status': status, 'labels': labels, 'attempts': attempts, 'sent': list(env.sock.sent), 'exits': list(env.os.exits),
               'io': list(h.io) if h else None, 'ex': list(h.ex) if h else None,
               'crashes': [e for e in S.events if e[0] == 'thread-crash' and 'env' not in e[1:3]],
               'harness_crash': [e for e in S.events if e[0] == 'thread-crash' and 'env' in e[1:3]]}
        S.kill_all()
    if out['harness_crash']:
        raise RuntimeError('C20 harness environment thread crashed: %r' % (out['harness_crash'][0],))
    return out


def Q(fr):
    fr = Fraction(fr)
    return [sym('q'), A(fr.numerator), A(fr.denominator)]


def model_call(K, handler, fail_k, o):
    """the run as a call of the extracted model: every label that makes the writer call sendall is marked ok, except the
    fail_k-th one"""
    n = 0
    ls = []
    for lab, _ in o['labels']:
        writes = lab == sym('fire') or (isinstance(lab, list) and lab and lab[0] == sym('put'))
        ok = True
        if writes:
            n += 1
            ok = n != fail_k
        ls.append([lab, A(ok)])
        if not ok and handler == 'absent' or (not ok and handler is True):
            break                # the process is gone: the environment's later actions did not happen
    h = sym('absent') if handler == 'absent' else [sym('returns'), sym('none') if handler is None else [sym('some'), A(bool(handler))]]
    return [sym('sender_fault_run'), Q(Fraction(K)), h, ls]


def compare(handler, fail_k, o, m):
    """-> None | (model, impl) texts when the real run differs from Model/SenderFault.v"""
    if sx.is_err(m) or m[0] != b'ok':
        return sx.dumps(m)[:300], 'ran'
    mw = [(Fraction(int(w[0][1]), int(w[0][2])), bytes(w[3]) + b'\r\n') for w in m[1]]
    impl_w = [(t, d) for (t, d), s_ in zip(o['attempts'], range(len(o['sent'])))]
    impl = {'writes': [(str(t), d) for t, d in impl_w], 'attempts': len(o['attempts']), 'reports': len(o['io'] or []), 'exits': len(o['exits'])}
    model = {'writes': [(str(t), d) for t, d in mw], 'attempts': int(m[3]), 'reports': int(m[4]), 'exits': int(m[5])}
    return None if model == impl else (repr(model)[:500], repr(impl)[:500])


def judge(handler, fail_k, o):
    """the fault clause of the property on one run; -> None | description"""
    n = len(o['attempts'])
    if n < fail_k:
        return None                # the faulty write was never reached (nothing to judge)
    what = o['attempts'][fail_k - 1][1]
    if o['crashes']:
        return 'a library thread died: %r' % (o['crashes'][0],)
    want_exit = handler == 'absent' or handler is True
    if handler != 'absent':
        if len(o['io']) != 1:
            return 'write %d (%r) failed: the I/O exception handler was notified %d times' % (fail_k, what[:30], len(o['io']))
        if not isinstance(o['io'][0], OSError):
            return 'the I/O exception handler received %r' % (o['io'][0],)
        if o['ex']:
            return 'the failure of write %d was reported to handle_exception' % fail_k
    if want_exit and len(o['exits']) != 1:
        return 'write %d (%r) failed, handler %r: process exit requested %d times' % (fail_k, what[:30], handler, len(o['exits']))
    if not want_exit and o['exits']:
        return 'write %d failed, handler returned %r: process exit requested' % (fail_k, handler)
    if n > fail_k:
        return 'the writer attempted %d more write(s) after write %d had failed: %r' % (n - fail_k, fail_k, [a[1][:30] for a in o['attempts'][fail_k:fail_k + 3]])
    return None


def cases(tier, rng):
    out = []
    for kind in ('meta', 'data'):
        for handler in HANDLERS:
            for fail_k in (1, 2, 3):
                for t_init in (None, Fraction(1, 2), Fraction(5, 2)):
                    out.append((kind, 1, handler, fail_k, t_init, 8))
    if tier != 'quick':
        for _ in range(400):
            K = rng.choice([0.5, 1, 1.5, 2.25])
            t_init = rng.choice([None, Fraction(rng.randint(0, 80), 8)])
            out.append((rng.choice(['meta', 'data']), K, rng.choice(HANDLERS), rng.randint(1, 9),
                        t_init, (t_init or 0) + Fraction(rng.randint(8, 200), 8)))
    return out


def keepalive_fault(ctx, res):
    runs = []
    for kind, K, handler, fail_k, t_init, horizon in cases(ctx.tier, ctx.rng):
        runs.append(((kind, K, handler, fail_k, t_init, horizon), run_timed(kind, K, handler, fail_k, t_init, horizon)))
    outs = ctx.model([model_call(c[1], c[2], c[3], o) for c, o in runs])
    for ((kind, K, handler, fail_k, t_init, horizon), o), m in zip(runs, outs):
        res.evaluations += 1
        n = len(o['attempts'])
        ka = n >= fail_k and o['attempts'][fail_k - 1][1] == b'KEEPALIVE\r\n'
        res.count('timed-fault:%s' % ('not-reached' if n < fail_k else 'keepalive' if ka else 'reply'))
        case = {'timed': True, 'server': kind, 'keep_alive': K, 'handler': repr(handler), 'fail_write': fail_k,
                't_init': None if t_init is None else str(t_init), 'horizon': str(horizon)}
        if n >= fail_k:
            res.nontrivial.add(repr(case))
        bad = judge(handler, fail_k, o)
        if bad:
            res.oracle_violations.append({'case': case, 'detail': bad, 'key': {'kind': 'timed_write_fault', 'keepalive': ka}})
        d = compare(handler, fail_k, o, m)
        if d:
            res.disagreements.append({'case': case, 'model': d[0], 'impl': d[1],
                                      'relation': 'SenderFault.frun (writes with virtual times, sendall attempts, handler notifications, exits) = the real writer loop with the k-th sendall failing'})


def run(ctx, res):
    shellprops.explore(ctx, res, PID)
    keepalive_fault(ctx, res)
    res.rule += ('; plus, in virtual time with a positive keepalive interval: both server kinds, handler absent / True / False / None, the 1st..9th write failing '
                 'whatever it carries (a timer keepalive or the init reply), judged by the fault clause of the property')


def search(ctx, res):
    import random
    rng = random.Random(ctx.seed + 5)
    for kind, K, handler, fail_k, t_init, horizon in cases('thorough', rng):
        o = run_timed(kind, K, handler, fail_k, t_init, horizon)
        bad = judge(handler, fail_k, o)
        if bad:
            return {'case': {'timed': True, 'server': kind, 'keep_alive': K, 'handler': repr(handler), 'fail_write': fail_k,
                             't_init': None if t_init is None else str(t_init), 'horizon': str(horizon)},
                    'detail': bad, 'key': {'kind': 'timed_write_fault'}}
    return shellprops.search(ctx, res, PID)


def replay(ctx, data):
    c = data.get('case', {})
    if c.get('timed'):
        handler = {'True': True, 'False': False, 'None': None}.get(c['handler'], 'absent')
        t_init = None if c['t_init'] is None else Fraction(c['t_init'])
        o = run_timed(c['server'], c['keep_alive'], handler, c['fail_write'], t_init, Fraction(c['horizon']))
        bad = judge(handler, c['fail_write'], o)
        return bool(bad), 'attempts %r; exits %r; handler io %r; %s' % ([(str(t), d) for t, d in o['attempts'][:8]], o['exits'], o['io'], bad)
    return shellprops.replay(ctx, data, PID)
