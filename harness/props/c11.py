"""C11 — version negotiation and init parameters follow the compatibility table.
Correspondence: Model/Init.v on_init vs the real servers (inert fixture): whether
and with what initialize / set_listener were called, the reply line, the
close-expected flag, the hint handed to _use_keep_alive_hint; the Coq
specification table AriReply.spec_version vs the table of the property text
restated here.  Oracle: the property text (table, parameters, typed error,
close honoured afterwards — observed by sending a real CLOSE request)."""
from fractions import Fraction

import ari
import fixture
import sx
import wire
from ari import pyval
from sx import sym, A

TRUSTED = ['C11: the keepalive hint text is compared as handed over (how it changes the interval is C12)']
ASSUMPTIONS = ['local parameters are a dict of str -> str; Proxy parameters are text pairs; initialize outcomes: returns / provider error / other Exception']

VERSIONS = [None, '#', '', '1.8.0', '1.8.1', '1.8.2', '1.8.3', '1.8.4', '1.8.10', '1.8.', '1.8', '1.80', '1.9.0', '1.9.1', '1.9.2', '1.9.10', '1.9', '1.9.0.1',
            '1.10.0', '1.10.1', '1.11.0', '2.0.0', '2.1', '0.9', '10.8.3', 'abc', 'ARI', '1.8.3 ', ' 1.8.3', '1.8.2x', 'V1.8.2', '1.8.3.0', '1,8,3', '1.7.9', '01.8.3',
            'é', '1.8.3|x', '1.18.0', '1.8.0.0', '1.9.00']


def spec(kind, v):
    """the table of the property text: 'refuse' | 'bare' | ('answer', version)"""
    if kind == 'meta':
        if v is None:
            return 'bare'
        if v in ('1.8.1', '1.8.0'):
            return 'refuse'
        if v == '1.8.2':
            return ('answer', '1.8.2')
        return ('answer', '1.8.3')
    if v is None or v.startswith('1.8.') or v == '1.9.0':
        return 'refuse'
    return ('answer', '1.8.3')


def run_impl(kind, version, extra_pairs, local, config, outcome, hint):
    """-> dict of observables"""
    pairs = []
    if version is not None:
        pairs.append(('ARI.version', None if version == '#' else version))
    pairs += extra_pairs
    if hint is not None:
        pairs.append(('keepalive_hint.millis', hint))
    classes = {}

    def init(params, cfg):
        if outcome == 'ret':
            return None
        if outcome == 'provider':
            import lightstreamer_adapter.interfaces.metadata as im
            import lightstreamer_adapter.interfaces.data as idt
            raise (im.MetadataProviderError if kind == 'meta' else idt.DataProviderError)('init failed|x')
        if outcome.startswith('lib:'):
            from props import c08
            raise c08.make(outcome[4:], c08.lib_classes(), 'lib failed z', -2, 'um', 'sid')
        if outcome == 'other2':
            raise TypeError('boom y')
        if outcome.startswith('builtin:'):
            import builtins
            raise getattr(builtins, outcome[8:])('boom y')
        raise RuntimeError('boom y')
    obs = {}
    with fixture.patched() as env:
        h = fixture.make_handler()
        if kind == 'meta':
            ad = fixture.metadata_adapter({'initialize': init})
            srv = fixture.start_meta(env, ad, params=local, config=config, handler=h)
            meth = 'MPI'
        else:
            ad = fixture.data_adapter({'initialize': init})
            srv = fixture.start_data(env, ad, params=local, config=config, handler=h)
            meth = 'DPI'
        fixture.drain(srv)
        hints = []
        orig = srv._use_keep_alive_hint
        srv._use_keep_alive_hint = lambda x=None: (hints.append(x), orig(x))[1]
        line = wire.encode_line(b'10', meth, ('WInit', pairs)).decode('ascii')
        obs['crashed'] = None
        try:
            fixture.feed(srv, line)
        except Exception as ex:          # nothing but the handled protocol error may come out of on_received_request
            obs['crashed'] = repr(ex)
        msgs = fixture.drain(srv)
        obs['line'] = line
        obs['init_calls'] = [c for c in ad.calls if c[0] == 'initialize']
        obs['listener'] = any(c[0] == 'set_listener' for c in ad.calls)
        obs['order_ok'] = [c[0] for c in ad.calls if c[0] in ('initialize', 'set_listener')] in ([], ['initialize'], ['initialize', 'set_listener'])
        obs['msgs'] = [m for m in msgs if m != 'KEEPALIVE_PILL']
        obs['close_expected'] = fixture.close_expected(srv)
        obs['hints'] = hints
        obs['handler'] = len(h.ex)
        # observe the flag through a real CLOSE request
        closed0 = env.sock.closed
        try:
            fixture.feed(srv, '0|CLOSE\r\n')
        except Exception as ex:
            obs['crashed'] = obs['crashed'] or repr(ex)
        obs['closed_by_request'] = env.sock.closed > closed0
        obs['handler_after_close'] = len(h.ex)
    return obs, pairs


def run(ctx, res):
    rng = ctx.rng
    g = wire.Gen(rng)
    res.rule = ('version strings: absent, explicit null, empty, every 1.8.x / 1.9.x / 1.10.x / 2.x pattern, prefixes, junk, case / blank variants (%d spellings) '
                'x both server kinds x initialize outcome {returns, provider error, other exception} x Proxy / local parameter maps with overlapping and reserved keys '
                'x config file set or not x hint present or not; each followed by a real CLOSE request; non-trivial = distinct (kind, version, outcome, parameter shape)' % len(VERSIONS))
    cases = []
    outcomes = ['ret', 'provider', 'other', 'other2']
    BUILTINS = ['ValueError', 'KeyError', 'OSError', 'LookupError', 'ArithmeticError', 'AttributeError', 'IndexError', 'StopIteration', 'AssertionError', 'NotImplementedError']
    OTHER_LIB = {'meta': ['DataProviderError', 'FailureError', 'CreditsError', 'AccessError', 'NotificationError'],
                 'data': ['MetadataProviderError', 'FailureError', 'SubscribeError', 'CreditsError']}
    nvar = 2 if ctx.tier == 'quick' else 80
    for kind in ('meta', 'data'):
        for v in VERSIONS:
            for oc in outcomes + ((['lib:' + c for c in OTHER_LIB[kind]] + ['builtin:' + c for c in BUILTINS]) if v in ('1.8.3', '1.9.1', None, '2.0.0') else []):
                for k in range(nvar if ':' not in oc else 1):
                    extra = [(g.text(allow_none=False), g.text()) for _ in range(rng.choice([0, 1, 3]))]
                    local = None
                    if k % 2 == 1 or rng.random() < 0.3:
                        local = {}
                        for _ in range(rng.choice([0, 1, 2])):
                            local[g.text(allow_none=False)] = g.text(allow_none=False)
                        if extra and rng.random() < 0.7:
                            local[extra[0][0]] = 'LOCAL-wins'           # overlapping key
                        if rng.random() < 0.3:
                            local['ARI.version'] = 'local-version'       # reserved keys put there by the application
                        if rng.random() < 0.3:
                            local['keepalive_hint.millis'] = 'local-hint'
                    if rng.random() < 0.2 and extra:
                        extra.append((extra[0][0], 'dup-last-wins'))
                    config = rng.choice([None, 'adapters.conf', ''])
                    hint = rng.choice([None, None, '1500', '0', '-1', '500.5', '20000', '+3000', '2e3',
                                       # the value of a reserved key is arbitrary text: hints that are no numbers
                                       'abc', '', '0x10', '1,5', 'ten seconds', '12ms', '--5', g.text(allow_none=False)])
                    cases.append((kind, v, extra, local, config, oc, hint))
    calls = []
    obs_l = []
    for kind, v, extra, local, config, oc, hint in cases:
        obs, pairs = run_impl(kind, v, extra, local, config, oc, hint)
        obs_l.append((obs, pairs))
        if oc == 'ret':
            o = sym('ret')
        elif oc == 'provider':
            o = [sym('raise'), [sym('exn'), [sym('lib'), sym('MetadataProviderError' if kind == 'meta' else 'DataProviderError')], b'init failed|x', A(0), sym('none'), sym('none')]]
        elif oc.startswith('lib:'):
            o = [sym('raise'), [sym('exn'), [sym('lib'), sym(oc[4:])], b'lib failed z', A(-2), [sym('str'), b'um'], [sym('str'), b'sid']]]
        elif oc.startswith('builtin:'):
            import builtins
            o = [sym('raise'), [sym('exn'), sym('foreign'), str(getattr(builtins, oc[8:])('boom y')).encode(), A(0), sym('none'), sym('none')]]
        else:
            o = [sym('raise'), [sym('exn'), sym('foreign'), b'boom y', A(0), sym('none'), sym('none')]]
        lp = sym('none') if local is None else [sym('some'), wire.sx_pairs(list(local.items()))]
        calls.append([sym('on_init'), sym(kind), lp, wire.sx_pairs(pairs), A(True), o])
    outs = ctx.model(calls)
    for (kind, v, extra, local, config, oc, hint), (obs, pairs), m in zip(cases, obs_l, outs):
        res.evaluations += 1
        case = {'kind': kind, 'version': v, 'outcome': oc, 'proxy_pairs': pairs, 'local': local, 'config': config, 'hint': hint, 'line': obs['line']}
        res.nontrivial.add((kind, v, oc, len(extra), local is not None, hint is not None))
        res.count('%s:%s' % (kind, 'absent' if v is None else 'null' if v == '#' else 'given'))
        if obs.get('crashed'):
            res.oracle_violations.append({'case': case, 'detail': 'an exception escaped the request dispatcher while handling the init request: %s' % obs['crashed'],
                                          'key': {'kind': 'init_crash'}})
            continue
        # ---- implementation observables in the model's vocabulary
        ic = obs['init_calls']
        if len(ic) > 1:
            res.oracle_violations.append({'case': case, 'detail': 'initialize called %d times' % len(ic), 'key': {'kind': 'init_twice'}})
            continue
        iparams = sym('none') if not ic else [sym('some'), wire.c_dict(ic[0][1])]
        reply = obs['msgs']
        if len(reply) != 1 or not reply[0].startswith('10|'):
            res.oracle_violations.append({'case': case, 'detail': 'expected exactly one reply with id 10, got %r' % (reply,), 'key': {'kind': 'init_reply_count'}})
            continue
        body = reply[0][3:]
        ce_known = obs['close_expected'] is not fixture.UNAVAILABLE      # the flag is also observed through a real CLOSE request below
        impl = [iparams, A(obs['listener']), [sym('ok'), body.encode('utf-8')], A(obs['close_expected']) if ce_known else (m[3] if not sx.is_err(m) else b'?')]
        if sx.is_err(m) or m[:4] != impl:
            res.disagreements.append({'case': case, 'model': sx.dumps(m)[:700], 'impl': sx.dumps(impl)[:700], 'relation': 'Init.on_init = Server._on_init (calls, reply, close flag)'})
        # the hint handed over
        want_hint = wire.pydict(pairs).get('keepalive_hint.millis')
        if obs['hints'] != [want_hint]:
            res.oracle_violations.append({'case': case, 'detail': '_use_keep_alive_hint called with %r, the Proxy sent %r' % (obs['hints'], want_hint), 'key': {'kind': 'hint_not_applied', 'outcome': oc}})
        if not sx.is_err(m):
            mh = m[4]
            if want_hint is None:
                if mh != sym('absent'):
                    res.disagreements.append({'case': case, 'model': sx.dumps(mh), 'impl': 'absent', 'relation': 'Init.parse_hint'})
            elif mh == sym('unmodelled'):
                res.unmodelled += 1
            elif mh == sym('malformed'):
                # Init.surely_not_float: float() must indeed reject the text
                try:
                    float(want_hint)
                    res.disagreements.append({'case': case, 'model': 'malformed', 'impl': 'float() accepts %r' % (want_hint,), 'relation': 'Init.surely_not_float => float(hint) raises ValueError'})
                except ValueError:
                    res.count('hint:malformed')
            else:
                fr = Fraction(want_hint)
                if Fraction(int(mh[1]), int(mh[2])) != fr or abs(float(want_hint) - float(fr)) > 1e-9 * max(1.0, abs(float(fr))):
                    res.disagreements.append({'case': case, 'model': sx.dumps(mh), 'impl': want_hint, 'relation': 'Init.parse_hint = float(hint)'})
        # ---- oracle: the property text
        # the version the Proxy Adapter announced is the value the parameter map holds for the reserved key (a generated
        # parameter may repeat that key: the last pair wins, as in any map)
        vv = wire.pydict(pairs).get('ARI.version')
        sp = spec(kind, vv)
        meth = 'MPI' if kind == 'meta' else 'DPI'
        bad = None
        try:
            if sp == 'refuse':
                if ic:
                    bad = 'version refused but the adapter was initialized'
                else:
                    r = ari.error(body)
                    if r['method'] != meth:
                        bad = 'refusal is not an error reply of %s: %r' % (meth, body)
            else:
                if not ic:
                    bad = 'version acceptable but the adapter was not initialized (reply %r)' % body
                else:
                    exp = {k: val for k, val in wire.pydict(pairs).items() if k not in ('ARI.version', 'keepalive_hint.millis')}
                    exp.update(local or {})
                    if ic[0][1] != exp:
                        bad = 'initialize received %r, expected %r' % (ic[0][1], exp)
                    elif ic[0][2] != config:
                        bad = 'initialize received config file %r, expected %r' % (ic[0][2], config)
                    elif oc == 'ret':
                        if sp == 'bare':
                            if ari.void(body) != meth:
                                bad = 'expected bare success, got %r' % body
                        else:
                            if ari.params(body) != (meth, [('ARI.version', sp[1])]):
                                bad = 'expected success announcing %s, got %r' % (sp[1], body)
                        if kind == 'data' and not (obs['listener'] and obs['order_ok']):
                            bad = 'set_listener not invoked after initialize'
                    else:
                        r = ari.error(body)
                        want = ({'meta': 'M', 'data': 'D'}[kind]) if oc == 'provider' else None
                        wmsg = 'init failed|x' if oc == 'provider' else ('lib failed z' if oc.startswith('lib:') else 'boom y')
                        if oc.startswith('builtin:'):
                            import builtins
                            wmsg = str(getattr(builtins, oc[8:])('boom y'))
                        if r['method'] != meth or r['subtype'] != want or r['msg'] != wmsg:
                            bad = 'failing initialize: reply %r, expected subtype %r' % (body, want)
                        if obs['listener']:
                            bad = 'set_listener invoked although initialize raised'
            if bad is None:
                agreed_old = sp == 'bare' or (sp != 'refuse' and sp[1] in ('1.8.0', '1.8.2'))
                honoured_expected = not (sp != 'refuse' and oc == 'ret' and agreed_old)
                if obs['closed_by_request'] != honoured_expected:
                    bad = 'close request %s, expected %s' % ('honoured' if obs['closed_by_request'] else 'ignored', 'honoured' if honoured_expected else 'ignored')
                elif obs['handler_after_close'] != 0:
                    bad = 'exception handler invoked %d times' % obs['handler_after_close']
        except (ari.Bad, ValueError) as e:
            bad = 'malformed reply %r: %r' % (body, e)
        if bad:
            res.oracle_violations.append({'case': case, 'detail': bad, 'key': {'kind': 'init_table', 'server': kind, 'version': v, 'outcome': oc}})
        if res.evaluations % 97 == 0:
            res.sample({'kind': kind, 'version': v, 'outcome': oc, 'reply': body[:120]})
    # Coq specification table vs the table of the property text
    tc = []
    tk = []
    for kind in ('meta', 'data'):
        for v in VERSIONS + ['1.8.%d' % i for i in range(12)] + ['1.9.%d' % i for i in range(4)]:
            if v == '#':
                continue
            for ok in (True, False):
                tc.append([sym('spec_version'), sym(kind), sx.opt(v, lambda s: s.encode('utf-8')), A(ok)])
                tk.append((kind, v, ok))
    for (kind, v, ok), d in zip(tk, ctx.model(tc)):
        res.evaluations += 1
        sp = spec(kind, v)
        want_v = sym(sp) if isinstance(sp, str) else [sym('answer'), sp[1].encode()]
        agreed_old = sp == 'bare' or (sp != 'refuse' and sp[1] in ('1.8.0', '1.8.2'))
        want = [want_v, A(not (sp != 'refuse' and ok and agreed_old))]
        if d != want:
            res.disagreements.append({'case': {'kind': kind, 'version': v, 'init_ok': ok}, 'model': sx.dumps(d), 'impl': sx.dumps(want),
                                      'relation': 'AriReply.spec_version / spec_close_honoured = table of the property text'})
    res.traces = len(cases)


def search(ctx, res):
    for kind in ('meta', 'data'):
        for v in VERSIONS + ['1.8.%d' % i for i in range(30)] + ['1.%d.0' % i for i in range(30)]:
            for oc in ('ret', 'provider', 'other'):
                obs, pairs = run_impl(kind, v, [('k', 'v')], {'k': 'L'}, 'c', oc, '1500')
                vv = None if v in (None, '#') else v
                sp = spec(kind, vv)
                called = bool(obs['init_calls'])
                bad = None
                if (sp == 'refuse') == called:
                    bad = 'refusal/initialization mismatch'
                elif called and obs['init_calls'][0][1] != {'k': 'L'}:
                    bad = 'parameters %r' % (obs['init_calls'][0][1],)
                else:
                    agreed_old = sp == 'bare' or (sp != 'refuse' and sp[1] in ('1.8.0', '1.8.2'))
                    if obs['closed_by_request'] != (not (sp != 'refuse' and oc == 'ret' and agreed_old)):
                        bad = 'close flag'
                if bad:
                    return {'case': {'kind': kind, 'version': v, 'outcome': oc, 'line': obs['line']}, 'detail': bad + ' (reply %r)' % (obs['msgs'],),
                            'key': {'kind': 'init_table', 'server': kind, 'version': v, 'outcome': oc}}
    return None


def replay(ctx, data):
    c = data['case']
    pairs = [tuple(p) for p in c.get('proxy_pairs', [])]
    extra = [p for p in pairs if p[0] not in ('ARI.version', 'keepalive_hint.millis')]
    obs, _ = run_impl(c['kind'], c.get('version'), extra, c.get('local'), c.get('config'), c['outcome'], c.get('hint'))
    vv = None if c.get('version') in (None, '#') else c.get('version')
    sp = spec(c['kind'], vv)
    called = bool(obs['init_calls'])
    agreed_old = sp == 'bare' or (sp != 'refuse' and sp[1] in ('1.8.0', '1.8.2'))
    fails = ((sp == 'refuse') == called) or (obs['closed_by_request'] != (not (sp != 'refuse' and c['outcome'] == 'ret' and agreed_old)))
    if called and not fails:
        exp = {k: v for k, v in wire.pydict(extra).items()}
        exp.update(c.get('local') or {})
        fails = obs['init_calls'][0][1] != exp
    return fails, 'reply %r, initialize calls %r, close honoured %r' % (obs['msgs'], obs['init_calls'], obs['closed_by_request'])
