"""C14 — see harness/shellprops.py (shared exploration of the connection-level properties)
and harness/shellrun.py (oracle_c14)."""
import ari
import fixture
import shellprops
import sx
import wire
from sx import sym

PID = 'C14'
TRUSTED = shellprops.TRUSTED
ASSUMPTIONS = shellprops.ASSUMPTIONS


def content(ctx, res):
    """credential configurations through the real servers: the first message queued by start() vs
    Model.Writers.write_credentials inside Envelope.reply_message "1"; oracle: decodes to the configuration"""
    g = wire.Gen(ctx.rng)
    n = 150 if ctx.tier == 'quick' else 6000
    cases = []
    # servers one after the other in the same process with credentials that a sloppy cache key would confuse
    SEQ = [(None, 'p'), ('None', 'p'), ('a|b', 'c'), ('a', 'b|c'), ('', None), (None, ''), ('x', None), ('x', 'None'), ('x|None', None),
           ('u', 'p'), ('u', 'P'), ('u ', 'p'), (' u', 'p'), ('u', 'p')]
    for i in range(n + len(SEQ)):
        def one(k):
            return [None, '', g.text(allow_none=False, tagged=False), g.text(allow_none=False)][k]
        u, p = one(ctx.rng.randrange(4) if i >= 16 else i % 4), one(ctx.rng.randrange(4) if i >= 16 else (i // 4) % 4)
        if i >= n:
            u, p = SEQ[i - n]
        kind = 'meta' if i % 2 else 'data'
        with fixture.patched() as env:
            if kind == 'meta':
                srv = fixture.start_meta(env, fixture.metadata_adapter(), user=u, password=p, handler=fixture.make_handler())
            else:
                srv = fixture.start_data(env, fixture.data_adapter(), user=u, password=p, handler=fixture.make_handler())
            msgs = fixture.drain(srv)
        cases.append((kind, u, p, msgs))
    outs = ctx.model([[sym('write_credentials'), ari.pyval(u), ari.pyval(p)] for _, u, p, _ in cases])
    envs = ctx.model([[sym('envelope_reply'), b'1', o[1] if (isinstance(o, list) and o and o[0] == b'ok') else b''] for o in outs])
    for (kind, u, p, msgs), o, e in zip(cases, outs, envs):
        res.evaluations += 1
        res.count('credentials:%s:user=%s:password=%s' % (kind, 'none' if u is None else ('empty' if u == '' else 'text'),
                                                          'none' if p is None else ('empty' if p == '' else 'text')))
        case = {'kind': kind, 'user': u, 'password': p, 'queued': msgs[:2]}
        bad = None
        if len(msgs) != 1 or not isinstance(msgs[0], str):
            bad = 'start() queued %r' % (msgs,)
        else:
            try:
                rid, body = msgs[0].split('|', 1)
                m, ps = ari.params(body)
                want = ([('user', u)] if u is not None else []) + ([('password', p)] if p is not None else [])
                want += [('enableClosePacket', 'true'), ('SDK', 'Python Adapter SDK')]
                if rid != '1' or m != 'RAC' or ps != want:
                    bad = 'credentials message %r carries id %r, %r; expected id 1, %r' % (msgs[0][:200], rid, ps, want)
            except (ari.Bad, ValueError) as ex:
                bad = 'credentials message %r is not well-formed: %r' % (msgs[0][:200], ex)
        if bad:
            res.oracle_violations.append({'case': case, 'detail': bad, 'key': {'kind': 'rac_content'}})
        impl = msgs[0].encode('utf-8', 'surrogatepass') if (len(msgs) == 1 and isinstance(msgs[0], str)) else None
        if not (isinstance(e, list) and len(e) == 2 and e[0] == impl):
            res.disagreements.append({'case': case, 'model': sx.dumps(e)[:400], 'impl': repr(impl)[:400],
                                      'relation': 'Envelope.reply_message "1" (Writers.write_credentials user password) = first message queued by Server.start'})
        else:
            res.nontrivial.add(msgs[0])
    return n


def start_races(ctx, res):
    """Server.start on a scheduled thread against the reader and writer it creates, the init request already readable,
    with LINE-granular preemption: races inside start() / the sender / the request manager that no lock or queue
    operation separates.  Oracle only."""
    import dsched
    import random
    import shellrun
    from shellrun import Line, ShellScenario
    from sx import A
    n = 240 if ctx.tier == 'quick' else 6000
    rng = ctx.rng
    for i in range(n):
        kind = 'meta' if i % 2 else 'data'
        text = b'q0|MPI|S|ARI.version|S|1.8.3\r\n' if kind == 'meta' else b'q0|DPI|S|ARI.version|S|1.9.1\r\n'
        ln = Line(text, [sym('init'), A(0), b'T', b'F', b'F'], 0, 'MPI' if kind == 'meta' else 'DPI', None, 'valid', 'init')
        sc = ShellScenario(kind, [ln], [[0]], pool=1, cpu=1, handler=None, end='block', start_managed=True,
                           user=rng.choice([None, 'u']), password=None)
        s2 = rng.getrandbits(32)
        r = shellrun.run(sc, dsched.RandomChooser(random.Random(s2)), fine=True, fine_seed=s2)
        res.evaluations += 1
        res.count('start-race (line-granular)')
        for detail, key in shellrun.oracle_c14(r):
            res.oracle_violations.append({'case': {'scenario': shellprops.scenario_to_json(sc), 'schedule': [c for c, _ in r.taken], 'source': 'fine', 'fine_seed': s2},
                                          'detail': detail, 'key': dict(key), 'kind': 'schedule'})
            break
        if r.crashes:
            res.oracle_violations.append({'case': {'scenario': shellprops.scenario_to_json(sc), 'schedule': [c for c, _ in r.taken], 'source': 'fine', 'fine_seed': s2},
                                          'detail': 'a thread died: %r' % (r.crashes[0],), 'key': {'kind': 'crash'}, 'kind': 'schedule'})
    # keep one violation per kind
    seen, uniq = set(), []
    for v in res.oracle_violations:
        k = repr(sorted(v['key'].items()))
        if k not in seen or len(uniq) < 3:
            uniq.append(v)
        seen.add(k)
    res.oracle_violations[:] = uniq
    return n


def run(ctx, res):
    shellprops.explore(ctx, res, PID)
    start_races(ctx, res)
    n = content(ctx, res)
    res.rule += '; content: %d credential configurations (user / password each None, empty, or a C05 text) through both real servers vs the model writer' % n


def search(ctx, res):
    return shellprops.search(ctx, res, PID)


def replay(ctx, data):
    return shellprops.replay(ctx, data, PID)
