"""C14 — see harness/shellprops.py (shared exploration of the connection-level properties)
and harness/shellrun.py (oracle_c14)."""
import shellprops

PID = 'C14'
TRUSTED = shellprops.TRUSTED
ASSUMPTIONS = shellprops.ASSUMPTIONS


def run(ctx, res):
    shellprops.explore(ctx, res, PID)


def search(ctx, res):
    return shellprops.search(ctx, res, PID)


def replay(ctx, data):
    return shellprops.replay(ctx, data, PID)
