"""C14 — see harness/shellprops.py (shared exploration of the connection-level properties)
and harness/shellrun.py (oracle_c14)."""
import ari
import fixture
import shellprops
import sx
import wire
from sx import sym

PID = 'C14'
TRUSTED = shellprops.TRUSTED
ASSUMPTIONS = shellprops.ASSUMPTIONS


def content(ctx, res):
    """credential configurations through the real servers: the first message queued by start() vs
    Model.Writers.write_credentials inside Envelope.reply_message "1"; oracle: decodes to the configuration"""
    g = wire.Gen(ctx.rng)
    n = 150 if ctx.tier == 'quick' else 6000
    cases = []
    for i in range(n):
        def one(k):
            return [None, '', g.text(allow_none=False, tagged=False), g.text(allow_none=False)][k]
        u, p = one(ctx.rng.randrange(4) if i >= 16 else i % 4), one(ctx.rng.randrange(4) if i >= 16 else (i // 4) % 4)
        kind = 'meta' if i % 2 else 'data'
        with fixture.patched() as env:
            if kind == 'meta':
                srv = fixture.start_meta(env, fixture.metadata_adapter(), user=u, password=p, handler=fixture.make_handler())
            else:
                srv = fixture.start_data(env, fixture.data_adapter(), user=u, password=p, handler=fixture.make_handler())
            msgs = fixture.drain(srv)
        cases.append((kind, u, p, msgs))
    outs = ctx.model([[sym('write_credentials'), ari.pyval(u), ari.pyval(p)] for _, u, p, _ in cases])
    envs = ctx.model([[sym('envelope_reply'), b'1', o[1] if (isinstance(o, list) and o and o[0] == b'ok') else b''] for o in outs])
    for (kind, u, p, msgs), o, e in zip(cases, outs, envs):
        res.evaluations += 1
        res.count('credentials:%s:user=%s:password=%s' % (kind, 'none' if u is None else ('empty' if u == '' else 'text'),
                                                          'none' if p is None else ('empty' if p == '' else 'text')))
        case = {'kind': kind, 'user': u, 'password': p, 'queued': msgs[:2]}
        bad = None
        if len(msgs) != 1 or not isinstance(msgs[0], str):
            bad = 'start() queued %r' % (msgs,)
        else:
            try:
                rid, body = msgs[0].split('|', 1)
                m, ps = ari.params(body)
                want = ([('user', u)] if u is not None else []) + ([('password', p)] if p is not None else [])
                want += [('enableClosePacket', 'true'), ('SDK', 'Python Adapter SDK')]
                if rid != '1' or m != 'RAC' or ps != want:
                    bad = 'credentials message %r carries id %r, %r; expected id 1, %r' % (msgs[0][:200], rid, ps, want)
            except (ari.Bad, ValueError) as ex:
                bad = 'credentials message %r is not well-formed: %r' % (msgs[0][:200], ex)
        if bad:
            res.oracle_violations.append({'case': case, 'detail': bad, 'key': {'kind': 'rac_content'}})
        impl = msgs[0].encode('utf-8', 'surrogatepass') if (len(msgs) == 1 and isinstance(msgs[0], str)) else None
        if not (isinstance(e, list) and len(e) == 2 and e[0] == impl):
            res.disagreements.append({'case': case, 'model': sx.dumps(e)[:400], 'impl': repr(impl)[:400],
                                      'relation': 'Envelope.reply_message "1" (Writers.write_credentials user password) = first message queued by Server.start'})
        else:
            res.nontrivial.add(msgs[0])
    return n


def run(ctx, res):
    shellprops.explore(ctx, res, PID)
    n = content(ctx, res)
    res.rule += '; content: %d credential configurations (user / password each None, empty, or a C05 text) through both real servers vs the model writer' % n


def search(ctx, res):
    return shellprops.search(ctx, res, PID)


def replay(ctx, data):
    return shellprops.replay(ctx, data, PID)
