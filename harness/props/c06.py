"""C06 — request decoding inverts the ARI encoding for all 18 request kinds.
Correspondence: Model/Readers.v decode_line vs protocol.parse_request + the real
read_* functions; AriSpec.encode_line vs the harness's independent Python
encoder (ties the specification side).  Oracle: decoded structure == generated
structure; adapter receives the values in their roles when the same line goes
through the real server."""
import fixture
import sx
import wire
from sx import sym, A

TRUSTED = [
    'C06: the reference encoder AriSpec.encode_line (specification side) is cross-checked byte for byte against harness/wire.py encode_line, an independent restatement',
    'C06: Python str values are compared as UTF-8 byte strings; int() limited to 4300 digits (hypothesis ints_ok of the theorem)',
]
ASSUMPTIONS = ['argument values range over the C05 text domain (no lone surrogates), ints, the mode / platform codes incl. null',
               'request ids are non-empty and contain no "|" or blank (wf_id)']

MODE_ORDER = ['RAW', 'MERGE', 'DISTINCT', 'COMMAND']


def c_arg(v):
    from lightstreamer_adapter.interfaces.metadata import TableInfo, MpnDeviceInfo, MpnSubscriptionInfo, Mode
    if v is None or isinstance(v, str):
        return wire.c_text(v)
    if isinstance(v, dict):
        return wire.c_dict(v)
    if isinstance(v, (list, tuple)):
        return [c_arg(x) for x in v]
    if isinstance(v, TableInfo):
        return wire.c_table(v)
    if isinstance(v, MpnDeviceInfo):
        return wire.c_device(v)
    if isinstance(v, MpnSubscriptionInfo):
        return wire.c_subinfo(v)
    if isinstance(v, Mode):
        return sym(v.name)
    return [sym('pyobj'), repr(v).encode()]


def expected_calls(meth, q):
    """adapter calls a correct server makes for request q (interface docstrings)"""
    T = wire.sx_text

    def D(pairs):
        return [[T(a), T(b)] for a, b in wire.pydict(pairs).items()]
    k = q[0]
    if meth == 'NUS':
        return [['notify_user', T(q[1]), T(q[2]), D(q[3])], ['get_allowed_max_bandwidth', T(q[1])],
                ['wants_tables_notification', T(q[1])]]
    if meth == 'NUA':
        return [['notify_user_with_principal', T(q[1]), T(q[2]), D(q[4]), T(q[3])],
                ['get_allowed_max_bandwidth', T(q[1])], ['wants_tables_notification', T(q[1])]]
    if meth == 'NNS':
        return [['notify_new_session', T(q[1]), T(q[2]), D(q[3])]]
    if meth == 'NSC':
        return [['notify_session_close', T(q[1])]]
    if meth == 'GIS':       # wire order: user, group, session
        return [['get_items', T(q[1]), T(q[3]), T(q[2])]]
    if meth == 'GSC':       # wire order: user, group, schema, session
        return [['get_schema', T(q[1]), T(q[4]), T(q[2]), T(q[3])]]
    if meth == 'GIT':
        out = []
        for it in q[1]:
            out += [['mode_may_be_allowed', T(it), sym(m)] for m in MODE_ORDER]
            out += [['get_distinct_snapshot_length', T(it)], ['get_min_source_frequency', T(it)]]
        return out
    if meth == 'GUI':
        out = []
        for it in q[2]:
            out += [['ismode_allowed', T(q[1]), T(it), sym(m)] for m in MODE_ORDER]
            out += [['get_allowed_buffer_size', T(q[1]), T(it)], ['get_allowed_max_item_frequency', T(q[1]), T(it)]]
        return out
    if meth == 'NUM':
        return [['notify_user_message', T(q[1]), T(q[2]), T(q[3])]]
    if meth == 'NNT':
        return [['notify_new_tables', T(q[1]), T(q[2]), [wire.sx_table(t) for t in q[3]]]]
    if meth == 'NTC':
        return [['notify_tables_close', T(q[1]), [wire.sx_table(t) for t in q[2]]]]
    if meth == 'MDA':
        return [['notify_mpn_device_access', T(q[1]), T(q[2]), wire.sx_device(q[3])]]
    if meth == 'MSA':
        return [['notify_mpn_subscription_activation', T(q[1]), T(q[2]),
                 wire.sx_table(q[3][:6] + (None,)), wire.sx_subinfo(q[4])]]
    if meth == 'MDC':
        return [['notify_mpn_device_token_change', T(q[1]), T(q[2]), wire.sx_device(q[3]), T(q[4])]]
    if meth == 'SUB':
        return [['issnapshot_available', T(q[1])], ['subscribe', T(q[1])]]
    if meth == 'USB':
        return [['unsubscribe', T(q[1])]]
    if meth in ('DPI', 'MPI'):
        return None   # covered by C11
    raise ValueError(meth)


def through_server(meth, line, prior=None):
    """feed the line to a real (inert) server after a successful init; return the
    recorded adapter calls after init as canonical sexps"""
    script = {'get_allowed_max_bandwidth': lambda u: 1.5, 'wants_tables_notification': lambda u: True,
              'get_items': lambda *a: ['i'], 'get_schema': lambda *a: ['f'],
              'mode_may_be_allowed': lambda *a: True, 'ismode_allowed': lambda *a: True,
              'get_distinct_snapshot_length': lambda i: 1, 'get_min_source_frequency': lambda i: 1.0,
              'get_allowed_buffer_size': lambda u, i: 1, 'get_allowed_max_item_frequency': lambda u, i: 1.0,
              'issnapshot_available': lambda i: True}
    for n in ('notify_user', 'notify_user_with_principal', 'notify_new_session', 'notify_session_close',
              'notify_user_message', 'notify_new_tables', 'notify_tables_close', 'notify_mpn_device_access',
              'notify_mpn_subscription_activation', 'notify_mpn_device_token_change', 'subscribe', 'unsubscribe'):
        script[n] = lambda *a: None
    with fixture.patched() as env:
        if meth in ('SUB', 'USB'):
            ad = fixture.data_adapter(script)
            srv = fixture.start_data(env, ad, handler=fixture.make_handler())
            fixture.feed(srv, '1|DPI|S|ARI.version|S|1.9.1\r\n')
        else:
            ad = fixture.metadata_adapter(script)
            srv = fixture.start_meta(env, ad, handler=fixture.make_handler())
            fixture.feed(srv, '1|MPI|S|ARI.version|S|1.8.3\r\n')
        for p in (prior or []):
            fixture.feed(srv, p)
        n0 = len(ad.calls)
        fixture.feed(srv, line)
        calls = ad.calls[n0:]
        msgs = fixture.drain(srv)
    return [[c[0]] + [c_arg(a) for a in c[1:]] for c in calls], msgs


def norm_calls(cs):
    return [[x if not isinstance(x, str) else x.encode() for x in c] for c in cs]


def run(ctx, res):
    from lightstreamer_adapter import protocol
    g = wire.Gen(ctx.rng)
    per_method = 120 if ctx.tier == 'quick' else 6000
    res.rule = ('per request method: structured random requests (distinct tagged values per slot, maps 0..6 pairs '
                'with duplicate keys, lists 0..8, tables 0..4, every mode/platform code incl. null), both terminators; '
                'encoded by the Python reference encoder and by the extracted AriSpec encoder (must agree), decoded by '
                'the real parse_request+read_* and by the model (must agree), compared with the generated structure, '
                'and fed through the real server with a recording adapter; non-trivial = distinct request lines with '
                'at least one argument token')
    cases = []
    for meth in wire.REQUEST_METHODS:
        for i in range(per_method):
            q = g.request(meth)
            rid = g.rid()
            term = b'\r\n' if (i % 2 == 0) else b'\n'
            cases.append((meth, q, rid, term))
    # every text slot of every request kind set, one at a time, to each type-marker letter and protocol word
    def leaves(x, path=()):
        if isinstance(x, str) and path and path != (0,):
            yield path
        elif isinstance(x, (tuple, list)):
            for i, y in enumerate(x):
                yield from leaves(y, path + (i,))

    def put(x, path, v):
        if not path:
            return v
        l = list(x)
        l[path[0]] = put(x[path[0]], path[1:], v)
        return tuple(l) if isinstance(x, tuple) else l
    for meth in wire.REQUEST_METHODS:
        base = g.request(meth)
        for path in list(leaves(base)):
            if isinstance(base[0], str) and path == (0,):
                continue
            for v in ('S', 'I', 'M', 'P', 'B', 'KEEPALIVE', 'CLOSE'):
                try:
                    q2 = put(base, path, v)
                    wire.encode_args(q2)
                except Exception:
                    continue           # the slot is not a text slot (mode / platform name)
                cases.append((meth, q2, g.rid(), b'\r\n'))
    calls = []
    for meth, q, rid, term in cases:
        calls.append([sym('encode_line'), rid, sym(meth), wire.sx_wire(q), term])
    enc = ctx.model(calls)
    lines = []
    for (meth, q, rid, term), e in zip(cases, enc):
        line = wire.encode_line(rid, meth, q, term)
        lines.append(line)
        case = {'method': meth, 'request': repr(q)[:400], 'id': rid, 'term': term}
        if sx.is_err(e) or e[0] != line:
            res.disagreements.append({'case': case, 'model': e if sx.is_err(e) else e[0], 'impl': line,
                                      'relation': 'AriSpec.encode_line = harness reference encoder'})
        elif e[1] != wire.expected_request(q) or e[2] != b'T':
            res.disagreements.append({'case': case, 'model': e[1], 'impl': wire.expected_request(q),
                                      'relation': 'AriSpec.expected = harness expected structure'})
    dec = ctx.model([[sym('decode_line'), l] for l in lines])
    server_every = 3 if ctx.tier == 'quick' else 10
    for idx, ((meth, q, rid, term), line, d) in enumerate(zip(cases, lines, dec)):
        res.evaluations += 1
        case = {'method': meth, 'line': line}
        pr = protocol.parse_request(line.decode('ascii'))
        if pr is None:
            impl = sym('none')
        elif pr['method'] not in wire.REQUEST_METHODS:
            impl = [sym('unknown'), pr['id'].encode(), pr['method'].encode()]
        else:
            kind, val = wire.impl_read(pr['method'], pr['data'])
            if kind == 'ok':
                body = [sym('ok'), val]
            elif kind == 'err':
                body = [sym('err'), val]
            else:
                body = [sym('other'), val.encode()]
            impl = [sym('req'), pr['id'].encode(), sym(pr['method']), body]
        res.traces += 1
        if len(line.split(b'|')) > 2:
            res.nontrivial.add(line)
        res.count(meth)
        if idx % 400 == 0:
            res.sample({'line': line, 'decoded': sx.dumps(impl)[:300]})
        if impl != d:
            if not wire.valid_utf8_everywhere(d):
                res.unmodelled += 1
            else:
                res.disagreements.append({'case': case, 'model': sx.dumps(d)[:2000], 'impl': sx.dumps(impl)[:2000],
                                          'relation': 'Readers.decode_line = parse_request + read_*'})
        exp = [sym('req'), rid, sym(meth), [sym('ok'), wire.expected_request(q)]]
        if impl != exp:
            res.oracle_violations.append({'case': {'method': meth, 'id': rid, 'line': line, 'request': repr(q)[:600], 'expected': sx.dumps(exp)},
                                          'detail': 'decoded %s, expected %s' % (sx.dumps(impl)[:800], sx.dumps(exp)[:800]),
                                          'key': {'method': meth, 'stage': 'decode'}})
            continue
        # delivery through the server
        if idx % server_every == 0:
            ec = expected_calls(meth, q)
            if ec is not None:
                prior = None
                if meth == 'USB':   # make the unsubscribe meaningful: subscribe the same item first
                    prior = [wire.encode_line(b'77', 'SUB', q, b'\r\n').decode('ascii')]
                got, msgs = through_server(meth, line.decode('ascii'), prior)
                res.count('server:' + meth)
                if norm_calls(got) != norm_calls(ec):
                    res.oracle_violations.append({'case': {'method': meth, 'id': rid, 'line': line},
                                                  'detail': 'adapter calls %s, expected %s' % (
                                                      sx.dumps(norm_calls(got))[:800], sx.dumps(norm_calls(ec))[:800]),
                                                  'key': {'method': meth, 'stage': 'delivery'}})
    history_independence(ctx, res)
    # terminator independence on arbitrary bodies (not only encoder output)
    bodies = [l.rstrip(b'\r\n') for l in lines[::7]]
    outs = ctx.model([[sym('decode_line'), b + t] for b in bodies for t in (b'\r\n', b'\n', b'')])
    for i, b in enumerate(bodies):
        a, c, e = outs[3 * i], outs[3 * i + 1], outs[3 * i + 2]
        res.evaluations += 1
        pa = protocol.parse_request((b + b'\r\n').decode('ascii'))
        pb = protocol.parse_request((b + b'\n').decode('ascii'))
        if pa != pb:
            res.oracle_violations.append({'case': {'body': b}, 'detail': 'CRLF and LF decode differently',
                                          'key': {'stage': 'terminator'}})
        if not (a == c == e):
            res.disagreements.append({'case': {'body': b}, 'model': [a, c, e], 'impl': None,
                                      'relation': 'model: decode_line independent of terminator'})


def _scribble(x, depth=0):
    """mutate every mutable container reachable from a decoded request"""
    if depth > 4:
        return
    if isinstance(x, dict):
        for v in list(x.values()):
            _scribble(v, depth + 1)
        x['__scribbled__'] = 'X'
    elif isinstance(x, list):
        for v in x:
            _scribble(v, depth + 1)
        x.append('__scribbled__')
    elif hasattr(x, '__dict__') and type(x).__module__.startswith('lightstreamer_adapter'):
        for v in list(vars(x).values()):
            _scribble(v, depth + 1)


def history_independence(ctx, res):
    """decoding depends on the tokens alone: what one call returned (and what its caller then did to it) never shows
    up in a later call — in particular for empty maps / lists / no arguments at all"""
    g = wire.Gen(ctx.rng)
    n = 0
    for meth in wire.REQUEST_METHODS:
        qs = [g.request(meth) for _ in range(6)]
        # the emptiest request of each shape
        k = wire.SHAPE[meth]
        empties = {'WInit': (k, []), 'WNUS': (k, 'u', 'p', []), 'WNUA': (k, 'u', 'p', 'c', []), 'WNNS': (k, 'u', 's', []),
                   'WGIT': (k, []), 'WGUI': (k, 'u', []), 'WNNT': (k, 'u', 's', []), 'WNTC': (k, 's', [])}
        if k in empties:
            qs.append(empties[k])
        for q in qs:
            toks = [t.decode('ascii') for t in wire.encode_args(q)]
            first = wire.reader_of(meth)(list(toks))
            _scribble(first)
            n += 1
            res.evaluations += 1
            res.count('history-independence')
            kind, val = wire.impl_read(meth, list(toks))
            exp = wire.expected_request(q)
            if kind != 'ok' or val != exp:
                res.oracle_violations.append({'case': {'method': meth, 'tokens': toks, 'request': repr(q)[:400]},
                                              'detail': 'after the result of an earlier identical call was modified by its caller, decoding gives %s, expected %s'
                                                        % (sx.dumps(val)[:600] if kind == 'ok' else (kind, val), sx.dumps(exp)[:600]),
                                              'key': {'method': meth, 'stage': 'history'}})
    # through the servers: a bare init on a server with local parameters, then requests without headers / context
    for kind, init_line in (('meta', '1|MPI\r\n'), ('meta', '1|MPI|S|ARI.version|S|1.8.3\r\n'), ('data', '1|DPI|S|ARI.version|S|1.9.1\r\n')):
        with fixture.patched() as env:
            if kind == 'meta':
                ad = fixture.metadata_adapter({'get_allowed_max_bandwidth': lambda u: 1.5, 'wants_tables_notification': lambda u: True,
                                               'notify_user': lambda *a: None, 'notify_new_session': lambda *a: None,
                                               'notify_user_with_principal': lambda *a: None})
                srv = fixture.start_meta(env, ad, params={'local': 'L', 'other': 'M'}, handler=fixture.make_handler())
            else:
                ad = fixture.data_adapter({'issnapshot_available': lambda i: True})
                srv = fixture.start_data(env, ad, params={'local': 'L'}, handler=fixture.make_handler())
            fixture.feed(srv, init_line)
            fixture.feed(srv, '0|CLOSEX\r\n')
            n0 = len(ad.calls)
            if kind == 'meta':
                fixture.feed(srv, 'a1|NUS|S|u|S|p\r\n')
                fixture.feed(srv, 'a2|NNS|S|u|S|s\r\n')
                fixture.feed(srv, 'a3|NUA|S|u|S|p|S|c\r\n')
                want = [('notify_user', 'u', 'p', {}), ('notify_new_session', 'u', 's', {}), ('notify_user_with_principal', 'u', 'p', {}, 'c')]
                got = [c for c in ad.calls[n0:] if c[0] in ('notify_user', 'notify_new_session', 'notify_user_with_principal')]
            else:
                want, got = [], []
            res.evaluations += 1
            res.count('history-independence:server')
            if got != want:
                res.oracle_violations.append({'case': {'server': kind, 'init': init_line, 'local_params': True},
                                              'detail': 'requests without headers / context after the init reached the adapter as %r, expected %r' % (got, want),
                                              'key': {'stage': 'history', 'server': kind}})
    return n


def search(ctx, res):
    return None


def replay(ctx, data):
    """re-decode the recorded line with the real parse_request + read_* and compare with the recorded expected structure"""
    from lightstreamer_adapter import protocol
    case = data['case']
    line = case['line']
    if isinstance(line, str) and line.startswith('hex:'):
        line = bytes.fromhex(line[4:])
    elif isinstance(line, str):
        line = line.encode('latin-1')
    pr = protocol.parse_request(line.decode('ascii'))
    if pr is None:
        return True, 'parse_request returns None'
    kind, val = wire.impl_read(pr['method'], pr['data'])
    body = [sym('ok'), val] if kind == 'ok' else [sym('err'), val] if kind == 'err' else [sym('other'), val.encode()]
    impl = sx.dumps([sym('req'), pr['id'].encode(), sym(pr['method']), body])
    if 'expected' in case:
        return impl != case['expected'], 'decoded %s; expected %s' % (impl[:600], case['expected'][:600])
    if data.get('key', {}).get('stage') == 'delivery':
        return False, 'delivery case: re-run the check (decoded %s)' % impl[:300]
    return kind != 'ok', 'decoded %s' % impl[:600]
