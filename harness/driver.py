"""driver.py — talk to the extracted model (ocaml/driver.exe)."""
import os
import subprocess
import threading

import sx


class Driver:
    def __init__(self, exe):
        self.exe = exe
        self.proc = None

    def batch(self, calls, shards=None):
        """Evaluate many calls; returns the list of results (same order).
        Runs several driver processes in parallel for large batches."""
        if not calls:
            return []
        lines = [sx.dumps(c) for c in calls]
        n = len(lines)
        if shards is None:
            shards = 1 if n < 2000 else min(16, (n + 1999) // 2000)
        if shards <= 1:
            return self._run(lines)
        size = (n + shards - 1) // shards
        parts = [lines[i:i + size] for i in range(0, n, size)]
        results = [None] * len(parts)

        def work(k):
            results[k] = self._run(parts[k])
        ts = [threading.Thread(target=work, args=(k,)) for k in range(len(parts))]
        for t in ts:
            t.start()
        for t in ts:
            t.join()
        out = []
        for r in results:
            if r is None:
                raise RuntimeError('driver shard failed')
            out += r
        return out

    def _run(self, lines):
        data = ('\n'.join(lines) + '\n').encode('ascii')
        p = subprocess.run('ulimit -s unlimited 2>/dev/null; exec %s' % self.exe, shell=True,
                           input=data, stdout=subprocess.PIPE, stderr=subprocess.PIPE,
                           timeout=3000)
        outl = p.stdout.decode('ascii').split('\n')
        if outl and outl[-1] == '':
            outl.pop()
        if len(outl) != len(lines):
            raise RuntimeError('driver returned %d lines for %d calls (rc=%s, stderr=%r)'
                               % (len(outl), len(lines), p.returncode, p.stderr[-300:]))
        return [sx.loads(l) for l in outl]

    def call(self, c):
        return self.batch([c])[0]

    def close(self):
        pass
