#!/bin/sh
# usage: try_seeded.sh <seeded id> <PID> [<PID> ...] — run checks against a scratch worktree with the seeded change applied
id="$1"; shift
wt=/tmp/ts/$id; mkdir -p /tmp/ts; rm -rf "$wt"
git -C /repo worktree add -q --detach "$wt" HEAD || exit 2
git -C "$wt" apply /verif/seeded/$id/patch.diff || { echo "$id: patch does not apply"; git -C /repo worktree remove --force "$wt"; exit 3; }
for p in "$@"; do
  out=$(cd /verif && VERIF_OUT=/tmp/ts/out-$id VERIF_REPO="$wt" ./check $p 2>&1 | tail -4 | tr '\n' ' ')
  echo "$id $p: $out"
done
git -C /repo worktree remove --force "$wt"
