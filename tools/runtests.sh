#!/bin/sh
# usage: runtests.sh <tree>   — runs the repository's test suite against <tree> in a private network namespace
# (the suite binds the fixed port localhost:6662, so concurrent runs must not share a loopback)
T="$1"; shift
exec unshare -n sh -c "ip link set lo up; cd '$T' && PYTHONPATH='$T' PYTHONDONTWRITEBYTECODE=1 exec /venv/bin/python -m pytest -q -p no:cacheprovider --timeout=900 -x $*"
