#!/bin/sh
# every quick check on /repo; prints one line per property and a final count of clean ones (must be 20)
cd /verif || exit 2
n=0
for i in 01 02 03 04 05 06 07 08 09 10 11 12 13 14 15 16 17 18 19 20; do
  out=$(./check C$i 2>&1); rc=$?
  line=$(echo "$out" | grep -m1 "^C$i tier" | cut -c1-160)
  echo "rc=$rc $line $(echo "$out" | grep -m1 '^VIOLATION')"
  [ $rc -eq 0 ] && n=$((n+1))
done
echo "clean: $n/20"
