#!/bin/sh
# independent re-check of every compiled file the property theorems depend on; prints the axiom summary
cd /verif/coq || exit 2
mods=$(ls Props/*.v | sed 's#Props/\(.*\)\.v#LS.Props.\1#' | tr '\n' ' ')
exec timeout 3000 coqchk -silent -o -Q . LS $mods
