#!/bin/sh
# usage: try_patch.sh <patch.diff> <PID> [<PID> ...] — run checks against a scratch worktree of /repo HEAD with the patch applied
pf="$1"; shift
tag=$(echo "$pf" | md5sum | cut -c1-8)
wt=/tmp/ts/p-$tag; mkdir -p /tmp/ts; git -C /repo worktree remove --force "$wt" 2>/dev/null; rm -rf "$wt"; git -C /repo worktree prune
git -C /repo worktree add -q --detach "$wt" HEAD || exit 2
git -C "$wt" apply "$pf" || { echo "patch does not apply"; git -C /repo worktree remove --force "$wt"; exit 3; }
for p in "$@"; do
  out=$(cd /verif && VERIF_OUT=/tmp/ts/out-$tag VERIF_REPO="$wt" ./check $p 2>&1 | tail -3 | tr '\n' ' ' | cut -c1-400)
  echo "$p: $out"
done
git -C /repo worktree remove --force "$wt"; rm -rf /tmp/ts/out-$tag
