#!/bin/sh
# usage: seeded_matrix.sh [<seeded id> ...]   (default: all)
# For each seeded change: scratch worktree of /repo HEAD with the change applied, run the quick check of
# its own property (and of the extra properties listed in seeded/<id>/also) against it (VERIF_REPO),
# record the verdict lines in seeded/<id>/detect.txt, remove the worktree.
cd /verif || exit 2
ids="$@"; [ -z "$ids" ] && ids=$(ls seeded)
mkdir -p /tmp/ts
for id in $ids; do
  p=${id%%-*}
  extra=""; [ -f seeded/$id/also ] && extra=$(cat seeded/$id/also)
  wt=/tmp/ts/$id; rm -rf "$wt"
  git -C /repo worktree add -q --detach "$wt" HEAD || exit 2
  if ! git -C "$wt" apply /verif/seeded/$id/patch.diff; then echo "$id: patch does not apply"; git -C /repo worktree remove --force "$wt"; continue; fi
  : > seeded/$id/detect.txt
  for q in $p $extra; do
    VERIF_REPO="$wt" VERIF_OUT=/tmp/ts/out-$id ./check $q --tier quick > /tmp/ts/$id.$q.log 2>&1; rc=$?
    v=$(grep -m1 '^VIOLATION' /tmp/ts/$id.$q.log | sed "s#replay=[^ ]*/#replay=…/#")
    echo "check=$q exit=$rc ${v:-no VIOLATION line}" >> seeded/$id/detect.txt
    rp=$(grep -m1 '^VIOLATION' /tmp/ts/$id.$q.log | sed -n 's#.*replay=\([^ ]*\).*#\1#p')
    [ "$q" = "$p" ] && [ -f "$rp" ] && cp "$rp" seeded/$id/replay.json
  done
  git -C /repo worktree remove --force "$wt"; rm -rf /tmp/ts/out-$id
  echo "$id: $(tr '\n' ';' < seeded/$id/detect.txt)"
done
