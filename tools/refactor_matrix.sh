#!/bin/sh
# usage: refactor_matrix.sh [<name> ...]  — run the quick checks against scratch worktrees with each refactoring of /verif/refactors applied;
# every line must end in "0 disagreements, 0 oracle violations" with rc=0
cd /verif || exit 2
names="$@"; [ -z "$names" ] && names=$(ls refactors/*.diff | sed 's#refactors/##; s#\.diff##')
mkdir -p /tmp/ts
for n in $names; do
  wt=/tmp/ts/rfm-$n; rm -rf "$wt"
  git -C /repo worktree add -q --detach "$wt" HEAD || exit 2
  git -C "$wt" apply /verif/refactors/$n.diff || { echo "$n: patch does not apply"; git -C /repo worktree remove --force "$wt"; continue; }
  for i in 01 02 03 04 05 06 07 08 09 10 11 12 13 14 15 16 17 18 19 20; do
    p=C$i
    VERIF_OUT=/tmp/ts/rfm-out-$n VERIF_REPO="$wt" ./check $p > /tmp/ts/rfm-$n.$p.log 2>&1; rc=$?
    s=$(grep -m1 "^$p tier" /tmp/ts/rfm-$n.$p.log | sed 's/.*evaluations[^,]*, //')
    v=$(grep -m1 '^VIOLATION' /tmp/ts/rfm-$n.$p.log | sed 's#replay=[^ ]*/#replay=#')
    echo "$n $p rc=$rc $s $v"
  done
  git -C /repo worktree remove --force "$wt"; rm -rf /tmp/ts/rfm-out-$n
done
