#!/bin/sh
# usage: all_against_patch.sh <patch.diff> — every quick check against a scratch worktree of /repo HEAD with the patch applied
pf="$1"
tag=$(echo "$pf" | md5sum | cut -c1-8)
wt=/tmp/ts/a-$tag; mkdir -p /tmp/ts; rm -rf "$wt"
git -C /repo worktree add -q --detach "$wt" HEAD || exit 2
git -C "$wt" apply "$pf" || { echo "patch does not apply"; git -C /repo worktree remove --force "$wt"; exit 3; }
for i in 01 02 03 04 05 06 07 08 09 10 11 12 13 14 15 16 17 18 19 20; do
  p=C$i
  cd /verif && VERIF_OUT=/tmp/ts/out-$tag VERIF_REPO="$wt" ./check $p > /tmp/ts/a-$tag.$p.log 2>&1; rc=$?
  v=$(grep -m1 '^VIOLATION' /tmp/ts/a-$tag.$p.log | sed 's#replay=[^ ]*/#replay=#')
  s=$(grep -m1 "^$p tier" /tmp/ts/a-$tag.$p.log | sed 's/.*evaluations[^,]*, //')
  echo "$p rc=$rc $s $v"
done
git -C /repo worktree remove --force "$wt"
echo "logs: /tmp/ts/a-$tag.*.log   replays: /tmp/ts/out-$tag"
