#!/bin/sh
# usage: rundemo.sh <tree> <demo.py>  — runs a demonstration program against <tree> in a private network namespace
T="$1"; D="$2"
exec unshare -n sh -c "ip link set lo up; cd '$T' && PYTHONPATH='$T' PYTHONDONTWRITEBYTECODE=1 exec timeout 300 /venv/bin/python '$D'"
