#!/bin/sh
# usage: verify_seeded.sh <seeded id>  — confirm a seeded change in a scratch worktree of /repo HEAD:
# demo passes without the patch, patch applies, demo fails with it, the repository's test suite passes with it.
id="$1"; dir=/verif/seeded/$id; wt=/tmp/sv/$id
mkdir -p /tmp/sv; rm -rf "$wt"; git -C /repo worktree add -q --detach "$wt" HEAD || exit 2
res() { echo "$1"; }
d0=$(/verif/tools/rundemo.sh "$wt" "$dir/demo.py" >/tmp/sv/$id.demo0.log 2>&1; echo $?)
if git -C "$wt" apply --check "$dir/patch.diff" 2>/dev/null; then ap=ok; git -C "$wt" apply "$dir/patch.diff"; else ap=FAIL; fi
d1=$(/verif/tools/rundemo.sh "$wt" "$dir/demo.py" >/tmp/sv/$id.demo1.log 2>&1; echo $?)
t=$(/verif/tools/runtests.sh "$wt" >/tmp/sv/$id.tests.log 2>&1; echo $?)
tl=$(tail -1 /tmp/sv/$id.tests.log)
echo "$id apply=$ap demo_without=$d0 demo_with=$d1 tests_rc=$t [$tl]" > /tmp/sv/$id.result
git -C /repo worktree remove --force "$wt"
cat /tmp/sv/$id.result
