#!/usr/bin/env python3
"""Record in each seeded/<id>/meta.json what was confirmed by us (not by the sub-agent that wrote the change):
tools/verify_seeded.sh results (/tmp/sv/<id>.result) and the verdict of our checks (seeded/<id>/detect.txt)."""
import json
import os
import re
V = os.path.dirname(os.path.dirname(os.path.abspath(__file__)))
for sid in sorted(os.listdir(os.path.join(V, 'seeded'))):
    d = os.path.join(V, 'seeded', sid)
    mf = os.path.join(d, 'meta.json')
    if not os.path.isfile(mf):
        continue
    meta = json.load(open(mf))
    conf = meta.get('confirmed_by_us', {})
    rf = '/tmp/sv/%s.result' % sid
    if os.path.isfile(rf):
        t = open(rf).read().strip()
        m = re.search(r'apply=(\S+) demo_without=(\d+) demo_with=(\d+) tests_rc=(\d+) \[(.*)\]', t)
        if m:
            conf.update({'how': 'tools/verify_seeded.sh %s: scratch worktree of /repo HEAD; demo.py run without the patch, patch applied with git apply, '
                                'demo.py run with it, the repository test suite run with it (private network namespace)' % sid,
                         'patch_applies': m.group(1) == 'ok', 'demo_exit_without_patch': int(m.group(2)),
                         'demo_exit_with_patch': int(m.group(3)), 'test_suite_exit_with_patch': int(m.group(4)), 'test_suite_summary': m.group(5)})
    df = os.path.join(d, 'detect.txt')
    if os.path.isfile(df):
        conf['checks_run_against_it'] = [l.strip() for l in open(df) if l.strip()]
        conf['checks_how'] = 'tools/seeded_matrix.sh %s: ./check <property> --tier quick with VERIF_REPO pointing at a scratch worktree with the patch applied' % sid
    meta['confirmed_by_us'] = conf
    meta.setdefault('breaks_property', meta.get('property', sid.split('-')[0]))
    json.dump(meta, open(mf, 'w'), indent=1)
    print(sid, conf.get('test_suite_summary', '-')[:20], '|', '; '.join(conf.get('checks_run_against_it', []))[:110])
