#!/usr/bin/env python3
"""Build /verif/corpus from the replays recorded for the seeded changes (seeded/<id>/replay.json): the minimised
scenario + schedule on which each change was caught.  Corpus cases run first in every item-level / connection-level
check (on the unchanged tree they pass; they keep the checks sensitive to the same class of change)."""
import json
import os
V = os.path.dirname(os.path.dirname(os.path.abspath(__file__)))
ITEM = {'C01', 'C02', 'C03', 'C17', 'C19'}
SHELL = {'C04', 'C09', 'C10', 'C14', 'C18', 'C20'}
os.makedirs(os.path.join(V, 'corpus'), exist_ok=True)
n = 0
for sid in sorted(os.listdir(os.path.join(V, 'seeded'))):
    f = os.path.join(V, 'seeded', sid, 'replay.json')
    if not os.path.isfile(f):
        continue
    d = json.load(open(f))
    c = d.get('case')
    if not (isinstance(c, dict) and 'scenario' in c and 'schedule' in c):
        continue
    pid = sid.split('-')[0]
    sc = c['scenario']
    if pid in ITEM and isinstance(sc, dict) and 'chunks' in sc and 'lines' not in sc:
        kind = 'item'
    elif pid in SHELL and isinstance(sc, dict) and 'lines' in sc and 'classes' in sc:
        kind = 'shell'
    else:
        continue
    out = {'scenario': sc, 'schedule': c['schedule'], 'from': sid, 'detail': d.get('detail', '')[:300]}
    json.dump(out, open(os.path.join(V, 'corpus', '%s-%s.json' % (kind, sid)), 'w'), indent=1, sort_keys=True)
    n += 1
print('corpus files:', n)
