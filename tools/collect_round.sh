#!/bin/sh
# usage: collect_round.sh <round> Cxx — take the two seeded changes a sub-agent delivered for round <round>
# (/tmp/mut<round>/Cxx/out/m1,m2) into /verif/seeded/Cxx-m<2*round-1>, -m<2*round>, confirm them in scratch worktrees
# (tools/verify_seeded.sh) and run the property's check against them (tools/seeded_matrix.sh).
R="$1"; p="$2"
for k in 1 2; do
  src=/tmp/mut$R/$p/out/m$k; id=$p-m$((2*(R-1)+k))
  [ -f $src/patch.diff ] || { echo "$id: no patch"; continue; }
  mkdir -p /verif/seeded/$id && cp $src/patch.diff $src/demo.py $src/meta.json /verif/seeded/$id/
  /verif/tools/verify_seeded.sh $id
  /verif/tools/seeded_matrix.sh $id
done
git -C /repo worktree remove --force /tmp/mut$R/$p/tree 2>/dev/null
exit 0
