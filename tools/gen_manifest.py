#!/venv/bin/python
"""Regenerate /verif/MANIFEST.json from the table below (kept in one place so
that the claimed set, the not_applicable list and the engine list stay
consistent).  Run after adding a property module under harness/props/."""
import json
import os

VERIF = os.path.dirname(os.path.dirname(os.path.abspath(__file__)))

COMMON_NOTE = ('Trusted: Coq 8.16.1 kernel (vm_compute for finite sweeps, no native_compute), no axioms declared; '
               'the Gallina model is hand-written and tied to /repo by the behavioural correspondence run of this check '
               '(extracted with ExtrOcamlBasic only) and by Gen/Consts.v reflected from the live modules; ')

ITEM_NOTE = ("threaded code: the real classes run unmodified under a deterministic scheduler whose stand-ins for Lock/RLock, queue.Queue, ThreadPoolExecutor, Thread, socket, time yield before every shared action and after every lock release; one LTS step = one lock region / queue operation / adapter-call boundary (data-race freedom => region atomicity under the GIL: its premise is checked on every run by lockset tracing of the shared fields of subscription.py, and a tenth of the runs use line-granular preemption judged by the oracle only); schedule enumeration is exhaustive only within the stated preemption bound; termination is proved for the per-item system (measure) and as enabledness for the pool (no deadlock), not as a time bound; CPython memory management is outside the model (retention is stated on the library's own data structures).")

SHELL_NOTE = ("threaded code as for C01 (deterministic scheduler, stand-ins yielding before every shared action); ThreadPoolExecutor(n) modelled as a FIFO of jobs run once each by one of n workers that stores a job's exception, shutdown(wait) returning after all accepted jobs; request lines are abstracted to classes (the abstraction function Model/Classify.v is compared with the generator on every run; decoding is C06/C09, reply contents C07/C08 and Model/MetaHandlers.v); a Data server closed by the application while SUB/USB still arrive (submit raising inside add_task) is not modelled and counted as unmodelled; socket.close() waking a blocked recv and real process exit are assumptions.")

CLAIMS = {
    'C01': dict(
        text='Coq theorems over the per-item LTS Model/Item.v (one step = one lock region / queue put / adapter-call boundary; any number of dequeuer jobs, adapter threads, requests, steps): c01_at_most_once, c01_exactly_once_at_rest, '
             'c01_never_discarded, c01_status (each reply line is exactly the success / adapter error / "too late" error the property prescribes), lifted to any number of items and any pool policy (c01_all_items). '
             'Proved by an inductive invariant (Proofs/ItemInv.v, 15 conjuncts, ~9 kLOC of proofs) for EVERY interleaving. The real DataProviderServer runs under a deterministic scheduler and every executed step is replayed through the model '
             '(label accepted, lines enqueued per step, invariants and monitors along the trace, final state), with bounded-exhaustive DFS, PCT and random schedules; the property text is evaluated as an oracle on the implementation traces.',
        ref='6 C01', note=ITEM_NOTE,
        tech='Coq proof (inductive invariant over an LTS, history monitors) + step-by-step correspondence of the real threaded code under a deterministic scheduler + oracle; bounded-exhaustive / PCT / random schedules for model validation and failing-schedule search'),
    'C02': dict(
        text='Coq theorems c02_serial_and_paired (calls never overlap; unsubscribe only right after a subscribe that returned), c02_single_dequeuer, c02_arrival_order, c02_right_method, c02_skipped_only_if_later, c02_latest_not_skipped, '
             'c02_latest_executed (Props/C02.v) for every reachable state of the per-item LTS = every interleaving, any pool size; same correspondence and oracle machinery as C01 (adapter call windows from logical step numbers).',
        ref='6 C02', note=ITEM_NOTE,
        tech='Coq proof (inductive invariant + history monitors over an LTS) + scheduler-driven correspondence of the real code + oracle'),
    'C03': dict(
        text='Coq theorems c03_item_and_payload, c03_id_published, c03_published_not_skipped, c03_inside_subscribe, c03_between, c03_dropped, c03_never_subscribed, c03_after_unsubscription, c03_no_stale_id (Props/C03.v) over the per-item LTS with '
             'listener calls from inside subscribe()/unsubscribe() and from any number of adapter threads at arbitrary moments; same correspondence machinery as C01, with nested and free listener calls scripted into the scenarios and a probe event after quiescence.',
        ref='6 C03', note=ITEM_NOTE,
        tech='Coq proof (inductive invariant + history monitors over an LTS) + scheduler-driven correspondence of the real code + oracle'),
    'C17': dict(
        text='Coq theorems c17_library_eos (monitor: exactly one library end-of-snapshot with the subscription id after a False availability answer and before subscribe() begins; none otherwise; no subscribe() after a raising query), '
             'c17_eos_tag, c17_query_error_reported, c17_none_for_skipped (Props/C17.v) over the per-item LTS; same correspondence machinery as C01 with per-item availability in {True, False, raises}.',
        ref='6 C17', note=ITEM_NOTE,
        tech='Coq proof (inductive invariant + history monitor over an LTS) + scheduler-driven correspondence of the real code + oracle'),
    'C18': dict(
        text='Coq theorems c18_pool_size (configured size; CPU count when 0, negative or None; 4 when unavailable), c18_on_workers_only, c18_inside_jobs, c18_non_blocking (in every state with a worker inside an adapter call the reader, the writer and every idle worker with a queued job can step), '
             'c18_pool_of_one (calls never overlap, jobs complete in arrival order) over Model/Shell.v (Props/C18.v). Correspondence as for C04, with the executing thread of every adapter call recorded, pool sizes None,-3,0,1,2,3 with cpu=3, and scenarios in which an adapter call '
             'is held until a later request has been read, answered and written (Metadata and Data).',
        ref='6 C18',
        note=SHELL_NOTE,
        tech='Coq proof (invariants and enabledness lemmas over a connection-level LTS, pool sizing by arithmetic) + scheduler-driven correspondence + oracle'),
    'C19': dict(
        text='Coq theorems c19_clean_after_unsubscription, c19_no_entry_no_reference, c19_events_dropped, c19_live_after_subscription, c19_never_requested, c19_counters_at_rest, c19_bounded (Props/C19.v) over the per-item LTS, '
             'covering in particular an arrival between the dequeuer exit and its bookkeeping update (two lock regions of the same lock, all interleavings); the final per-item state of the real objects is compared with the model on every quiescent run.',
        ref='6 C19', note=ITEM_NOTE,
        tech='Coq proof (counter / generation invariants over an LTS) + scheduler-driven correspondence incl. end-state comparison + oracle'),
    'C10': dict(
        text='Coq theorems over the connection-level LTS Model/Shell.v (any interleaving of starter, reader, writer, workers, application and adapter threads; any chunking incl. all requests in one chunk; any adapter outcome): '
             'c10_gate (monitor gate_ok: initialize begins at most once and before any other adapter call, has returned before any other begins; Data: set_listener right after a successful initialize and before any other call), '
             'c10_nothing_before_init (invariant: while the init request is expected nothing was submitted to the pool and no adapter method was touched), c10_once, c10_init_reply_first, '
             'c10_early_request_rejected / c10_late_init_rejected (no job, no call, no line; handler only) (Props/C10.v). The real servers run under the deterministic scheduler on generated sessions with the init request absent, once or several times at arbitrary positions, '
             'back-to-back in one chunk or spread; every step is replayed through the model and the property text is the oracle (adapter call log with logical time, socket output, handler log).',
        ref='6 C10',
        note=SHELL_NOTE,
        tech='Coq proof (inductive invariants and history monitors over a connection-level LTS) + scheduler-driven correspondence of the real servers + oracle'),
    'C14': dict(
        text='Coq theorems c14_enqueued_first (monitor rac_first: the first line ever enqueued is the credentials message, by the starting thread, never a second one), c14_nothing_can_precede (invariant: until then no reader, no job, no application handle), '
             'c14_written_in_queue_order, c14_first_written, c14_exactly_once over Model/Shell.v for every interleaving and chunking (requests readable at connect time included), and c14_content for every credential configuration '
             '(decodes to user iff configured, password iff configured, empty string as the empty token, enableClosePacket=true, SDK name; Props/C14.v). Server.start runs on a scheduled thread with request bytes already readable; '
             'all interleavings of small sessions are enumerated (bounded-exhaustive) and larger ones sampled; the first written line is compared byte for byte with the model writer for generated credentials.',
        ref='6 C14',
        note=SHELL_NOTE,
        tech='Coq proof (start-up invariant + monitors over a connection-level LTS; codec theorem for the content) + scheduler-driven correspondence + oracle'),
    'C20': dict(
        text='Coq theorems over the connection-level LTS Model/Shell.v with faults as labels (recv returning EOF / raising between ANY two chunks, raising after the server\'s own close, sendall failing on ANY line): '
             'c20_close_honoured / c20_close_ignored / c20_close_bad_id, c20_close_sequence, c20_join_waits_for_writer, c20_shutdown_waits_for_pool, c20_closed_means_drained (invariant: socket closed by the library => writer ended, pool drained, every accepted job completed), '
             'c20_no_fault_no_report, c20_writer_drains, c20_exit_only_after_report (monitor exit_ok along every execution), c20_read_fault, c20_own_close_silent, c20_handler_decides_reader / _writer (exit iff the handler returns True), c20_write_fault, c20_reclose (Props/C20.v). '
             'The real servers run under the deterministic scheduler with scripted EOF / ECONNRESET after each chunk position (before init, mid-line, between requests), the k-th write failing, handler absent / returning True / False / None, agreed versions none / 1.8.2 / 1.8.3, close ids 0 / other, '
             'application close() once or twice; os._exit is substituted by a recording primitive that halts the run; every step is replayed through the model and the property text is the oracle (handler calls, exit calls, socket close, bytes written after the fault). Faults also hit in the middle of the last line (between CR and LF, before the terminator, inside a token); six classes of injected I/O errors; a failing write may leave a fragment. With a positive keepalive interval (virtual time) the timed writer loop of C13 is extended with write faults (Model/SenderFault.v): c20_timed_fault_reported_once, c20_exit_iff, c20_fault_hits_any_write, c20_timer_keepalive_fault_reported (a fault on the KEEPALIVE the timer produced is reported like any other), c20_nothing_after_fault, c20_wire_before_fault, c20_fault_free_is_c13; both real servers run with the 1st..9th sendall failing, whatever it carries, and are compared with the model (writes with times, sendall attempts, handler notifications, exits).',
        ref='6 C20',
        note=SHELL_NOTE + ' Runtime facts assumed, not modelled: socket.close() waking a blocked recv is OS dependent (scripted as an error on the next recv); os._exit never returns.',
        tech='Coq proof (inductive invariants, history monitors and step lemmas over a connection-level LTS with fault labels) + scheduler-driven fault-injection correspondence + oracle'),
    'C04': dict(
        text='Coq theorems over the connection-level LTS Model/Shell.v (starter, reader, writer, n pool workers, application and adapter threads; any interleaving, chunking, adapter outcome, fault): '
             'c04_pool_discipline (monitor pool_ok: every job started once in FIFO order; a Metadata job = adapter calls, then EXACTLY ONE of its reply — with its own id — or one handler notification, then its end), '
             'c04_reply_at_most_once, c04_all_jobs_end, c04_one_outcome_each, c04_isolated; content of the job over Model/MetaHandlers.v (the fourteen _on_* handlers as interaction scripts): c04_calls (the adapter calls are the interface table of the request, each once, in order, cut only by a raising call), c04_data_reply, c04_error_reply, c04_decoded_arguments (end to end with the request codec, for every well-formed encoded request and every script of adapter outcomes), c04_rejected_no_call (Props/C04.v). The real MetadataProviderServer runs under the deterministic scheduler on generated sessions (all 14 methods, valid / wrong-typed / raising at the k-th adapter call, '
             'malformed and unknown lines, pool None,-3,0,1,2,3, handler configurations, faults, blocked adapter calls); every step is replayed through the model (labels accepted, invariants and monitors along the trace, final state) and the property text is the oracle (reply count and status, adapter calls per request, handler count); handler content: generated requests with per-call outcomes (right-typed / wrong-typed returns, 24 exception classes) through the real server vs Model.MetaHandlers.handle_tokens (calls with arguments, reply line / handler / silent).',
        ref='6 C04',
        note=SHELL_NOTE,
        tech='Coq proof (inductive invariants and history monitors over a connection-level LTS) + scheduler-driven correspondence of the real server + oracle'),
    'C05': dict(
        text='Coq theorems c05_alphabet / c05_sep_free / c05_roundtrip / c05_special_only / c05_injective / c05_alt (Props/C05.v) hold for '
             'every list of Unicode scalar values of any length (UTF-8 model + quote_plus model, per-byte facts closed by vm_compute over all '
             '256 bytes and lifted by induction); the model is compared with protocol.encode_string / decode_string on every run (thorough: '
             'all 1,112,064 scalar values and all strings of length <= 3 over the reserved alphabet) and the property text is evaluated as an oracle. The check also covers every use site (each text slot of each writer carries exactly the codec token) and concurrent use (scheduled threads with line-granular preemption).',
        ref='6 C05',
        note='urllib.parse.quote_plus/unquote_plus and the UTF-8 codec are modelled, not verified; invalid UTF-8 after unquoting is outside the model.',
        tech='Coq proof (induction over scalar lists, exhaustive 256-byte sweeps by vm_compute) + extracted-model vs implementation differential check + oracle'),
    'C06': dict(
        text='Coq theorem c06_roundtrip (Props/C06.v): for all 18 request kinds, all ids, all argument values (texts, ints, modes, platform codes, maps, lists, '
             'table lists of any length) and both terminators, decode_line (encode_line ...) returns id, method and exactly the values in their roles; '
             'c06_term_indep for every line body. The reference encoder (specification side) is cross-checked byte for byte against an independent Python '
             'restatement, the reader model against the real parse_request + read_* functions, and delivery to the adapter through the real servers. Decoding is also checked to be independent of history: results of earlier calls are modified and the call repeated; bare init with local parameters followed by header-less requests through both servers.',
        ref='6 C06',
        note='int() limited to 4300 digits (hypothesis ints_ok); Python str compared as UTF-8 bytes.',
        tech='Coq proof (token-list induction, symbolic evaluation of fixed offsets) + differential check of reader model and spec encoder + oracle through the real server'),
    'C07': dict(
        text='Coq theorems c07_lists / c07_item_data / c07_notify_user / c07_update / c07_item_notify / c07_failure / c07_void / c07_init_reply (Props/C07.v): for every datum of supported types '
             '(texts of any content, lists / dicts / field lists of any length, all ints, every order and subset of modes, bytes values, None) the writer yields one CR/LF-free line which the reference ARI decoder '
             '(Model/AriReply.v, specification side) parses back to exactly the supplied data, with a token count that is a function of the list lengths only; c07_*_unsupported: an unsupported type in any slot '
             'yields an error and no line. Writers model vs the real write_* functions, Coq reference decoder vs an independent Python ARI decoder, and lines produced through the real servers are compared on every run. Every character of every written line is checked against the protocol alphabet; the id / timestamp envelope (Model/Envelope.v: c07_reply_envelope, c07_notify_envelope) is compared on the real servers; GIT / GUI with repeated item names through the server.',
        ref='6 C07',
        note='float.__repr__/float() are CPython facts: a float is carried as its repr token (hypothesis ftok_ok: non-empty, separator-free) and float(token) == value is checked by the oracle across magnitudes; '
             'base64 and quote_plus are modelled; a non-dict events map / a str where a list is expected are outside the property.',
        tech='Coq proof (induction over data lists, split/join lemma, base64 and codec round trips) + differential check of writer model and of the spec decoder + oracle with an independent decoder'),
    'C08': dict(
        text='Coq theorems c08_library_classes / c08_unrelated_class / c08_user_subclass (Props/C08.v): for all 18 methods, all 10 library classes (pairs in scope), foreign classes and user subclasses, and ALL messages, '
             'codes, user messages (None vs empty) and session ids, the error reply decodes (reference decoder) to the designated subtype letter iff the protocol table designates the class for the method, else generic, with the payload recovered exactly; '
             'the letters and subclass relation are reflected from the live _EXCEPTIONS_MAP / class objects (Gen/Consts.v), the designated tuples are compared exhaustively on the 18 x 14 matrix on every run.',
        ref='6 C08',
        note='str(exception) taken as data; ConflictingSessionError outside notify_new_session is unspecified and excluded.',
        tech='Coq proof (finite method x class matrix by vm_compute, composed with the codec round trip for unbounded payloads) + exhaustive-matrix differential check + oracle'),
    'C09': dict(
        text='Coq theorems c09_total (every decorated reader on EVERY token list: success or the protocol error naming the method), c09_truncated / c09_truncated_table_* (every truncation inside fixed fields or inside a table descriptor), '
             'c09_wrong_marker(_tables), c09_non_integer(_tables), c09_unknown_mode, c09_unknown_platform (Props/C09.v) over the reference encoding of arbitrary well-formed requests. Reader model vs the real read_* functions on a malformed stream '
             '(result and message compared), behavioural check that each of the 18 readers turns any failure of its body into the protocol error naming its method, and malformed-then-valid sequences through both real servers (no adapter call, no reply, one handler call / one FAL, service continues). Mode tokens: c09_mode_accepted_only_if_exact / c09_mode_unknown_rejected (accepted iff null / empty marker or exactly one mode code).',
        ref='6 C09',
        note='int() modelled on ASCII tokens up to 4300 digits; the server-level clause is decided by the oracle on the real servers and by the Dispatch model (C10), not by a separate theorem here.',
        tech='Coq proof (case analysis over positions of symbolic token lists, induction over table lists) + differential check on a structured malformed stream + oracle through the real servers'),
    'C11': dict(
        text='Coq theorems c11_table (for EVERY announced version string, both kinds, every outcome: refusal without initialize / bare success / success announcing the agreed version, per the table of the property), c11_table_meta / c11_table_data '
             '(the table spelled out), c11_params (local wins, reserved keys never from the Proxy), c11_listener, c11_error_typed, c11_close_flag, c11_hint_regardless, c11_malformed_hint_discarded (a hint value that float() certainly rejects is discarded; the reply never depends on the hint) (Props/C11.v). Init model vs the real servers '
             '(initialize arguments, set_listener, reply line, close flag, hint handed over), the close flag observed by sending a real CLOSE request, and the Coq table vs the property text restated in Python; the value of the reserved hint key ranges over numbers, non-numbers and arbitrary text.',
        ref='6 C11',
        note='the keepalive hint text is compared as handed over (its effect is C12); exception messages of refusals are modelled literally.',
        tech='Coq proof (finite case split on five literal comparisons and one prefix test, dict lemmas) + differential check through the real servers + oracle'),
    'C12': dict(
        text='Coq theorems c12_no_hint / c12_nonpositive / c12_positive / c12_bound (Props/C12.v) prove the whole decision tree for every configured interval and every hint over exact rationals, '
             'with the constants reflected from the live Server class; the model (Model/Keepalive.v) is compared with the real servers on a complete boundary grid x both kinds x init outcomes '
             'plus random pairs on every run, and the property text is evaluated as an oracle on the same runs.',
        ref='6 C12',
        note='binary64 rounding of keep_alive*1000 and /1000 replaced by exact rationals (compared with 1e-12 relative tolerance, cases within 1e-9 of the h = configured*1000 boundary compared by oracle only); float(hint) taken as data. How the writer uses the interval is C13.',
        tech='Coq proof (case analysis + lra over Q) on an executable model; extracted-model vs implementation differential check; oracle search for a failing input when either breaks'),
    'C13': dict(
        text='Coq theorems over the timed transition system Model/Sender.v (the writer loop in virtual time, exact rationals): c13_silence_bounded (while a wait with timeout T is in progress the silence never exceeds T), '
             'c13_gaps (every gap between consecutive writes <= T; a KEEPALIVE by timeout comes after EXACTLY T), c13_wait_is_interval / c13_positive_interval_enables (T is the interval current when the wait began), c13_disabled, '
             'c13_change, c13_lines_intact / c13_only_keepalives_added — for every sequence of delays, timeouts, submissions and interval changes. The real _Sender runs in virtual time (virtual queue and clock) on scripted timed histories '
             '(gaps just below / at / above K, bursts, idle periods of thousands of K, changes, pills, None, stop) and the interval change at init through the real MetadataProviderServer; every environment action is replayed through the model, '
             'whose guards refuse a timeout that fires at another moment than the model says; oracle from the property text on (virtual time, line). A Data-server part in virtual time checks that every written line (replies, notifications, the FAL of the default exception handling) comes from the one writer and restarts the silence.',
        ref='6 C13',
        note='virtual time: queue.get(timeout=T) raises Empty after exactly T of silence, writes take no time; OS timer slack and a sendall that blocks are not exhibited; an interval change takes effect when the next wait begins (around a change the oracle accepts any interval in force during the gap; the model comparison is exact).',
        tech='Coq proof (invariant over a timed transition system, lra on Q) + virtual-time correspondence of the real writer loop + oracle'),
    'C16': dict(
        text='Coq theorems over Model/Outbound.v (any number of producers, FIFO queue, single writer scheduled arbitrarily late): c16_no_loss_no_dup, c16_per_thread_order, c16_puts_in_program_order, c16_stream_is_lines, '
             'c16_lines_recoverable(_partial) (splitting the byte stream on CRLF returns exactly the written messages, also mid-write), c16_dead_writes_nothing, c16_nested_before_reply. The real DataProviderServer runs under the deterministic scheduler '
             'with the writer NOT scheduled eagerly, up to 7 adapter threads plus pool workers submitting replies, updates (payloads up to > 64 KiB), EOS/CLS and failures, occasional write faults; every put / get / sendall is replayed through the model; '
             'oracle from the property text; the thorough tier adds a real-thread real-socketpair stress (a test). A quarter of the runs use line-granular preemption (oracle only); a third run with DEBUG logging enabled; the oracle checks per listener call that the line enqueued carries that call\'s whole payload; a failing write may leave a fragment (torn-line oracle).',
        ref='6 C16',
        note=ITEM_NOTE + ' queue.Queue is modelled as a linearizable FIFO list, socket.sendall as atomic and complete; the real-thread stress run is a test, not part of the proof.',
        tech='Coq proof (conservation invariant over an LTS, list lemmas for CRLF splitting) + scheduler-driven correspondence of the real code + oracle (+ real-thread stress in thorough)'),
    'C15': dict(
        text='Coq theorem c15_segmentation (Props/C15.v): for every list of lines (CRLF or LF terminated, bodies free of line-boundary characters), every incomplete tail and EVERY list of chunks '
             'whose concatenation is that stream, folding the reader-loop step over the chunks dispatches exactly those lines, once, in order, and holds back the tail - no bound on lines, chunks or cut positions. '
             'The step function is compared chunk by chunk with the real _RequestManager._do_run over a scripted socket (every placement of up to 3 cuts on short streams, byte-at-a-time, random). Reads are bounded by the recv size (long streams cut at its multiples); connections ending on a partial line, and connections following them in the same process, are covered.',
        ref='6 C15',
        note='str.splitlines / decode("ascii") modelled (all eight ASCII line boundaries); socket.recv scripted.',
        tech='Coq proof (induction over the chunk list with a buffer invariant) + differential check against the real reader loop + oracle'),
}

ALL = ['C%02d' % i for i in range(1, 21)]


def main():
    checks = []
    for pid in ALL:
        if pid not in CLAIMS:
            continue
        c = CLAIMS[pid]
        checks.append({
            'property_id': pid,
            'quick_cmd': './check %s --tier quick' % pid,
            'thorough_cmd': './check %s --tier thorough' % pid,
            'evidence_file': '/verif/evidence/%s.json' % pid,
            'replay_cmd_template': './check %s --replay {path}' % pid,
            'engine': 'coq-model+correspondence',
            'level_claimed': {'category': 'proof', 'text': c['text'], 'design_ref': c['ref']},
            'level_note': COMMON_NOTE + c['note'],
            'technique': c['tech'],
        })
    na = [{'property_id': p, 'reason': 'check not built yet (work in progress; see DESIGN.md section 10 for the build order)'}
          for p in ALL if p not in CLAIMS]
    man = {
        'version': 1,
        'setup_cmd': './setup.sh',
        'hooks': {
            'guard': 'LS_ADAPTER_VERIF',
            'enable': 'no hook in /repo is needed: the harness rebinds module globals of the imported library (DESIGN.md section 4); the guard variable is read by nothing in /repo',
            'baseline_off_cmd': 'cd /repo && /venv/bin/python -m pytest -ra -q -p no:cacheprovider --timeout=900',
            'source_commits': [],
            'add_only': True,
        },
        'checks': checks,
        'notes': 'Coq 8.16.1 proofs over a hand-written executable model tied to /repo by a behavioural correspondence check; see DESIGN.md. '
                 'Genuine defects repaired in /repo by "fix:" commits are listed in known_findings.json.',
        'not_applicable': na,
        'engines': [{
            'name': 'coq-model+correspondence', 'path': '/verif/check',
            'serves_properties': [c['property_id'] for c in checks],
            'kind_free_text': 'Coq 8.16.1 theorems over a hand-written Gallina model (coq/), extracted to OCaml (ocaml/driver.ml) and compared with the Python implementation by harness/runner.py',
        }],
    }
    with open(os.path.join(VERIF, 'MANIFEST.json'), 'w') as f:
        json.dump(man, f, indent=1)
        f.write('\n')
    print('claimed:', [c['property_id'] for c in checks])


if __name__ == '__main__':
    main()
