#!/bin/sh
# usage: collect_round2.sh Cxx — take the two round-2 seeded changes of a sub-agent (/tmp/mut${R:-2}/Cxx/out/m1,m2) into
# /verif/seeded/Cxx-m3, Cxx-m4, confirm them in scratch worktrees and run the property's check against them.
p="$1"
for k in 1 2; do
  src=/tmp/mut${R:-2}/$p/out/m$k; id=$p-m$((k+2))
  [ -f $src/patch.diff ] || { echo "$id: no patch"; continue; }
  mkdir -p /verif/seeded/$id && cp $src/patch.diff $src/demo.py $src/meta.json /verif/seeded/$id/
  /verif/tools/verify_seeded.sh $id
  /verif/tools/seeded_matrix.sh $id
done
git -C /repo worktree remove --force /tmp/mut${R:-2}/$p/tree 2>/dev/null
