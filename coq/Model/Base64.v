(* Model/Base64.v — Python's base64.b64encode (standard alphabet
   A-Z a-z 0-9 + /, '=' padding) and a strict reference decoder for canonical
   padded base64.  Executable definitions only (no proofs here).

   Never pattern-match on ascii literals: characters are built from / compared
   through their codes. *)
From Coq Require Import List Ascii NArith Bool.
From LS Require Import Model.Bytes.
Import ListNotations.
Open Scope bool_scope.
Local Open Scope N_scope.

Definition c_slash : ascii := ascii_of_N 47.   (* '/' *)
Definition c_eq : ascii := ascii_of_N 61.      (* '=' *)

(* sextet 0..63 -> character of the standard alphabet *)
Definition b64_char (n : N) : ascii :=
  if N.ltb n 26 then ascii_of_N (65 + n)            (* 'A' + n        *)
  else if N.ltb n 52 then ascii_of_N (71 + n)       (* 'a' + (n - 26) *)
  else if N.ltb n 62 then ascii_of_N (n - 4)        (* '0' + (n - 52) *)
  else if N.eqb n 62 then c_plus
  else c_slash.

(* character -> sextet; None outside the alphabet ('=' is not a digit) *)
Definition b64_val (c : ascii) : option N :=
  if is_upper c then Some (code c - 65)
  else if is_lower c then Some (code c - 71)
  else if is_digit c then Some (code c + 4)
  else if Ascii.eqb c c_plus then Some 62
  else if Ascii.eqb c c_slash then Some 63
  else None.

(* the four sextets of a 3-byte group with codes x y z *)
Definition sext1 (x : N) : N := x / 4.
Definition sext2 (x y : N) : N := (x mod 4) * 16 + y / 16.
Definition sext3 (y z : N) : N := (y mod 16) * 4 + z / 64.
Definition sext4 (z : N) : N := z mod 64.

(* base64.b64encode *)
Fixpoint b64_enc (b : bytes) : bytes :=
  match b with
  | [] => []
  | x :: r1 =>
      match r1 with
      | [] =>
          [ b64_char (sext1 (code x)); b64_char (sext2 (code x) 0); c_eq; c_eq ]
      | y :: r2 =>
          match r2 with
          | [] =>
              [ b64_char (sext1 (code x)); b64_char (sext2 (code x) (code y));
                b64_char (sext3 (code y) 0); c_eq ]
          | z :: r3 =>
              b64_char (sext1 (code x))
              :: b64_char (sext2 (code x) (code y))
              :: b64_char (sext3 (code y) (code z))
              :: b64_char (sext4 (code z))
              :: b64_enc r3
          end
      end
  end.

(* the three bytes recombined from four sextets *)
Definition octet1 (v1 v2 : N) : ascii := ascii_of_N (v1 * 4 + v2 / 16).
Definition octet2 (v2 v3 : N) : ascii := ascii_of_N ((v2 mod 16) * 16 + v3 / 4).
Definition octet3 (v3 v4 : N) : ascii := ascii_of_N ((v3 mod 4) * 64 + v4).

(* a full (unpadded) quantum: four alphabet characters -> three bytes *)
Definition b64_dec_quad (c1 c2 c3 c4 : ascii) : option bytes :=
  match b64_val c1, b64_val c2, b64_val c3, b64_val c4 with
  | Some v1, Some v2, Some v3, Some v4 =>
      Some [octet1 v1 v2; octet2 v2 v3; octet3 v3 v4]
  | _, _, _, _ => None
  end.

(* the final padded quantum  c1 c2 c3 '='  (c3 may itself be '=');
   strict: the unused trailing bits must be zero *)
Definition b64_dec_pad (c1 c2 c3 : ascii) : option bytes :=
  match b64_val c1, b64_val c2 with
  | Some v1, Some v2 =>
      if Ascii.eqb c3 c_eq then
        if N.eqb (v2 mod 16) 0 then Some [octet1 v1 v2] else None
      else
        match b64_val c3 with
        | Some v3 =>
            if N.eqb (v3 mod 4) 0 then Some [octet1 v1 v2; octet2 v2 v3]
            else None
        | None => None
        end
  | _, _ => None
  end.

(* strict decoder: length a multiple of 4, alphabet characters only, padding
   ('=' or '==') only in the last quantum, zero trailing bits *)
Fixpoint b64_dec (s : bytes) : option bytes :=
  match s with
  | [] => Some []
  | c1 :: t1 =>
      match t1 with
      | [] => None
      | c2 :: t2 =>
          match t2 with
          | [] => None
          | c3 :: t3 =>
              match t3 with
              | [] => None
              | c4 :: r =>
                  if Ascii.eqb c4 c_eq then
                    if is_nil r then b64_dec_pad c1 c2 c3 else None
                  else
                    match b64_dec_quad c1 c2 c3 c4 with
                    | Some g =>
                        match b64_dec r with
                        | Some d => Some (g ++ d)
                        | None => None
                        end
                    | None => None
                    end
              end
          end
      end
  end.

(* the output alphabet of b64_enc *)
Definition b64_alpha (c : ascii) : bool :=
  is_alnum c || Ascii.eqb c c_plus || Ascii.eqb c c_slash || Ascii.eqb c c_eq.
