(* Model/Tags.v — finite enumerations shared by the generated constants file
   (Gen/Consts.v) and the model. *)
From Coq Require Import List Ascii String NArith Bool.
From LS Require Import Model.Bytes.
Import ListNotations.

(* the ten exception classes the library defines *)
Inductive lib_class :=
| CMetadataProviderError | CNotificationError | CAccessError | CItemsError
| CSchemaError | CCreditsError | CConflictingSessionError
| CDataProviderError | CSubscribeError | CFailureError.

Definition all_lib_classes : list lib_class :=
  [CMetadataProviderError; CNotificationError; CAccessError; CItemsError;
   CSchemaError; CCreditsError; CConflictingSessionError;
   CDataProviderError; CSubscribeError; CFailureError].

Definition lib_class_idx (c : lib_class) : N :=
  match c with
  | CMetadataProviderError => 0 | CNotificationError => 1 | CAccessError => 2
  | CItemsError => 3 | CSchemaError => 4 | CCreditsError => 5
  | CConflictingSessionError => 6 | CDataProviderError => 7
  | CSubscribeError => 8 | CFailureError => 9
  end%N.

Definition lib_class_eqb (a b : lib_class) : bool :=
  N.eqb (lib_class_idx a) (lib_class_idx b).

Definition lib_class_name (c : lib_class) : string :=
  match c with
  | CMetadataProviderError => "MetadataProviderError"
  | CNotificationError => "NotificationError"
  | CAccessError => "AccessError"
  | CItemsError => "ItemsError"
  | CSchemaError => "SchemaError"
  | CCreditsError => "CreditsError"
  | CConflictingSessionError => "ConflictingSessionError"
  | CDataProviderError => "DataProviderError"
  | CSubscribeError => "SubscribeError"
  | CFailureError => "FailureError"
  end.

(* request / reply methods of the two sub-protocols plus the common ones *)
Inductive meth :=
| MDPI | MSUB | MUSB                                 (* data requests *)
| MMPI | MNUS | MNUA | MNNS | MNSC | MGIS | MGSC | MGIT | MGUI
| MNUM | MNNT | MNTC | MMDA | MMSA | MMDC            (* metadata requests *)
| MUD3 | MEOS | MCLS | MFAL                          (* data notifications *)
| MKEEPALIVE | MRAC | MCLOSE.                        (* common *)

Definition request_methods : list meth :=
  [MDPI; MSUB; MUSB; MMPI; MNUS; MNUA; MNNS; MNSC; MGIS; MGSC; MGIT; MGUI;
   MNUM; MNNT; MNTC; MMDA; MMSA; MMDC].

Definition all_meths : list meth :=
  request_methods ++ [MUD3; MEOS; MCLS; MFAL; MKEEPALIVE; MRAC; MCLOSE].

Definition meth_idx (m : meth) : N :=
  match m with
  | MDPI => 0 | MSUB => 1 | MUSB => 2 | MMPI => 3 | MNUS => 4 | MNUA => 5
  | MNNS => 6 | MNSC => 7 | MGIS => 8 | MGSC => 9 | MGIT => 10 | MGUI => 11
  | MNUM => 12 | MNNT => 13 | MNTC => 14 | MMDA => 15 | MMSA => 16 | MMDC => 17
  | MUD3 => 18 | MEOS => 19 | MCLS => 20 | MFAL => 21
  | MKEEPALIVE => 22 | MRAC => 23 | MCLOSE => 24
  end%N.

Definition meth_eqb (a b : meth) : bool := N.eqb (meth_idx a) (meth_idx b).

(* identifier of the enum member in the library source (module.Method.<name>) *)
Definition meth_ident (m : meth) : string :=
  match m with
  | MDPI => "DPI" | MSUB => "SUB" | MUSB => "USB" | MMPI => "MPI" | MNUS => "NUS"
  | MNUA => "NUA" | MNNS => "NNS" | MNSC => "NSC" | MGIS => "GIS" | MGSC => "GSC"
  | MGIT => "GIT" | MGUI => "GUI" | MNUM => "NUM" | MNNT => "NNT" | MNTC => "NTC"
  | MMDA => "MDA" | MMSA => "MSA" | MMDC => "MDC" | MUD3 => "UD3" | MEOS => "EOS"
  | MCLS => "CLS" | MFAL => "FAL" | MKEEPALIVE => "KEEPALIVE" | MRAC => "RAC"
  | MCLOSE => "CLOSE"
  end.

Inductive mode := ModeRaw | ModeMerge | ModeDistinct | ModeCommand.
Definition all_modes : list mode := [ModeRaw; ModeMerge; ModeDistinct; ModeCommand].
Definition mode_idx (m : mode) : N :=
  match m with ModeRaw => 0 | ModeMerge => 1 | ModeDistinct => 2 | ModeCommand => 3 end%N.
Definition mode_eqb (a b : mode) : bool := N.eqb (mode_idx a) (mode_idx b).
Definition mode_ident (m : mode) : string :=
  match m with ModeRaw => "RAW" | ModeMerge => "MERGE" | ModeDistinct => "DISTINCT"
          | ModeCommand => "COMMAND" end.

Inductive platform := PlatApple | PlatGoogle.
Definition all_platforms : list platform := [PlatApple; PlatGoogle].
Definition platform_eqb (a b : platform) : bool :=
  match a, b with PlatApple, PlatApple | PlatGoogle, PlatGoogle => true | _, _ => false end.
Definition platform_ident (p : platform) : string :=
  match p with PlatApple => "APPLE" | PlatGoogle => "GOOGLE" end.
