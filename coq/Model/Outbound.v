(* Model/Outbound.v — the outbound path without time: any number of producer
   threads call _Sender.send (queue.put), the single Sender thread takes the head
   of the FIFO queue and writes it with one sendall (server.py:117-163).  The
   writer may be scheduled arbitrarily late, so the queue can hold many items.
   Labels:  OPut p m   thread p enqueues item m (a line, or a pill)
            OGet       the writer dequeues the head (or, OGetTimeout, the timeout fires)
            OSend ok   the writer's sendall of the item in hand returns (ok) or raises OSError
   queue.Queue is modelled as a list with atomic append / pop-head. *)
From Coq Require Import String List Ascii NArith ZArith Bool.
From LS Require Import Model.Bytes Model.Tags Gen.Consts.
Import ListNotations.

Inductive olabel :=
| OPut (p : nat) (m : bytes)
| OGet
| OGetTimeout
| OSend (ok : bool).

Record ost := {
  o_queue : list (nat * bytes);
  o_hand : option (nat * bytes);      (* item taken, sendall not yet returned *)
  o_alive : bool;                     (* the Sender thread is running *)
  o_written : list (nat * bytes);     (* lines written (without CRLF), with their submitter *)
  o_wire : bytes;                     (* the byte stream on the socket *)
  o_puts : list (nat * bytes)         (* ghost: every put so far, in linearization order *)
}.

Definition out_init : ost :=
  {| o_queue := []; o_hand := None; o_alive := true; o_written := []; o_wire := []; o_puts := [] |}.

Definition crlf2 : bytes := [c_cr; c_lf].
Definition ka_line : bytes := meth_name MKEEPALIVE.

(* what the writer does with a dequeued item: None = stop *)
Definition to_send (m : bytes) : option bytes :=
  if bytes_eqb m stop_pill then None
  else if bytes_eqb m keepalive_pill then Some ka_line
  else Some m.

Definition ostep (s : ost) (l : olabel) : option ost :=
  match l with
  | OPut p m =>
      Some {| o_queue := o_queue s ++ [(p, m)]; o_hand := o_hand s; o_alive := o_alive s;
              o_written := o_written s; o_wire := o_wire s; o_puts := o_puts s ++ [(p, m)] |}
  | OGet =>
      if o_alive s then
        match o_hand s, o_queue s with
        | None, (p, m) :: rest =>
            match to_send m with
            | None => Some {| o_queue := rest; o_hand := None; o_alive := false; o_written := o_written s;
                              o_wire := o_wire s; o_puts := o_puts s |}
            | Some line => Some {| o_queue := rest; o_hand := Some (p, line); o_alive := true;
                                   o_written := o_written s; o_wire := o_wire s; o_puts := o_puts s |}
            end
        | _, _ => None
        end
      else None
  | OGetTimeout =>
      if o_alive s then
        match o_hand s, o_queue s with
        | None, [] => Some {| o_queue := []; o_hand := Some (0, ka_line); o_alive := true;
                              o_written := o_written s; o_wire := o_wire s; o_puts := o_puts s |}
        | _, _ => None
        end
      else None
  | OSend ok =>
      if o_alive s then
        match o_hand s with
        | Some (p, line) =>
            if ok then Some {| o_queue := o_queue s; o_hand := None; o_alive := true;
                               o_written := o_written s ++ [(p, line)];
                               o_wire := o_wire s ++ line ++ crlf2; o_puts := o_puts s |}
            else Some {| o_queue := o_queue s; o_hand := None; o_alive := false;
                         o_written := o_written s; o_wire := o_wire s; o_puts := o_puts s |}
        | None => None
        end
      else None
  end.

Fixpoint orun (s : ost) (ls : list olabel) : option ost :=
  match ls with
  | [] => Some s
  | l :: r => match ostep s l with Some s' => orun s' r | None => None end
  end.

(* split a byte stream on CRLF: complete lines and the unterminated remainder
   (rev_append, not rev: the latter is quadratic and lines can be > 64 KiB) *)
Fixpoint split_crlf_aux (cur : bytes) (s : bytes) : list bytes * bytes :=
  match s with
  | [] => ([], rev_append cur [])
  | c :: r =>
      match r with
      | d :: r' =>
          if Ascii.eqb c c_cr && Ascii.eqb d c_lf then
            let '(ls, rem) := split_crlf_aux [] r' in (rev_append cur [] :: ls, rem)
          else split_crlf_aux (c :: cur) r
      | [] => ([], rev_append (c :: cur) [])
      end
  end.
Definition split_crlf (s : bytes) : list bytes * bytes := split_crlf_aux [] s.

Definition no_crlf (m : bytes) : bool :=
  negb (existsb (fun c => Ascii.eqb c c_cr || Ascii.eqb c c_lf) m).

(* real messages among the puts (pills excluded), as the writer will render them *)
Definition rendered (puts : list (nat * bytes)) : list (nat * bytes) :=
  flat_map (fun pm => match to_send (snd pm) with
                      | Some line => if bytes_eqb (snd pm) keepalive_pill then [] else [(fst pm, line)]
                      | None => []
                      end) puts.
