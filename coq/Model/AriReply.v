(* Model/AriReply.v — SPECIFICATION side for what the Remote Server sends:
   the reference ARI decoder a conforming Proxy Adapter applies to replies and
   notifications (by type marker: S text, B bool, I int, D double, M modes,
   Y base64, E... error, V void), the table of error subtypes the protocol
   designates per method, and the version compatibility table.  Written from
   the property texts and the adapter interface docstrings, not from the
   library's writer code.  Lines are given WITHOUT the request-id / timestamp
   prefix and without the terminator. *)
From Coq Require Import String List Ascii NArith ZArith Bool.
From LS Require Import Model.Bytes Model.Tags Gen.Consts Model.Quote Model.Base64 Model.Codec.
Import ListNotations.

Definition toks (line : bytes) : list bytes := split_on c_pipe line.

Definition tok_is (s : string) (t : bytes) : bool := bytes_eqb t (bs s).

(* ---------- typed tokens ---------- *)
Definition dec_bool (t : bytes) : option bool :=
  if tok_is "1" t then Some true else if tok_is "0" t then Some false else None.

Fixpoint dec_mode_letters (t : bytes) : option (list mode) :=
  match t with
  | [] => Some []
  | c :: r =>
      match mode_of_char c, dec_mode_letters r with
      | Some m, Some ms => Some (m :: ms)
      | _, _ => None
      end
  end.

(* M token: '#' = null, '$' = no mode, else one letter per mode *)
Definition dec_modeset (t : bytes) : option (option (list mode)) :=
  if tok_is "#" t then Some None
  else if tok_is "$" t then Some (Some [])
  else match dec_mode_letters t with Some ms => Some (Some ms) | None => None end.

(* a D token is kept as text: what float() makes of it is a fact about CPython
   (checked by the harness oracle); here it must be a non-empty token *)
Definition dec_double (t : bytes) : option bytes :=
  if is_nil t then None else Some t.

(* ---------- S|v S|v ... ---------- *)
Fixpoint dec_S_list (ts : list bytes) : option (list text) :=
  match ts with
  | [] => Some []
  | s :: v :: r =>
      if tok_is "S" s then
        match dec_S_list r with Some l => Some (decode_string v :: l) | None => None end
      else None
  | _ => None
  end.

(* GIS / GSC reply:  METHOD            (nothing to return)
                     METHOD|S|v|S|v... *)
Definition decode_strings (line : bytes) : option (bytes * list text) :=
  match toks line with
  | m :: rest => match dec_S_list rest with Some l => Some (m, l) | None => None end
  | [] => None
  end.

(* GIT / GUI reply:  METHOD | I|n|D|x|M|modes | ... one triple per item *)
Fixpoint dec_item_triples (ts : list bytes) : option (list (Z * bytes * option (list mode))) :=
  match ts with
  | [] => Some []
  | i :: n :: d :: x :: m :: ms :: r =>
      if tok_is "I" i && tok_is "D" d && tok_is "M" m then
        match parse_int n, dec_double x, dec_modeset ms, dec_item_triples r with
        | Some n', Some x', Some ms', Some l => Some ((n', x', ms') :: l)
        | _, _, _, _ => None
        end
      else None
  | _ => None
  end.

Definition decode_item_data (line : bytes) : option (bytes * list (Z * bytes * option (list mode))) :=
  match toks line with
  | m :: rest => match dec_item_triples rest with Some l => Some (m, l) | None => None end
  | [] => None
  end.

(* NUS / NUA reply:  METHOD|D|bandwidth|B|flag *)
Definition decode_notify_user (line : bytes) : option (bytes * bytes * bool) :=
  match toks line with
  | [m; d; x; b; f] =>
      if tok_is "D" d && tok_is "B" b then
        match dec_double x, dec_bool f with
        | Some x', Some f' => Some (m, x', f')
        | _, _ => None
        end
      else None
  | _ => None
  end.

(* void reply  METHOD|V *)
Definition decode_void (line : bytes) : option bytes :=
  match toks line with
  | [m; v] => if tok_is "V" v then Some m else None
  | _ => None
  end.

(* parameter replies (init reply with parameters, RAC):  METHOD|S|key|S|value|S|key|S|value...
   keys are literal protocol names, values are text tokens *)
Fixpoint dec_params (ts : list bytes) : option (list (bytes * text)) :=
  match ts with
  | [] => Some []
  | s1 :: k :: s2 :: v :: r =>
      if tok_is "S" s1 && tok_is "S" s2 then
        match dec_params r with Some l => Some ((k, decode_string v) :: l) | None => None end
      else None
  | _ => None
  end.

Definition decode_params (line : bytes) : option (bytes * list (bytes * text)) :=
  match toks line with
  | m :: rest => match dec_params rest with Some l => Some (m, l) | None => None end
  | [] => None
  end.

(* ---------- notifications ---------- *)
Inductive uval := UText (t : text) | UBytes (b : bytes).

(* S|field|S|text  or  S|field|Y|base64 *)
Fixpoint dec_fields (ts : list bytes) : option (list (text * uval)) :=
  match ts with
  | [] => Some []
  | s :: f :: ty :: v :: r =>
      if tok_is "S" s then
        match (if tok_is "S" ty then Some (UText (decode_string v))
               else if tok_is "Y" ty then
                      match b64_dec v with Some b => Some (UBytes b) | None => None end
               else None),
              dec_fields r with
        | Some u, Some l => Some ((decode_string f, u) :: l)
        | _, _ => None
        end
      else None
  | _ => None
  end.

(* UD3|S|item|S|id|B|snapshot[|S|field|<S or Y>|value ...] *)
Definition decode_update (line : bytes) : option (text * text * bool * list (text * uval)) :=
  match toks line with
  | m :: s1 :: item :: s2 :: rid :: b :: snap :: rest =>
      if tok_is "UD3" m && tok_is "S" s1 && tok_is "S" s2 && tok_is "B" b then
        match dec_bool snap, dec_fields rest with
        | Some sn, Some fs => Some (decode_string item, decode_string rid, sn, fs)
        | _, _ => None
        end
      else None
  | _ => None
  end.

(* EOS|S|item|S|id   CLS|S|item|S|id *)
Definition decode_item_notify (line : bytes) : option (bytes * text * text) :=
  match toks line with
  | [m; s1; item; s2; rid] =>
      if tok_is "S" s1 && tok_is "S" s2 then Some (m, decode_string item, decode_string rid)
      else None
  | _ => None
  end.

(* FAL|E|message *)
Definition decode_failure (line : bytes) : option text :=
  match toks line with
  | [m; e; msg] => if tok_is "FAL" m && tok_is "E" e then Some (decode_string msg) else None
  | _ => None
  end.

(* ---------- error replies ---------- *)
(* METHOD|E|msg                       generic
   METHOD|E<c>|msg                    subtype c
   METHOD|EC|msg|code|usermsg         credits
   METHOD|EX|msg|code|usermsg|session conflicting session *)
Record err_reply := {
  er_method : bytes;
  er_subtype : option ascii;
  er_msg : text;
  er_code : option Z;
  er_user_msg : option text;
  er_session : option text
}.

Definition c_E' : ascii := "E"%char.
Definition c_C' : ascii := "C"%char.
Definition c_X' : ascii := "X"%char.

Definition decode_error (line : bytes) : option err_reply :=
  match toks line with
  | m :: ty :: msg :: rest =>
      match ty with
      | [e] =>
          if Ascii.eqb e c_E' then
            match rest with
            | [] => Some {| er_method := m; er_subtype := None; er_msg := decode_string msg;
                            er_code := None; er_user_msg := None; er_session := None |}
            | _ => None
            end
          else None
      | [e; l] =>
          if Ascii.eqb e c_E' then
            if Ascii.eqb l c_C' then
              match rest with
              | [code; um] =>
                  match parse_int code with
                  | Some z => Some {| er_method := m; er_subtype := Some l; er_msg := decode_string msg;
                                      er_code := Some z; er_user_msg := Some (decode_string um);
                                      er_session := None |}
                  | None => None
                  end
              | _ => None
              end
            else if Ascii.eqb l c_X' then
              match rest with
              | [code; um; sid] =>
                  match parse_int code with
                  | Some z => Some {| er_method := m; er_subtype := Some l; er_msg := decode_string msg;
                                      er_code := Some z; er_user_msg := Some (decode_string um);
                                      er_session := Some (decode_string sid) |}
                  | None => None
                  end
              | _ => None
              end
            else
              match rest with
              | [] => Some {| er_method := m; er_subtype := Some l; er_msg := decode_string msg;
                              er_code := None; er_user_msg := None; er_session := None |}
              | _ => None
              end
          else None
      | _ => None
      end
  | _ => None
  end.

(* the subtype letter the protocol assigns to each library exception class *)
Definition spec_letter (c : lib_class) : ascii :=
  match c with
  | CMetadataProviderError => "M" | CNotificationError => "N" | CAccessError => "A"
  | CItemsError => "I" | CSchemaError => "S" | CCreditsError => "C"
  | CConflictingSessionError => "X" | CDataProviderError => "D"
  | CSubscribeError => "U" | CFailureError => "F"
  end%char.

(* which classes each method is allowed to signal (adapter interface docstrings):
   initialize -> the provider error; subscribe/unsubscribe -> SubscribeError, FailureError;
   notify_user(_with_principal) -> AccessError, CreditsError;
   notify_new_session -> CreditsError, NotificationError, ConflictingSessionError;
   notify_session_close, notify_tables_close -> NotificationError;
   get_items -> ItemsError; get_schema -> ItemsError, SchemaError;
   notify_user_message, notify_new_tables, the three MPN notifications -> CreditsError, NotificationError;
   get_item_data / get_user_item_data -> none *)
Definition spec_designated (m : meth) (c : lib_class) : bool :=
  match m, c with
  | MDPI, CDataProviderError => true
  | MMPI, CMetadataProviderError => true
  | MSUB, CSubscribeError | MSUB, CFailureError | MUSB, CSubscribeError | MUSB, CFailureError => true
  | MNUS, CAccessError | MNUS, CCreditsError | MNUA, CAccessError | MNUA, CCreditsError => true
  | MNNS, CCreditsError | MNNS, CNotificationError | MNNS, CConflictingSessionError => true
  | MNSC, CNotificationError | MNTC, CNotificationError => true
  | MGIS, CItemsError => true
  | MGSC, CItemsError | MGSC, CSchemaError => true
  | MNUM, CCreditsError | MNUM, CNotificationError
  | MNNT, CCreditsError | MNNT, CNotificationError
  | MMDA, CCreditsError | MMDA, CNotificationError
  | MMSA, CCreditsError | MMSA, CNotificationError
  | MMDC, CCreditsError | MMDC, CNotificationError => true
  | _, _ => false
  end.

(* the pairs the property speaks about: ConflictingSessionError is considered
   for notify_new_session only *)
Definition spec_pair_in_scope (m : meth) (c : lib_class) : bool :=
  match c with
  | CConflictingSessionError => meth_eqb m MNNS
  | _ => true
  end.

(* ---------- version compatibility table (property C11) ---------- *)
Inductive server_kind := KMeta | KData.

Inductive version_verdict :=
| VRefuse                      (* error reply, adapter not initialized *)
| VBare                        (* success reply without parameters *)
| VAnswer (v : bytes).         (* success reply carrying ARI.version = v *)

Definition v180 : bytes := bs "1.8.0".
Definition v181 : bytes := bs "1.8.1".
Definition v182 : bytes := bs "1.8.2".
Definition v183 : bytes := bs "1.8.3".
Definition v190 : bytes := bs "1.9.0".
Definition v18_prefix : bytes := bs "1.8.".

(* version announced by the Proxy Adapter: None = absent *)
Definition spec_version (k : server_kind) (v : option bytes) : version_verdict :=
  match k, v with
  | KMeta, None => VBare
  | KMeta, Some s =>
      if bytes_eqb s v181 || bytes_eqb s v180 then VRefuse
      else if bytes_eqb s v182 then VAnswer v182
      else VAnswer v183
  | KData, None => VRefuse
  | KData, Some s =>
      if starts_with v18_prefix s || bytes_eqb s v190 then VRefuse
      else VAnswer v183
  end.

(* close requests are honoured afterwards unless initialization succeeded with an
   agreed version older than 1.8.3 *)
Definition spec_close_honoured (k : server_kind) (v : option bytes) (init_ok : bool) : bool :=
  match spec_version k v with
  | VRefuse => true
  | VBare => negb init_ok               (* agreed 1.8.0 *)
  | VAnswer a => negb (init_ok && (bytes_eqb a v180 || bytes_eqb a v182))
  end.
