(* Model/Framing.v — body of _RequestManager._do_run for one recv() chunk
   (server.py:227-246): buffer += chunk.decode('ascii'); splitlines(keepends);
   dispatch every token that ends in LF, keep the last other token as buffer. *)
From Coq Require Import List Ascii String NArith Bool.
From LS Require Import Model.Bytes.
Import ListNotations.

Definition is_ascii (c : ascii) : bool := N.ltb (code c) 128.

(* the for-loop over tokens: (dispatched so far, buffer) *)
Definition feed_step (st : list bytes * bytes) (tok : bytes) : list bytes * bytes :=
  if ends_with_lf tok then (fst st ++ [tok], []) else (fst st, tok).

Definition feed_tokens (toks : list bytes) : list bytes * bytes :=
  fold_left feed_step toks ([], []).

(* None = data.decode('ascii') raised (UnicodeDecodeError -> on_exception, reader stops) *)
Definition feed (buffer chunk : bytes) : option (list bytes * bytes) :=
  if forallb is_ascii chunk then Some (feed_tokens (splitlines_keep (buffer ++ chunk)))
  else None.

(* all chunks in sequence: dispatched lines in order, final buffer *)
Fixpoint feed_all (buffer : bytes) (chunks : list bytes) : option (list bytes * bytes) :=
  match chunks with
  | [] => Some ([], buffer)
  | ch :: rest =>
      match feed buffer ch with
      | None => None
      | Some (ls, buf') =>
          match feed_all buf' rest with
          | None => None
          | Some (ls', buf'') => Some (ls ++ ls', buf'')
          end
      end
  end.

(* characters that Python's str.splitlines treats as a line boundary (ASCII) *)
Definition is_boundary (c : ascii) : bool :=
  Ascii.eqb c c_lf || Ascii.eqb c c_cr || is_other_boundary c.
