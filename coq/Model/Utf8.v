(* Model/Utf8.v — executable model of UTF-8 as done by CPython's
   [str.encode('utf-8')] and strict [bytes.decode('utf-8')].
   Executable definitions only (no proofs here; see Proofs/Utf8Proofs.v).

   A Python [str] is modelled as a list of Unicode code points ([N]).  A
   code point that may occur in a str that can be encoded / that a strict
   decode can produce is a Unicode *scalar value*: < 0x110000 and not a
   surrogate (0xD800..0xDFFF).

   [utf8_enc1] is total: on arguments that are not valid scalars (where Python
   raises UnicodeEncodeError, or where [chr] itself raises) its value is
   unspecified garbage; all theorems about it assume [valid_scalar].

   [utf8_dec] is the STRICT decoder: it returns [None] exactly when CPython
   raises UnicodeDecodeError, i.e. unless the input is a concatenation of
   well-formed UTF-8 byte sequences (Unicode Standard, Table 3-7):

       00..7F
       C2..DF  80..BF
       E0      A0..BF  80..BF          (E0 80..9F : overlong)
       E1..EC  80..BF  80..BF
       ED      80..9F  80..BF          (ED A0..BF : surrogate)
       EE..EF  80..BF  80..BF
       F0      90..BF  80..BF  80..BF  (F0 80..8F : overlong)
       F1..F3  80..BF  80..BF  80..BF
       F4      80..8F  80..BF  80..BF  (F4 90..BF : > 0x10FFFF)

   Lead bytes 80..BF (stray continuation), C0/C1 (overlong), F5..FF (too
   large) are rejected, as is any truncated sequence. *)
From Coq Require Import List Ascii NArith Bool.
From LS Require Import Model.Bytes.
Import ListNotations.
Open Scope bool_scope.
Local Open Scope N_scope.

Definition scalar := N.

Definition valid_scalar (n : N) : bool :=
  (n <? 0x110000) && negb ((0xD800 <=? n) && (n <=? 0xDFFF)).

(* ---------- encoder ---------- *)

Definition utf8_enc1 (n : N) : bytes :=
  if n <? 0x80 then
    [ascii_of_N n]
  else if n <? 0x800 then
    [ascii_of_N (0xC0 + n / 64);
     ascii_of_N (0x80 + n mod 64)]
  else if n <? 0x10000 then
    [ascii_of_N (0xE0 + n / 4096);
     ascii_of_N (0x80 + (n / 64) mod 64);
     ascii_of_N (0x80 + n mod 64)]
  else
    [ascii_of_N (0xF0 + n / 262144);
     ascii_of_N (0x80 + (n / 4096) mod 64);
     ascii_of_N (0x80 + (n / 64) mod 64);
     ascii_of_N (0x80 + n mod 64)].

Definition utf8_enc (s : list N) : bytes := flat_map utf8_enc1 s.

(* ---------- strict decoder ---------- *)

(* generic continuation byte 80..BF *)
Definition cont_ok (n : N) : bool := (0x80 <=? n) && (n <? 0xC0).

(* second byte [n1] after a multi-byte lead byte [n0] (C2..F4): a continuation
   byte, further restricted after E0 / ED / F0 / F4 *)
Definition snd_ok (n0 n1 : N) : bool :=
  cont_ok n1
  && negb ((n0 =? 0xE0) && (n1 <? 0xA0))      (* overlong 3-byte form *)
  && negb ((n0 =? 0xED) && (0xA0 <=? n1))     (* surrogate D800..DFFF *)
  && negb ((n0 =? 0xF0) && (n1 <? 0x90))      (* overlong 4-byte form *)
  && negb ((n0 =? 0xF4) && (0x90 <=? n1)).    (* above 0x10FFFF *)

(* prepend a decoded scalar to the decoding of the rest *)
Definition ocons (n : N) (o : option (list N)) : option (list N) :=
  match o with
  | Some l => Some (n :: l)
  | None => None
  end.

Fixpoint utf8_dec (b : bytes) : option (list N) :=
  match b with
  | [] => Some []
  | c0 :: r0 =>
      let n0 := N_of_ascii c0 in
      if n0 <? 0x80 then ocons n0 (utf8_dec r0)
      else if n0 <? 0xC2 then None        (* stray continuation, or C0/C1 *)
      else if 0xF4 <? n0 then None        (* F5..FF *)
      else
        match r0 with
        | [] => None                      (* truncated *)
        | c1 :: r1 =>
            let n1 := N_of_ascii c1 in
            if negb (snd_ok n0 n1) then None
            else if n0 <? 0xE0 then
              ocons ((n0 - 0xC0) * 64 + (n1 - 0x80)) (utf8_dec r1)
            else
              match r1 with
              | [] => None                (* truncated *)
              | c2 :: r2 =>
                  let n2 := N_of_ascii c2 in
                  if negb (cont_ok n2) then None
                  else if n0 <? 0xF0 then
                    ocons ((n0 - 0xE0) * 4096 + (n1 - 0x80) * 64 + (n2 - 0x80))
                          (utf8_dec r2)
                  else
                    match r2 with
                    | [] => None          (* truncated *)
                    | c3 :: r3 =>
                        let n3 := N_of_ascii c3 in
                        if negb (cont_ok n3) then None
                        else
                          ocons ((n0 - 0xF0) * 262144 + (n1 - 0x80) * 4096
                                 + (n2 - 0x80) * 64 + (n3 - 0x80))
                                (utf8_dec r3)
                    end
              end
        end
  end.
