(* Model/Classify.v — from a concrete request line to the class the connection-level
   model (Model/Shell.v, [lineclass]) works with.  This is the abstraction function
   between the wire-level models (Readers, Init) and the Shell LTS:
   Server.on_received_request / _handle_received_request and the two _handle_request
   (server.py), up to the point where the flags init_expected / close_expected decide.
   Executable definitions only. *)
From Coq Require Import String List Ascii NArith ZArith Bool.
From LS Require Import Model.Bytes Model.Tags Gen.Consts Model.Codec Model.Readers Model.Writers
                       Model.AriReply Model.Init.
Import ListNotations.

Inductive cclass :=
| CGarbage                                        (* parse_request gives None *)
| CClose (id0 : bool) (reason_ok : bool)
| CInit (id : bytes) (wf : bool) (refused : bool) (oldv : bool)
| CReq (id : bytes) (wf : bool) (known : bool)
| CUnmodelled.       (* (an init request decoded to something that is not an init: impossible, kept for totality) *)

(* str.lower() on an ASCII method name *)
Definition lower_char (c : ascii) : ascii :=
  if is_upper c then ascii_of_N (code c + 32) else c.
Definition lower (s : bytes) : bytes := map lower_char s.

Definition post_init_meta_methods : list meth :=
  [MNUS; MNUA; MNNS; MNSC; MGIS; MGSC; MGIT; MGUI; MNUM; MNNT; MNTC; MMDA; MMSA; MMDC].

(* MetadataProviderServer._handle_request: the handler of the protocol method whose name equals method_name up to
   case (the init method excepted); every other name is an unknown request, discarded with a warning — in
   particular names such as "mpi", "init" or "request_manager_started", which must not reach the attributes
   _on_mpi / _on_init / _on_request_manager_started of the server object. *)
Definition meta_handler_of (name : bytes) : option meth :=
  find (fun m => bytes_eqb (lower (meth_name m)) (lower name)) post_init_meta_methods.

Definition init_class (k : server_kind) (id : bytes) (d : list bytes) : cclass :=
  match read_request (init_method k) d with
  | PErr _ => CInit id false false false
  | POk (QInit proxy) =>
      let announced := match dict_get (okey ari_version_key) proxy with
                       | Some (Some v) => Some v | _ => None end in
      match negotiate k announced with
      | inr _ => CInit id true true false
      | inl adv => CInit id true false (bytes_eqb adv (bs "1.8.0") || bytes_eqb adv (bs "1.8.2"))
      end
  | POk _ => CUnmodelled
  end.

Definition classify (k : server_kind) (line : bytes) : cclass :=
  match parse_request line with
  | None => CGarbage
  | Some p =>
      let id := p_id p in
      let name := p_method p in
      let d := p_data p in
      if bytes_eqb name (meth_name MCLOSE) then
        CClose (bytes_eqb id (bs "0")) (match read_close d with ROk _ => true | RErr _ => false end)
      else if bytes_eqb name (meth_name (init_method k)) then init_class k id d
      else
        match k with
        | KData =>
            if bytes_eqb name (meth_name MSUB) then
              CReq id (match read_request MSUB d with POk _ => true | PErr _ => false end) true
            else if bytes_eqb name (meth_name MUSB) then
              CReq id (match read_request MUSB d with POk _ => true | PErr _ => false end) true
            else CReq id true false
        | KMeta =>
            match meta_handler_of name with
            | Some m => CReq id (match read_request m d with POk _ => true | PErr _ => false end) true
            | None => CReq id true false
            end
        end
  end.
