(* Model/ShellSpec.v — executable vocabulary for stating and checking the
   connection-level properties (C04, C10, C14, C18, C20) over Model/Shell.v:
   the environment assumption, projections of the ghost history, invariants and
   property monitors as boolean functions (evaluated along every correspondence
   trace before being proved in Proofs/Shell*.v). *)
From Coq Require Import String List Ascii NArith ZArith Bool.
From LS Require Import Model.Bytes Model.Tags Model.AriReply Model.Shell.
Import ListNotations.

(* ---------- projections ---------- *)
Fixpoint puts_of (h : list sevent) : list (thread * oline) :=
  match h with
  | [] => []
  | EPut th l :: r => (th, l) :: puts_of r
  | _ :: r => puts_of r
  end.

Fixpoint written_of (h : list sevent) : list oline :=
  match h with
  | [] => []
  | EWritten l :: r => l :: written_of r
  | _ :: r => written_of r
  end.

Definition oline_eqb (a b : oline) : bool :=
  match a, b with
  | ORac, ORac | ONotif, ONotif | OFal, OFal | OStopPill, OStopPill => true
  | OInitReply r ok, OInitReply r' ok' => Nat.eqb r r' && Bool.eqb ok ok'
  | OReply r, OReply r' => Nat.eqb r r'
  | _, _ => false
  end.

Definition is_rac (l : oline) : bool := match l with ORac => true | _ => false end.
Definition is_reply (l : oline) : bool := match l with OReply _ => true | _ => false end.
Definition is_init_reply (l : oline) : bool := match l with OInitReply _ _ => true | _ => false end.

Definition count {A} (f : A -> bool) (l : list A) : nat := length (filter f l).

(* request ids carried by the lines of a chunk, and those seen so far *)
Definition rid_of (ln : lineclass) : list nat :=
  match ln with LcInit rid _ _ _ => [rid] | LcReq rid _ _ => [rid] | _ => [] end.

Fixpoint nodup_nat (l : list nat) : bool :=
  match l with [] => true | x :: r => negb (existsb (Nat.eqb x) r) && nodup_nat r end.

(* ---------- environment: request ids are distinct ---------- *)
(* the ghost list of ids received is not part of the state: the assumption is stated on the label sequence *)
Fixpoint recv_rids (ls : list (thread * action)) : list nat :=
  match ls with
  | [] => []
  | (_, ARecv lines) :: r => flat_map rid_of lines ++ recv_rids r
  | _ :: r => recv_rids r
  end.
Definition env_ok (ls : list (thread * action)) : bool := nodup_nat (recv_rids ls).

(* ---------- C14: credentials first ---------- *)
(* the first message ever enqueued is the credentials message, put by the starting
   thread; there is exactly one of it once start() has passed that point *)
Definition rac_first (h : list sevent) : bool :=
  match puts_of h with
  | [] => true
  | (ThStarter, ORac) :: rest => negb (existsb (fun p => is_rac (snd p)) rest)
  | _ => false
  end.

(* what was written is a prefix of what was enqueued (single FIFO writer) *)
Fixpoint is_prefix (a b : list oline) : bool :=
  match a, b with
  | [], _ => true
  | x :: a', y :: b' => oline_eqb x y && is_prefix a' b'
  | _ :: _, [] => false
  end.
Definition written_prefix (h : list sevent) : bool := is_prefix (written_of h) (map snd (puts_of h)).

(* before the credentials are enqueued nothing else exists that could enqueue *)
Definition inv_start (s : shell) : bool :=
  (Nat.leb 3 (sh_start s) ||
   (match sh_rpc s with RNotStarted => true | _ => false end &&
    is_nil (sh_jobs s) && Nat.eqb (sh_njobs s) 0 &&
    forallb (fun w => match w with KIdle => true | _ => false end) (sh_workers s) &&
    match sh_apc s with ANone => true | _ => false end)) &&
  (Nat.leb 2 (sh_start s) || is_nil (puts_of (sh_hist s))) &&
  (Nat.leb 1 (sh_start s) || match sh_wpc s with WNotStarted => true | _ => false end) &&
  Nat.leb (sh_start s) 3.

(* ---------- C10: initialization gates everything ---------- *)
(* state of the scan: has initialize been entered / left; was the listener handed over *)
Inductive gate_st := GNone | GInInit | GInitDone (ok : bool) | GInListener | GListenerDone.

(* initialize at most once and before every other adapter call (when it is called at all it has
   returned before any other call begins); for a Data server the listener is handed over right
   after a successful initialize and before any other call *)
Fixpoint gate_ok_from (data : bool) (st : gate_st) (other_seen : bool) (h : list sevent) : bool :=
  match h with
  | [] => true
  | ECallB _ CInit :: r =>
      match st with GNone => negb other_seen && gate_ok_from data GInInit other_seen r | _ => false end
  | ECallE _ CInit ok :: r =>
      match st with GInInit => gate_ok_from data (GInitDone ok) other_seen r | _ => false end
  | ECallB _ CSetListener :: r =>
      match st with GInitDone true => data && gate_ok_from data GInListener other_seen r | _ => false end
  | ECallE _ CSetListener _ :: r =>
      match st with GInListener => gate_ok_from data GListenerDone other_seen r | _ => false end
  | ECallB _ COther :: r =>
      match st with
      | GInInit | GInListener => false
      | GInitDone true => negb data && gate_ok_from data st true r
      | _ => gate_ok_from data st true r
      end
  | _ :: r => gate_ok_from data st other_seen r
  end.
Definition gate_ok (data : bool) (h : list sevent) : bool := gate_ok_from data GNone false h.

(* while the init request is still expected nothing has been handed to the pool or the adapter *)
Definition inv_gate (s : shell) : bool :=
  negb (sh_init_expected s) ||
  (is_nil (sh_jobs s) && Nat.eqb (sh_njobs s) 0 &&
   forallb (fun w => match w with KIdle | KExited => true | _ => false end) (sh_workers s) &&
   negb (existsb (fun e => match e with ECallB _ _ | ESubmit _ _ => true | _ => false end) (sh_hist s))).

(* the init reply precedes the reply to every request *)
Fixpoint init_reply_first_from (seen_reply : bool) (h : list sevent) : bool :=
  match h with
  | [] => true
  | EPut _ (OReply _) :: r => init_reply_first_from true r
  | EPut _ (OInitReply _ _) :: r => negb seen_reply && init_reply_first_from seen_reply r
  | _ :: r => init_reply_first_from seen_reply r
  end.
Definition init_reply_first (h : list sevent) : bool := init_reply_first_from false h.

(* at most one init reply, at most one initialize *)
Definition init_once (h : list sevent) : bool :=
  Nat.leb (count (fun e => match e with ECallB _ CInit => true | _ => false end) h) 1 &&
  Nat.leb (count (fun p => is_init_reply (snd p)) (puts_of h)) 1.

(* ---------- C04 / C18: the pool ---------- *)
(* per-worker scan of the history: what job it runs, whether the job has produced its
   reply / handler notification, whether an adapter call is open *)
Record wscan := { ws_job : option (nat * jkind); ws_done : bool; ws_incall : bool }.
Definition ws_idle : wscan := {| ws_job := None; ws_done := false; ws_incall := false |}.

Fixpoint getw (w : nat) (m : list (nat * wscan)) : wscan :=
  match m with [] => ws_idle | (k, v) :: r => if Nat.eqb k w then v else getw w r end.
Fixpoint setw (w : nat) (v : wscan) (m : list (nat * wscan)) : list (nat * wscan) :=
  match m with
  | [] => [(w, v)]
  | (k, x) :: r => if Nat.eqb k w then (k, v) :: r else (k, x) :: setw w v r
  end.

Fixpoint job_kind (j : nat) (subs : list (nat * jkind)) : option jkind :=
  match subs with [] => None | (k, x) :: r => if Nat.eqb k j then Some x else job_kind j r end.

(* every job is started at most once, in submission (FIFO) order, by an idle worker; a Metadata job
   produces exactly one of {its reply (with its own request id), one handler notification} after its
   adapter calls and before it ends; adapter calls other than initialize / set_listener happen only on
   a worker that runs a job, one at a time per worker *)
Fixpoint pool_ok_from (subs : list (nat * jkind)) (next : nat) (m : list (nat * wscan)) (h : list sevent) : bool :=
  match h with
  | [] => true
  | ESubmit j k :: r => Nat.eqb j (length subs) && pool_ok_from (subs ++ [(j, k)]) next m r
  | EJobStart w j :: r =>
      match job_kind j subs, ws_job (getw w m) with
      | Some k, None =>
          Nat.eqb j next &&
          pool_ok_from subs (S next) (setw w {| ws_job := Some (j, k); ws_done := false; ws_incall := false |} m) r
      | _, _ => false
      end
  | ECallB (ThWorker w) COther :: r =>
      let x := getw w m in
      match ws_job x with
      | Some jk => negb (ws_done x) && negb (ws_incall x) &&
                   pool_ok_from subs next (setw w {| ws_job := Some jk; ws_done := false; ws_incall := true |} m) r
      | None => false
      end
  | ECallE (ThWorker w) COther _ :: r =>
      let x := getw w m in
      match ws_job x with
      | Some jk => ws_incall x &&
                   pool_ok_from subs next (setw w {| ws_job := Some jk; ws_done := ws_done x; ws_incall := false |} m) r
      | None => false
      end
  | ECallB _ COther :: r => false                       (* a request-handling adapter method outside the pool *)
  | EPut (ThWorker w) (OReply rid) :: r =>
      let x := getw w m in
      match ws_job x with
      | Some (j, JMeta rid') =>
          Nat.eqb rid rid' && negb (ws_done x) && negb (ws_incall x) &&
          pool_ok_from subs next (setw w {| ws_job := Some (j, JMeta rid'); ws_done := true; ws_incall := false |} m) r
      | Some (j, JData) => pool_ok_from subs next m r
      | None => false
      end
  | EHand (ThWorker w) :: r =>
      let x := getw w m in
      match ws_job x with
      | Some (j, JMeta rid') =>
          negb (ws_done x) && negb (ws_incall x) &&
          pool_ok_from subs next (setw w {| ws_job := Some (j, JMeta rid'); ws_done := true; ws_incall := false |} m) r
      | Some (j, JData) => pool_ok_from subs next m r
      | None => false
      end
  | EJobEnd w j :: r =>
      let x := getw w m in
      match ws_job x with
      | Some (j', k) =>
          Nat.eqb j j' && negb (ws_incall x) &&
          match k with JMeta _ => ws_done x | JData => true end &&
          pool_ok_from subs next (setw w ws_idle m) r
      | None => false
      end
  | _ :: r => pool_ok_from subs next m r
  end.
Definition pool_ok (h : list sevent) : bool := pool_ok_from [] 0 [] h.

(* no two replies with the same request id (ids of submitted Metadata jobs are distinct under env_ok) *)
Definition replies_of (h : list sevent) : list nat :=
  flat_map (fun p => match snd p with OReply r => [r] | _ => [] end) (puts_of h).

(* the pool is at rest: nothing queued, nobody running *)
Definition pool_quiet (s : shell) : bool :=
  is_nil (sh_jobs s) && forallb (fun w => match w with KIdle | KExited => true | _ => false end) (sh_workers s).

Definition submitted_meta (h : list sevent) : list nat :=
  flat_map (fun e => match e with ESubmit _ (JMeta rid) => [rid] | _ => [] end) h.

Definition ended_jobs (h : list sevent) : nat := count (fun e => match e with EJobEnd _ _ => true | _ => false end) h.
Definition submitted_jobs (h : list sevent) : nat := count (fun e => match e with ESubmit _ _ => true | _ => false end) h.

(* with a single worker adapter calls never overlap (any number of requests, any kind) *)
Fixpoint serial_calls_from (open_ : bool) (h : list sevent) : bool :=
  match h with
  | [] => true
  | ECallB (ThWorker _) _ :: r => negb open_ && serial_calls_from true r
  | ECallE (ThWorker _) _ _ :: r => open_ && serial_calls_from false r
  | _ :: r => serial_calls_from open_ r
  end.
Definition serial_calls (h : list sevent) : bool := serial_calls_from false h.

(* jobs end in the order they were submitted (single worker) *)
Fixpoint ends_in_order_from (next : nat) (h : list sevent) : bool :=
  match h with
  | [] => true
  | EJobEnd _ j :: r => Nat.eqb j next && ends_in_order_from (S next) r
  | _ :: r => ends_in_order_from next r
  end.
Definition ends_in_order (h : list sevent) : bool := ends_in_order_from 0 h.

(* ---------- C20: teardown and faults ---------- *)
Definition has_event (f : sevent -> bool) (h : list sevent) : bool := existsb f h.
Definition is_handio (e : sevent) : bool := match e with EHandIO _ => true | _ => false end.
Definition is_exit (e : sevent) : bool := match e with EExit => true | _ => false end.

(* fault labels in a label sequence *)
Definition is_fault (la : thread * action) : bool :=
  match snd la with ARecvEof | ARecvErr | ASend false => true | _ => false end.

(* process exit only after an I/O failure was reported, and only by default handling:
   no handler installed, or the handler returned true *)
Fixpoint exit_ok_from (reported : bool) (h : list sevent) : bool :=
  match h with
  | [] => true
  | EHandIO _ :: r => exit_ok_from true r
  | EExit :: r => reported && exit_ok_from reported r
  | _ :: r => exit_ok_from reported r
  end.
Definition exit_ok (h : list sevent) : bool := exit_ok_from false h.

(* the close sequence run to its end by thread th: when the socket is closed by th, the writer has
   ended, every job accepted has ended, and everything enqueued before th's stop pill has been written *)
Fixpoint before_pill (th : thread) (ps : list (thread * oline)) : list oline :=
  match ps with
  | [] => []
  | (t, OStopPill) :: r => []
  | (t, l) :: r => l :: before_pill th r
  end.

Definition inv_closed (s : shell) : bool :=
  negb (sh_sock_closed s) ||
  (writer_dead s && pool_drained s &&
   Nat.eqb (ended_jobs (sh_hist s)) (submitted_jobs (sh_hist s))).

Definition invariants (s : shell) : list (string * bool) :=
  [("inv_start", inv_start s); ("inv_gate", inv_gate s); ("inv_closed", inv_closed s)]%string.

Definition monitors (s : shell) : list (string * bool) :=
  let h := sh_hist s in
  [("rac_first", rac_first h); ("written_prefix", written_prefix h);
   ("gate_ok", gate_ok (is_data s) h); ("init_reply_first", init_reply_first h); ("init_once", init_once h);
   ("pool_ok", pool_ok h); ("exit_ok", exit_ok h);
   ("replies_nodup", nodup_nat (replies_of h));
   ("serial_if_one_worker", negb (Nat.eqb (length (sh_workers s)) 1) || (serial_calls h && ends_in_order h))]%string.
