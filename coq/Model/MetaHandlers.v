(* Model/MetaHandlers.v — the fourteen post-init request handlers of
   MetadataProviderServer (server.py _on_nus ... _on_mdc): which adapter methods
   are invoked, with which of the decoded values in which argument position, in
   which order, and how the values they return (or the exception one of them
   raises) become the reply.

   A handler is an interaction script: [Do c k] = invoke the adapter method c and
   continue with k applied to the value it returns; [Done r] = the reply built by
   the writer in the "else:" branch.  An exception raised by the adapter inside
   the try block ends the script with the error reply of the method
   (Writers.error_reply).  Executable definitions only. *)
From Coq Require Import String List Ascii NArith ZArith Bool.
From LS Require Import Model.Bytes Model.Tags Gen.Consts Model.Codec Model.Readers Model.Writers.
Import ListNotations.

(* ---------- adapter methods of the MetadataProvider interface ---------- *)
Inductive aname :=
| NNotifyUser | NNotifyUserPrincipal | NGetBandwidth | NWantsTables
| NNewSession | NSessionClose | NGetItems | NGetSchema
| NModeMayBeAllowed | NDistinctLen | NMinFreq
| NIsModeAllowed | NBufferSize | NMaxItemFreq
| NUserMessage | NNewTables | NTablesClose
| NDeviceAccess | NSubActivation | NTokenChange.

Definition aname_ident (n : aname) : string :=
  match n with
  | NNotifyUser => "notify_user"
  | NNotifyUserPrincipal => "notify_user_with_principal"
  | NGetBandwidth => "get_allowed_max_bandwidth"
  | NWantsTables => "wants_tables_notification"
  | NNewSession => "notify_new_session"
  | NSessionClose => "notify_session_close"
  | NGetItems => "get_items"
  | NGetSchema => "get_schema"
  | NModeMayBeAllowed => "mode_may_be_allowed"
  | NDistinctLen => "get_distinct_snapshot_length"
  | NMinFreq => "get_min_source_frequency"
  | NIsModeAllowed => "ismode_allowed"
  | NBufferSize => "get_allowed_buffer_size"
  | NMaxItemFreq => "get_allowed_max_item_frequency"
  | NUserMessage => "notify_user_message"
  | NNewTables => "notify_new_tables"
  | NTablesClose => "notify_tables_close"
  | NDeviceAccess => "notify_mpn_device_access"
  | NSubActivation => "notify_mpn_subscription_activation"
  | NTokenChange => "notify_mpn_device_token_change"
  end.

(* argument values: exactly the shapes the readers produce *)
Inductive arg :=
| AText (t : text)
| ADict (d : dict text)
| ATables (l : list table)
| ATable (t : table)
| ADevice (d : device)
| ASub (s : mpnsub)
| AMode (m : mode).

Record acall := { c_name : aname; c_args : list arg }.

Inductive outcome := ORet (v : pyval) | ORaise (e : exn).

Inductive prog :=
| Do (c : acall) (k : pyval -> prog)
| Done (r : wres bytes).

Definition call (n : aname) (args : list arg) (k : pyval -> prog) : prog :=
  Do {| c_name := n; c_args := args |} k.

(* [mode for mode in list(Mode) if adapter.<pred>(..., mode)] *)
Fixpoint modes_prog (mk : mode -> acall) (ms : list mode) (acc : list pyval)
                    (k : list pyval -> prog) : prog :=
  match ms with
  | [] => k (rev acc)
  | m :: r => Do (mk m) (fun v => modes_prog mk r (if truthy v then PMode m :: acc else acc) k)
  end.

(* the list comprehension over the items of GIT / GUI: per item the mode
   comprehension, then the integer, then the frequency (order of the dict display) *)
Fixpoint items_prog (mode_call : text -> mode -> acall) (int_call freq_call : text -> acall)
                    (items : list text) (acc : list (pyval * pyval * pyval))
                    (k : list (pyval * pyval * pyval) -> prog) : prog :=
  match items with
  | [] => k (rev acc)
  | it :: r =>
      modes_prog (mode_call it) all_modes [] (fun ms =>
        Do (int_call it) (fun i =>
          Do (freq_call it) (fun f =>
            items_prog mode_call int_call freq_call r ((i, f, PList ms) :: acc) k)))
  end.

Definition mk (n : aname) (args : list arg) : acall := {| c_name := n; c_args := args |}.

(* the handler selected by the method name for a decoded request; None = the
   reader of that method cannot have produced this request *)
Definition handler (m : meth) (q : request) : option prog :=
  match m, q with
  | MNUS, QNUS u p h =>
      Some (call NNotifyUser [AText u; AText p; ADict h] (fun _ =>
            call NGetBandwidth [AText u] (fun bw =>
            call NWantsTables [AText u] (fun w =>
            Done (write_notify_user MNUS bw w)))))
  | MNUA, QNUA u p c h =>
      Some (call NNotifyUserPrincipal [AText u; AText p; ADict h; AText c] (fun _ =>
            call NGetBandwidth [AText u] (fun bw =>
            call NWantsTables [AText u] (fun w =>
            Done (write_notify_user MNUA bw w)))))
  | MNNS, QNNS u s c =>
      Some (call NNewSession [AText u; AText s; ADict c] (fun _ => Done (WOk (void_reply MNNS))))
  | MNSC, QNSC s =>
      Some (call NSessionClose [AText s] (fun _ => Done (WOk (void_reply MNSC))))
  | MGIS, QGIS u g s =>
      Some (call NGetItems [AText u; AText s; AText g] (fun items =>
            Done (write_list_reply MGIS items)))
  | MGSC, QGSC u g sc s =>
      Some (call NGetSchema [AText u; AText s; AText g; AText sc] (fun fields =>
            Done (write_list_reply MGSC fields)))
  | MGIT, QGIT l =>
      Some (items_prog (fun it md => mk NModeMayBeAllowed [AText it; AMode md])
                       (fun it => mk NDistinctLen [AText it])
                       (fun it => mk NMinFreq [AText it])
                       l [] (fun ds => Done (write_item_data_reply MGIT ds)))
  | MGUI, QGUI u l =>
      Some (items_prog (fun it md => mk NIsModeAllowed [AText u; AText it; AMode md])
                       (fun it => mk NBufferSize [AText u; AText it])
                       (fun it => mk NMaxItemFreq [AText u; AText it])
                       l [] (fun ds => Done (write_item_data_reply MGUI ds)))
  | MNUM, QNUM u s msg =>
      Some (call NUserMessage [AText u; AText s; AText msg] (fun _ => Done (WOk (void_reply MNUM))))
  | MNNT, QNNT u s t =>
      Some (call NNewTables [AText u; AText s; ATables t] (fun _ => Done (WOk (void_reply MNNT))))
  | MNTC, QNTC s t =>
      Some (call NTablesClose [AText s; ATables t] (fun _ => Done (WOk (void_reply MNTC))))
  | MMDA, QMDA u s d =>
      Some (call NDeviceAccess [AText u; AText s; ADevice d] (fun _ => Done (WOk (void_reply MMDA))))
  | MMSA, QMSA u s t si =>
      Some (call NSubActivation [AText u; AText s; ATable t; ASub si] (fun _ =>
            Done (WOk (void_reply MMSA))))
  | MMDC, QMDC u s d nt =>
      Some (call NTokenChange [AText u; AText s; ADevice d; AText nt] (fun _ =>
            Done (WOk (void_reply MMDC))))
  | _, _ => None
  end.

(* running a script against the outcomes of the successive adapter calls; a
   missing outcome stands for "returns None" *)
Fixpoint exec (m : meth) (p : prog) (outs : list outcome) : list acall * wres bytes :=
  match p with
  | Done r => ([], r)
  | Do c k =>
      match outs with
      | ORaise e :: _ => ([c], error_reply m e)
      | ORet v :: r => let '(cs, res) := exec m (k v) r in (c :: cs, res)
      | [] => let '(cs, res) := exec m (k PNone) [] in (c :: cs, res)
      end
  end.

(* what the pool job does with the result (execute_and_reply):
   a line is enqueued as the reply; a RemotingException goes to the exception
   handler; any other exception is stored in the Future and nothing is sent *)
Inductive job_result := JReply (line : bytes) | JHandler | JSilent | JUnmodelled.

Definition job_result_of (r : wres bytes) : job_result :=
  match r with
  | WOk l => JReply l
  | WErr WRemoting => JHandler
  | WErr WOther => JSilent
  | WErr WUnmodelled => JUnmodelled
  end.

(* the whole request, from the tokens after the method name *)
Inductive handled :=
| HRejected (msg : bytes)                         (* reader raised RemotingException: no job *)
| HJob (calls : list acall) (r : job_result).

Definition post_init_meta (m : meth) : bool :=
  match m with
  | MNUS | MNUA | MNNS | MNSC | MGIS | MGSC | MGIT | MGUI
  | MNUM | MNNT | MNTC | MMDA | MMSA | MMDC => true
  | _ => false
  end.

Definition handle_tokens (m : meth) (d : list bytes) (outs : list outcome) : option handled :=
  if post_init_meta m then
    match read_request m d with
    | PErr msg => Some (HRejected msg)
    | POk q =>
        match handler m q with
        | Some p => let '(cs, r) := exec m p outs in Some (HJob cs (job_result_of r))
        | None => None
        end
    end
  else None.

(* ---------- specification side: the interface table ----------
   the adapter calls a request stands for, as a function of the request alone *)
Definition spec_item_calls (mode_call : text -> mode -> acall) (int_call freq_call : text -> acall)
                           (it : text) : list acall :=
  map (mode_call it) [ModeRaw; ModeMerge; ModeDistinct; ModeCommand] ++ [int_call it; freq_call it].

Definition spec_calls (q : request) : list acall :=
  match q with
  | QNUS u p h => [mk NNotifyUser [AText u; AText p; ADict h];
                   mk NGetBandwidth [AText u]; mk NWantsTables [AText u]]
  | QNUA u p c h => [mk NNotifyUserPrincipal [AText u; AText p; ADict h; AText c];
                     mk NGetBandwidth [AText u]; mk NWantsTables [AText u]]
  | QNNS u s c => [mk NNewSession [AText u; AText s; ADict c]]
  | QNSC s => [mk NSessionClose [AText s]]
  | QGIS u g s => [mk NGetItems [AText u; AText s; AText g]]
  | QGSC u g sc s => [mk NGetSchema [AText u; AText s; AText g; AText sc]]
  | QGIT l => flat_map (spec_item_calls (fun it md => mk NModeMayBeAllowed [AText it; AMode md])
                                        (fun it => mk NDistinctLen [AText it])
                                        (fun it => mk NMinFreq [AText it])) l
  | QGUI u l => flat_map (spec_item_calls (fun it md => mk NIsModeAllowed [AText u; AText it; AMode md])
                                          (fun it => mk NBufferSize [AText u; AText it])
                                          (fun it => mk NMaxItemFreq [AText u; AText it])) l
  | QNUM u s msg => [mk NUserMessage [AText u; AText s; AText msg]]
  | QNNT u s t => [mk NNewTables [AText u; AText s; ATables t]]
  | QNTC s t => [mk NTablesClose [AText s; ATables t]]
  | QMDA u s d => [mk NDeviceAccess [AText u; AText s; ADevice d]]
  | QMSA u s t si => [mk NSubActivation [AText u; AText s; ATable t; ASub si]]
  | QMDC u s d nt => [mk NTokenChange [AText u; AText s; ADevice d; AText nt]]
  | QInit _ | QItem _ => []
  end.

(* position of the first raising outcome among the first n *)
Fixpoint first_raise (outs : list outcome) (n : nat) : option (nat * exn) :=
  match n, outs with
  | O, _ => None
  | _, [] => None
  | S n', ORaise e :: _ => Some (O, e)
  | S n', ORet _ :: r =>
      match first_raise r n' with Some (i, e) => Some (S i, e) | None => None end
  end.

(* the value the i-th call returned (None when the script of outcomes is shorter) *)
Definition ret_at (outs : list outcome) (i : nat) : pyval :=
  match nth_error outs i with Some (ORet v) => v | _ => PNone end.

(* specification of the data reply when no call raises: per method, from the
   values returned at fixed positions *)
Fixpoint spec_item_data (outs : list outcome) (base : nat) (n : nat) : list (pyval * pyval * pyval) :=
  match n with
  | O => []
  | S n' =>
      let ms := flat_map (fun jm => if truthy (ret_at outs (base + fst jm)) then [PMode (snd jm)] else [])
                         [(0, ModeRaw); (1, ModeMerge); (2, ModeDistinct); (3, ModeCommand)]%nat in
      (ret_at outs (base + 4), ret_at outs (base + 5), PList ms) :: spec_item_data outs (base + 6) n'
  end.

Definition spec_data_reply (m : meth) (q : request) (outs : list outcome) : wres bytes :=
  match q with
  | QNUS _ _ _ | QNUA _ _ _ _ => write_notify_user m (ret_at outs 1) (ret_at outs 2)
  | QGIS _ _ _ | QGSC _ _ _ _ => write_list_reply m (ret_at outs 0)
  | QGIT l | QGUI _ l => write_item_data_reply m (spec_item_data outs 0 (length l))
  | _ => WOk (void_reply m)
  end.
