(* Model/SenderFault.v — the writer loop of Model/Sender.v with write faults.

       try:
           ... (Model/Sender.v)
           self._sock.sendall(bytes(to_send + '\r\n', 'utf-8'))
       except OSError as err:
           self._server.on_ioexception(err)
           break

   and Server.on_ioexception (server.py): the application's handler is notified
   when there is one; the default reaction (os._exit) happens iff there is no
   handler or it returns True.

   A run is a list of (label, ok): `ok = false` on a label that makes the writer
   call sendall means that this sendall raised OSError.  The fault does not
   depend on what the line is: a message, the answer to a pill, or the KEEPALIVE
   the timer produced.  After the fault the writer thread has ended (no further
   sendall), exactly as after the stop pill. *)
From Coq Require Import String List Ascii NArith ZArith QArith Bool.
From LS Require Import Model.Bytes Model.Tags Gen.Consts Model.Sender.
Import ListNotations.

(* what the application installed *)
Inductive handler := HAbsent | HReturns (b : option bool).   (* None: the handler returns None *)

Definition wants_exit (h : handler) : bool :=
  match h with HAbsent => true | HReturns (Some true) => true | HReturns _ => false end.

Record fstate := {
  f_s : sst;
  f_attempts : nat;                 (* sendall calls so far, the failing one included *)
  f_failed : option (Q * wkind * bytes);     (* when / why / which line the failing sendall carried *)
  f_reports : nat;                  (* handle_ioexception calls *)
  f_exits : nat                     (* os._exit calls *)
}.

Definition fault_init (k : Q) : fstate :=
  {| f_s := sender_init k; f_attempts := 0; f_failed := None; f_reports := 0; f_exits := 0 |}.

(* the sendall a step makes, if it makes one: why, on whose behalf, which line (mirrors the write clauses of sstep) *)
Definition written_by (s : sst) (l : slabel) : option (wkind * nat * bytes) :=
  if negb (ss_alive s) then None
  else match l with
       | SFire => match ss_tmo s with
                  | Some T => if Qeq_bool (ss_elapsed s) T then Some (WTimeout, 0%nat, keepalive_line) else None
                  | None => None
                  end
       | SPut p None => Some (WPill, p, keepalive_line)
       | SPut p (Some m) =>
           if bytes_eqb m stop_pill then None
           else if bytes_eqb m keepalive_pill then Some (WPill, p, keepalive_line)
           else Some (WMsg, p, m)
       | _ => None
       end.

(* the writer thread after the failing sendall: ended, nothing more is written; time and the stored interval go on *)
Definition killed (s : sst) : sst :=
  {| ss_k := ss_k s; ss_tmo := None; ss_elapsed := ss_elapsed s; ss_now := ss_now s; ss_alive := false; ss_out := ss_out s |}.

Definition fstep (h : handler) (f : fstate) (l : slabel) (ok : bool) : option fstate :=
  match sstep (f_s f) l with
  | None => None
  | Some s' =>
      match written_by (f_s f) l with
      | None => if ok then Some {| f_s := s'; f_attempts := f_attempts f; f_failed := f_failed f;
                                   f_reports := f_reports f; f_exits := f_exits f |}
                else None                       (* no sendall in this step: nothing can fail *)
      | Some (kind, _, line) =>
          if ok then Some {| f_s := s'; f_attempts := S (f_attempts f); f_failed := f_failed f;
                             f_reports := f_reports f; f_exits := f_exits f |}
          else Some {| f_s := killed (f_s f); f_attempts := S (f_attempts f);
                       f_failed := Some (ss_now (f_s f), kind, line);
                       f_reports := match h with HAbsent => f_reports f | HReturns _ => S (f_reports f) end;
                       f_exits := if wants_exit h then S (f_exits f) else f_exits f |}
      end
  end.

Fixpoint frun (h : handler) (f : fstate) (ls : list (slabel * bool)) : option fstate :=
  match ls with
  | [] => Some f
  | (l, ok) :: r => match fstep h f l ok with Some f' => frun h f' r | None => None end
  end.

Definition labels_of (ls : list (slabel * bool)) : list slabel := map fst ls.
Definition all_ok (ls : list (slabel * bool)) : bool := forallb snd ls.
