(* Model/Sx.v — S-expressions: the only data exchanged between the extracted
   model and the correspondence harness (ocaml/driver.ml parses / prints them).
   Atoms are byte strings.  Decoders below are glue, exercised by every
   correspondence run. *)
From Coq Require Import List Ascii String NArith ZArith Bool.
From LS Require Import Model.Bytes.
Import ListNotations.

Inductive sx := SA (a : bytes) | SL (l : list sx).

Definition sym (s : string) : sx := SA (bs s).
Definition app_ (h : string) (args : list sx) : sx := SL (sym h :: args).

Definition sx_bool (b : bool) : sx := if b then sym "T" else sym "F".
Definition sx_Z (z : Z) : sx := SA (Z_to_dec z).
Definition sx_N (n : N) : sx := SA (Z_to_dec (Z.of_N n)).
Definition sx_nat (n : nat) : sx := SA (Z_to_dec (Z.of_nat n)).
Definition sx_list {A} (f : A -> sx) (l : list A) : sx := SL (map f l).
Definition sx_opt {A} (f : A -> sx) (o : option A) : sx :=
  match o with None => sym "none" | Some x => app_ "some" [f x] end.
Definition sx_bytes (b : bytes) : sx := SA b.
Definition sx_obytes (o : option bytes) : sx := sx_opt sx_bytes o.

Definition is_sym (s : string) (x : sx) : bool :=
  match x with SA a => bytes_eqb a (bs s) | SL _ => false end.

Definition un_atom (x : sx) : option bytes :=
  match x with SA a => Some a | SL _ => None end.

Definition un_list (x : sx) : option (list sx) :=
  match x with SL l => Some l | SA _ => None end.

Definition un_bool (x : sx) : option bool :=
  if is_sym "T" x then Some true else if is_sym "F" x then Some false else None.

Definition un_Z (x : sx) : option Z :=
  match x with SA a => parse_int a | SL _ => None end.

Definition un_N (x : sx) : option N :=
  match un_Z x with Some z => if Z.ltb z 0 then None else Some (Z.to_N z) | None => None end.

Definition un_nat (x : sx) : option nat :=
  match un_N x with Some n => Some (N.to_nat n) | None => None end.

Fixpoint opt_all {A} (l : list (option A)) : option (list A) :=
  match l with
  | [] => Some []
  | None :: _ => None
  | Some x :: r => match opt_all r with Some r' => Some (x :: r') | None => None end
  end.

Definition un_listof {A} (f : sx -> option A) (x : sx) : option (list A) :=
  match x with SL l => opt_all (map f l) | SA _ => None end.

Definition un_opt {A} (f : sx -> option A) (x : sx) : option (option A) :=
  if is_sym "none" x then Some None
  else match x with
       | SL [h; v] => if is_sym "some" h then
                        match f v with Some r => Some (Some r) | None => None end
                      else None
       | _ => None
       end.

Definition un_obytes : sx -> option (option bytes) := un_opt un_atom.

(* (head arg1 ... argn) *)
Definition un_app (x : sx) : option (bytes * list sx) :=
  match x with
  | SL (SA h :: args) => Some (h, args)
  | _ => None
  end.

Definition head_is (s : string) (h : bytes) : bool := bytes_eqb h (bs s).

Definition sx_err (msg : string) : sx := app_ "driver-error" [sym msg].
