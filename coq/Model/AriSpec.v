(* Model/AriSpec.v — SPECIFICATION side: the ARI wire format as a conforming
   Proxy Adapter produces it (reference encoder for the 18 request kinds) and
   as it parses what the Remote Server sends (reference decoder for replies and
   notifications).  Written from the protocol layout documented in the test
   suite's request comments and the adapter interface docstrings, not from the
   library's reader / writer code. *)
From Coq Require Import String List Ascii NArith ZArith Bool.
From LS Require Import Model.Bytes Model.Tags Gen.Consts Model.Quote Model.Base64
  Model.Codec Model.Readers.
Import ListNotations.

(* ---------- request encoder ---------- *)
Definition enc_S (t : text) : list bytes := [[c_S]; encode_text t].
Definition enc_I (z : Z) : list bytes := [[c_I]; Z_to_dec z].
Definition enc_M (m : option mode) : list bytes :=
  [[c_M]; match m with None => [c_hash] | Some m' => mode_value m' end].
Definition enc_P (p : platres) : list bytes :=
  [[c_P]; match p with PlNone => [c_hash] | PlEmpty => [c_dollar]
                  | PlMember p' => platform_value p' end].

Definition enc_map (d : list (text * text)) : list bytes :=
  flat_map (fun kv => enc_S (fst kv) ++ enc_S (snd kv)) d.
Definition enc_seq (l : list text) : list bytes := flat_map enc_S l.

Definition enc_table (with_selector : bool) (t : table) : list bytes :=
  enc_I (t_win t) ++ enc_M (t_mode t) ++ enc_S (t_group t) ++ enc_S (t_schema t)
  ++ enc_I (t_min t) ++ enc_I (t_max t)
  ++ (if with_selector then enc_S (t_selector t) else []).
Definition enc_device (d : device) : list bytes :=
  enc_P (d_platform d) ++ enc_S (d_app d) ++ enc_S (d_token d).
Definition enc_subinfo (s : mpnsub) : list bytes :=
  enc_device (s_device s) ++ enc_S (s_trigger s) ++ enc_S (s_format s).

(* argument tokens of a request; maps are given as the pair list the Proxy sends *)
Inductive wire_request :=
| WInit (params : list (text * text))
| WItem (item : text)
| WNUS (user password : text) (headers : list (text * text))
| WNUA (user password principal : text) (headers : list (text * text))
| WNNS (user session : text) (ctx : list (text * text))
| WNSC (session : text)
| WGIS (user group session : text)
| WGSC (user group schema session : text)
| WGIT (items : list text)
| WGUI (user : text) (items : list text)
| WNUM (user session message : text)
| WNNT (user session : text) (tables : list table)
| WNTC (session : text) (tables : list table)
| WMDA (user session : text) (dev : device)
| WMSA (user session : text) (tbl : table) (sub : mpnsub)
| WMDC (user session : text) (dev : device) (newtoken : text).

Definition encode_args (q : wire_request) : list bytes :=
  match q with
  | WInit p => enc_map p
  | WItem i => enc_S i
  | WNUS u p h => enc_S u ++ enc_S p ++ enc_map h
  | WNUA u p c h => enc_S u ++ enc_S p ++ enc_S c ++ enc_map h
  | WNNS u s c => enc_S u ++ enc_S s ++ enc_map c
  | WNSC s => enc_S s
  | WGIS u g s => enc_S u ++ enc_S g ++ enc_S s
  | WGSC u g sc s => enc_S u ++ enc_S g ++ enc_S sc ++ enc_S s
  | WGIT l => enc_seq l
  | WGUI u l => enc_S u ++ enc_seq l
  | WNUM u s m => enc_S u ++ enc_S s ++ enc_S m
  | WNNT u s t => enc_S u ++ enc_S s ++ flat_map (enc_table true) t
  | WNTC s t => enc_S s ++ flat_map (enc_table true) t
  | WMDA u s d => enc_S u ++ enc_S s ++ enc_device d
  | WMSA u s t si => enc_S u ++ enc_S s ++ enc_table false t ++ enc_subinfo si
  | WMDC u s d nt => enc_S u ++ enc_S s ++ enc_device d ++ enc_S nt
  end.

(* which wire_request shapes belong to which method *)
Definition shape_ok (m : meth) (q : wire_request) : bool :=
  match m, q with
  | MDPI, WInit _ | MMPI, WInit _ | MSUB, WItem _ | MUSB, WItem _
  | MNUS, WNUS _ _ _ | MNUA, WNUA _ _ _ _ | MNNS, WNNS _ _ _ | MNSC, WNSC _
  | MGIS, WGIS _ _ _ | MGSC, WGSC _ _ _ _ | MGIT, WGIT _ | MGUI, WGUI _ _
  | MNUM, WNUM _ _ _ | MNNT, WNNT _ _ _ | MNTC, WNTC _ _ | MMDA, WMDA _ _ _
  | MMSA, WMSA _ _ _ _ | MMDC, WMDC _ _ _ _ => true
  | _, _ => false
  end.

(* the decoded request a conforming reading of q yields: maps become dicts
   (insertion order of first occurrence, last binding wins);
   for MSA the table has no selector *)
Definition expected (q : wire_request) : request :=
  match q with
  | WInit p => QInit (dict_of_pairs p)
  | WItem i => QItem i
  | WNUS u p h => QNUS u p (dict_of_pairs h)
  | WNUA u p c h => QNUA u p c (dict_of_pairs h)
  | WNNS u s c => QNNS u s (dict_of_pairs c)
  | WNSC s => QNSC s
  | WGIS u g s => QGIS u g s
  | WGSC u g sc s => QGSC u g sc s
  | WGIT l => QGIT l
  | WGUI u l => QGUI u l
  | WNUM u s m => QNUM u s m
  | WNNT u s t => QNNT u s t
  | WNTC s t => QNTC s t
  | WMDA u s d => QMDA u s d
  | WMSA u s t si =>
      QMSA u s {| t_win := t_win t; t_mode := t_mode t; t_group := t_group t;
                  t_schema := t_schema t; t_min := t_min t; t_max := t_max t;
                  t_selector := None |} si
  | WMDC u s d nt => QMDC u s d nt
  end.

Definition crlf : bytes := [c_cr; c_lf].
Definition lf : bytes := [c_lf].

Definition encode_line (id : bytes) (m : meth) (q : wire_request) (term : bytes) : bytes :=
  join_pipe (id :: meth_name m :: encode_args q) ++ term.

(* request ids: non-empty, no separator, no blank *)
Definition wf_id (id : bytes) : bool :=
  negb (is_nil id) && forallb (fun c => negb (Ascii.eqb c c_pipe) && negb (is_space c)) id.
