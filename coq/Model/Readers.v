(* Model/Readers.v — request decoding: protocol.parse_request / read_token /
   read / read_map / read_seq / read_close, the decorator
   remoting_exception_on_parse, data_protocol.read_* and
   metadata_protocol.read_* (incl. _read_table(s), _read_mpn_device_info,
   _read_subscription_info). *)
From Coq Require Import String List Ascii NArith ZArith Bool.
From LS Require Import Model.Bytes Model.Tags Gen.Consts Model.Quote Model.Codec.
Import ListNotations.

(* ---------- parse_request (protocol.py:104-118) ---------- *)
Record parsed := { p_id : bytes; p_method : bytes; p_data : list bytes }.

Definition nonblank (t : bytes) : bool := negb (is_nil (rstrip t)).

Definition parse_request (line : bytes) : option parsed :=
  let packet := split_on c_pipe (rstrip line) in
  let ne := filter nonblank packet in
  match ne with
  | _ :: m :: data =>
      Some {| p_id := hd [] packet; p_method := m; p_data := data |}
  | _ => None
  end.

(* ---------- exceptions inside the undecorated reader bodies ---------- *)
Inductive raw_err :=
| RawRemoting (msg : bytes)     (* RemotingException(msg) *)
| RawOther.                     (* ValueError from int(), ... *)

Inductive rres (A : Type) := ROk (a : A) | RErr (e : raw_err).
Arguments ROk {A} a.
Arguments RErr {A} e.

Definition rbind {A B} (r : rres A) (f : A -> rres B) : rres B :=
  match r with ROk a => f a | RErr e => RErr e end.
Notation "x <- r ;; k" := (rbind r (fun x => k)) (at level 61, r at next level, right associativity).

Definition of_dres {A} (d : dres A) : rres A :=
  match d with DOk a => ROk a | DErr m => RErr (RawRemoting m) end.

(* read_token *)
Definition read_token (p : list bytes) (i : nat) : rres bytes :=
  match nth_error p i with
  | Some t => ROk t
  | None => RErr (RawRemoting (bs "Token not found"))
  end.

Definition unknown_type (t : bytes) : raw_err :=
  RawRemoting (bs "Unknown type '" ++ t ++ bs "' found").

(* read(packet, data_type, index): type marker at index, value at index+1 *)
Definition read_typed {A} (ty : ascii) (dec : bytes -> rres A) (p : list bytes) (i : nat) : rres A :=
  t <- read_token p i ;;
  if bytes_eqb t [ty] then (cur <- read_token p (S i) ;; dec cur)
  else RErr (unknown_type t).

Definition c_S : ascii := "S"%char.
Definition c_M : ascii := "M"%char.
Definition c_I : ascii := "I"%char.
Definition c_P : ascii := "P"%char.

Definition read_S : list bytes -> nat -> rres text :=
  read_typed c_S (fun t => ROk (decode_string t)).
Definition read_M : list bytes -> nat -> rres (option mode) :=
  read_typed c_M (fun t => of_dres (decode_modes t)).
Definition read_I : list bytes -> nat -> rres Z :=
  read_typed c_I (fun t => match parse_int t with Some z => ROk z | None => RErr RawOther end).
Definition read_P : list bytes -> nat -> rres platres :=
  read_typed c_P (fun t => of_dres (decode_platform t)).

(* read_map(tokens, start): pairs S|k|S|v at data[0], data[4], ... for
   i in range(0, len(data) - 2, 4); a Python dict (insertion order, last
   binding wins) *)
Fixpoint read_pairs (fuel : nat) (data : list bytes) (i : nat) (stop : nat)
  : rres (list (text * text)) :=
  match fuel with
  | O => ROk []
  | S f =>
      if Nat.ltb i stop then
        k <- read_S data i ;;
        v <- read_S data (i + 2) ;;
        rest <- read_pairs f data (i + 4) stop ;;
        ROk ((k, v) :: rest)
      else ROk []
  end.

Definition read_map (tokens : list bytes) (start : nat) : rres (dict text) :=
  let data := skipn start tokens in
  if Nat.eqb (Nat.modulo (length data) 2) 0 then
    pairs <- read_pairs (length data) data 0 (length data - 2) ;;
    ROk (dict_of_pairs pairs)
  else RErr (RawRemoting (bs "Invalid number of tokens")).

(* read_seq(tokens, offset): S|v at data[0], data[2], ... *)
Fixpoint read_seq_aux (fuel : nat) (data : list bytes) (i : nat) : rres (list text) :=
  match fuel with
  | O => ROk []
  | S f =>
      if Nat.ltb i (length data) then
        v <- read_S data i ;;
        rest <- read_seq_aux f data (i + 2) ;;
        ROk (v :: rest)
      else ROk []
  end.

Definition read_seq (tokens : list bytes) (offset : nat) : rres (list text) :=
  let data := skipn offset tokens in
  read_seq_aux (length data) data 0.

(* ---------- value objects ---------- *)
Record table := { t_win : Z; t_mode : option mode; t_group : text; t_schema : text;
                  t_min : Z; t_max : Z; t_selector : text }.
Record device := { d_platform : platres; d_app : text; d_token : text }.
Record mpnsub := { s_device : device; s_trigger : text; s_format : text }.

(* _read_table(table, offset, with_selector) *)
Definition read_table (tb : list bytes) (o : nat) (with_selector : bool) : rres table :=
  win <- read_I tb o ;;
  mo <- read_M tb (o + 2) ;;
  gr <- read_S tb (o + 4) ;;
  sc <- read_S tb (o + 6) ;;
  mi <- read_I tb (o + 8) ;;
  ma <- read_I tb (o + 10) ;;
  sel <- (if with_selector then read_S tb (o + 12) else ROk None) ;;
  ROk {| t_win := win; t_mode := mo; t_group := gr; t_schema := sc;
         t_min := mi; t_max := ma; t_selector := sel |}.

(* _read_tables(data, offset): chunks of 14 tokens *)
Fixpoint read_tables_aux (fuel : nat) (segs : list bytes) : rres (list table) :=
  match fuel with
  | O => ROk []
  | S f =>
      match segs with
      | [] => ROk []
      | _ :: _ =>
          t <- read_table (firstn 14 segs) 0 true ;;
          rest <- read_tables_aux f (skipn 14 segs) ;;
          ROk (t :: rest)
      end
  end.

Definition read_tables (data : list bytes) (offset : nat) : rres (list table) :=
  let segs := skipn offset data in
  read_tables_aux (length segs) segs.

Definition read_device (data : list bytes) (o : nat) : rres device :=
  pl <- read_P data o ;;
  app <- read_S data (o + 2) ;;
  tok <- read_S data (o + 4) ;;
  ROk {| d_platform := pl; d_app := app; d_token := tok |}.

Definition read_subinfo (data : list bytes) (o : nat) : rres mpnsub :=
  dev <- read_device data o ;;
  trg <- read_S data (o + 6) ;;
  fmt <- read_S data (o + 8) ;;
  ROk {| s_device := dev; s_trigger := trg; s_format := fmt |}.

(* ---------- decoded requests, one constructor per request kind ---------- *)
Inductive request :=
| QInit (params : dict text)                         (* DPI / MPI *)
| QItem (item : text)                                (* SUB / USB *)
| QNUS (user password : text) (headers : dict text)
| QNUA (user password principal : text) (headers : dict text)
| QNNS (user session : text) (ctx : dict text)
| QNSC (session : text)
| QGIS (user group session : text)
| QGSC (user group schema session : text)
| QGIT (items : list text)
| QGUI (user : text) (items : list text)
| QNUM (user session message : text)
| QNNT (user session : text) (tables : list table)
| QNTC (session : text) (tables : list table)
| QMDA (user session : text) (dev : device)
| QMSA (user session : text) (tbl : table) (sub : mpnsub)
| QMDC (user session : text) (dev : device) (newtoken : text).

(* undecorated bodies; evaluation order = order of the dict displays in the source *)
Definition read_body (m : meth) (d : list bytes) : rres request :=
  match m with
  | MDPI | MMPI => p <- read_map d 0 ;; ROk (QInit p)
  | MSUB | MUSB => i <- read_S d 0 ;; ROk (QItem i)
  | MNUS => u <- read_S d 0 ;; p <- read_S d 2 ;; h <- read_map d 4 ;; ROk (QNUS u p h)
  | MNUA => u <- read_S d 0 ;; p <- read_S d 2 ;; c <- read_S d 4 ;; h <- read_map d 6 ;;
            ROk (QNUA u p c h)
  | MNNS => u <- read_S d 0 ;; s <- read_S d 2 ;; c <- read_map d 4 ;; ROk (QNNS u s c)
  | MNSC => s <- read_S d 0 ;; ROk (QNSC s)
  | MGIS => u <- read_S d 0 ;; g <- read_S d 2 ;; s <- read_S d 4 ;; ROk (QGIS u g s)
  | MGSC => u <- read_S d 0 ;; g <- read_S d 2 ;; sc <- read_S d 4 ;; s <- read_S d 6 ;;
            ROk (QGSC u g sc s)
  | MGIT => l <- read_seq d 0 ;; ROk (QGIT l)
  | MGUI => u <- read_S d 0 ;; l <- read_seq d 2 ;; ROk (QGUI u l)
  | MNUM => u <- read_S d 0 ;; s <- read_S d 2 ;; msg <- read_S d 4 ;; ROk (QNUM u s msg)
  | MNNT => u <- read_S d 0 ;; s <- read_S d 2 ;; t <- read_tables d 4 ;; ROk (QNNT u s t)
  | MNTC => s <- read_S d 0 ;; t <- read_tables d 2 ;; ROk (QNTC s t)
  | MMDA => u <- read_S d 0 ;; s <- read_S d 2 ;; dv <- read_device d 4 ;; ROk (QMDA u s dv)
  | MMSA => u <- read_S d 0 ;; s <- read_S d 2 ;; t <- read_table d 4 false ;;
            si <- read_subinfo d 16 ;; ROk (QMSA u s t si)
  | MMDC => u <- read_S d 0 ;; s <- read_S d 2 ;; dv <- read_device d 4 ;;
            nt <- read_S d 10 ;; ROk (QMDC u s dv nt)
  | _ => RErr RawOther     (* not a request method: no reader *)
  end.

(* ---------- the decorator remoting_exception_on_parse(method) ---------- *)
Inductive pres (A : Type) := POk (a : A) | PErr (msg : bytes).   (* PErr = RemotingException(msg) *)
Arguments POk {A} a.
Arguments PErr {A} msg.

Definition decorate {A} (m : meth) (r : rres A) : pres A :=
  match r with
  | ROk a => POk a
  | RErr (RawRemoting msg) =>
      PErr (msg ++ bs " while parsing " ++ meth_name m ++ bs " request")
  | RErr RawOther =>
      PErr (bs "An unexpected exception caught while parsing " ++ meth_name m ++ bs " request")
  end.

(* the decorated module-level read_* function of method m *)
Definition read_request (m : meth) (d : list bytes) : pres request :=
  decorate m (read_body m d).

(* read_close is NOT decorated: errors surface as they are *)
Definition read_close (d : list bytes) : rres (dict text) := read_map d 0.

Definition meth_of_name (name : bytes) : option meth :=
  find (fun m => bytes_eqb (meth_name m) name) all_meths.

(* whole line -> (id, method, request) for a request method *)
Inductive line_res :=
| LNone                                  (* parse_request returned None *)
| LUnknown (id name : bytes)             (* not one of the 18 request methods *)
| LReq (id : bytes) (m : meth) (r : pres request).

Definition decode_line (line : bytes) : line_res :=
  match parse_request line with
  | None => LNone
  | Some p =>
      match find (fun m => bytes_eqb (meth_name m) (p_method p)) request_methods with
      | Some m => LReq (p_id p) m (read_request m (p_data p))
      | None => LUnknown (p_id p) (p_method p)
      end
  end.
