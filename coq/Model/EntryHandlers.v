(* Model/EntryHandlers.v — S-expression glue for Model/MetaHandlers.v *)
From Coq Require Import String List Ascii NArith ZArith Bool.
From LS Require Import Model.Bytes Model.Tags Gen.Consts Model.Sx Model.Codec Model.Readers Model.Writers
                       Model.AriSpec Model.AriReply Model.MetaHandlers Model.Envelope Model.Classify Model.EndToEnd Model.EntryWire Model.EntryReply.
Import ListNotations.

Definition sx_arg (a : arg) : sx :=
  match a with
  | AText t => sx_text t
  | ADict d => sx_dict d
  | ATables l => sx_list sx_table l
  | ATable t => sx_table t
  | ADevice d => sx_device d
  | ASub s => sx_subinfo s
  | AMode m => sx_mode m
  end.

Definition sx_acall (c : acall) : sx := SL (sym (aname_ident (c_name c)) :: map sx_arg (c_args c)).

(* outcome: (ret <pyval>) | (raise <exn>) *)
Definition un_outcome_h (x : sx) : option outcome :=
  match x with
  | SL [h; v] =>
      if is_sym "ret" h then option_map ORet (un_pyval v)
      else if is_sym "raise" h then option_map ORaise (un_exn v)
      else None
  | _ => None
  end.

Definition sx_job_result (r : job_result) : sx :=
  match r with
  | JReply l => app_ "reply" [SA l]
  | JHandler => sym "handler"
  | JSilent => sym "silent"
  | JUnmodelled => sym "unmodelled"
  end.

(* (meta_handle METH (<tok> ...) (<outcome> ...)) -> (rejected) | (job (<call> ...) <result>) *)
Definition e_meta_handle (args : list sx) : sx :=
  match args with
  | [m; toks; outs] =>
      match un_meth m, un_listof un_atom toks, un_listof un_outcome_h outs with
      | Some m', Some ts, Some os =>
          match handle_tokens m' ts os with
          | Some (HRejected _) => app_ "rejected" []
          | Some (HJob cs r) => app_ "job" [sx_list sx_acall cs; sx_job_result r]
          | None => app_ "no-handler" []
          end
      | _, _, _ => sx_err "meta_handle: bad args"
      end
  | _ => sx_err "meta_handle: arity"
  end.

(* (meta_spec_calls <wire request>) -> the interface table of the encoded values *)
Definition e_meta_spec_calls (args : list sx) : sx :=
  match args with
  | [w] => match un_wire w with
           | Some w' => sx_list sx_acall (spec_calls (expected w'))
           | None => sx_err "meta_spec_calls: bad args"
           end
  | _ => sx_err "meta_spec_calls: arity"
  end.

(* (envelope_reply <rid> <resp>) / (envelope_notify <ts> <ntfy>) -> (<message> <wire bytes>) *)
Definition e_envelope_reply (args : list sx) : sx :=
  match args with
  | [SA rid; SA resp] => let m := reply_message rid resp in SL [SA m; SA (wire_message m)]
  | _ => sx_err "envelope_reply: bad args"
  end.

Definition e_envelope_notify (args : list sx) : sx :=
  match args with
  | [ts; SA ntfy] =>
      match un_Z ts with
      | Some z => let m := notify_message z ntfy in SL [SA m; SA (wire_message m)]
      | None => sx_err "envelope_notify: bad args"
      end
  | _ => sx_err "envelope_notify: bad args"
  end.

(* (classify KIND <line>) -> garbage | (close id0 rok) | (init <id> wf refused oldv) | (req <id> wf known) | unmodelled *)
Definition e_classify (args : list sx) : sx :=
  match args with
  | [k; SA line] =>
      match un_kind k with
      | Some k' =>
          match classify k' line with
          | CGarbage => sym "garbage"
          | CClose a b => app_ "close" [sx_bool a; sx_bool b]
          | CInit id a b c => app_ "init" [SA id; sx_bool a; sx_bool b; sx_bool c]
          | CReq id a b => app_ "req" [SA id; sx_bool a; sx_bool b]
          | CUnmodelled => sym "unmodelled"
          end
      | None => sx_err "classify: bad kind"
      end
  | _ => sx_err "classify: bad args"
  end.

(* (answer_meta <line> (<outcome> ...)) -> ((<call> ...) (wire <bytes>) | handler | none | unmodelled) *)
Definition e_answer_meta (args : list sx) : sx :=
  match args with
  | [SA line; outs] =>
      match un_listof un_outcome_h outs with
      | Some os =>
          let '(cs, a) := answer_meta line os in
          SL [sx_list sx_acall cs;
              match a with
              | AnsWire b => app_ "wire" [SA b]
              | AnsHandler => sym "handler"
              | AnsNone => sym "none"
              | AnsUnmodelled => sym "unmodelled"
              end]
      | None => sx_err "answer_meta: bad args"
      end
  | _ => sx_err "answer_meta: bad args"
  end.

Definition entry_handlers (h : bytes) (args : list sx) : option sx :=
  if head_is "meta_handle" h then Some (e_meta_handle args)
  else if head_is "meta_spec_calls" h then Some (e_meta_spec_calls args)
  else if head_is "envelope_reply" h then Some (e_envelope_reply args)
  else if head_is "envelope_notify" h then Some (e_envelope_notify args)
  else if head_is "classify" h then Some (e_classify args)
  else if head_is "answer_meta" h then Some (e_answer_meta args)
  else None.
