(* Model/ItemSpec.v — executable vocabulary for stating and checking the
   item properties over Model/Item.v: the environment assumption (per-item
   alternation of arrivals, distinct non-empty request ids), projections of the
   ghost history, the invariants as boolean functions (evaluated along every
   correspondence trace before being proved in Proofs/Item*.v), and the
   property monitors. *)
From Coq Require Import String List Ascii NArith ZArith Bool.
From LS Require Import Model.Bytes Model.Tags Gen.Consts Model.Codec Model.Writers Model.AriReply Model.Item.
Import ListNotations.

Definition task_eqb (a b : task) : bool := bytes_eqb (t_rid a) (t_rid b) && Bool.eqb (t_sub a) (t_sub b).

(* ---------- projections of the history ---------- *)
Fixpoint arrived (h : list event) : list task :=
  match h with
  | [] => []
  | EArr t :: r => t :: arrived r
  | _ :: r => arrived r
  end.

Fixpoint dropped (h : list event) : list task :=
  match h with
  | [] => []
  | EArrDropped t :: r => t :: dropped r
  | _ :: r => dropped r
  end.

Fixpoint replied (h : list event) : list task :=
  match h with
  | [] => []
  | EReply t _ :: r => t :: replied r
  | _ :: r => replied r
  end.

Fixpoint last_task (l : list task) : option task :=
  match l with [] => None | [t] => Some t | _ :: r => last_task r end.

(* every request the reader has seen for the item, accepted or dropped, in order *)
Fixpoint seen (h : list event) : list task :=
  match h with
  | [] => []
  | EArr t :: r => t :: seen r
  | EArrDropped t :: r => t :: seen r
  | _ :: r => seen r
  end.

(* ---------- environment: what the Proxy Adapter may send ---------- *)
(* request t may arrive after history h: non-empty fresh id; kinds alternate per item, starting with SUB *)
Definition arrival_ok (h : list event) (t : task) : bool :=
  negb (is_nil (t_rid t)) &&
  negb (existsb (fun u => bytes_eqb (t_rid u) (t_rid t)) (seen h)) &&
  match last_task (seen h) with
  | None => t_sub t
  | Some u => Bool.eqb (t_sub t) (negb (t_sub u))
  end.

Definition env_ok (s : istate) (lb : label) : bool :=
  match lb with
  | LbR1 t => arrival_ok (s_hist s) t
  | _ => true
  end.

Definition step_env (s : istate) (lb : label) : option istate :=
  if env_ok s lb then step s lb else None.

Fixpoint run_env (s : istate) (ls : list label) : option istate :=
  match ls with
  | [] => Some s
  | l :: r => match step_env s l with Some s' => run_env s' r | None => None end
  end.

(* ---------- state vocabulary ---------- *)
Definition pc_done (p : pc) : bool := match p with PDone => true | _ => false end.
Definition live_dq (d : dq) : bool := negb (pc_done (d_pc d)).
Definition inloop (d : dq) : bool := match d_pc d with PDec | PDone => false | _ => true end.

Definition cur_gen (s : istate) : option nat :=
  match length (s_mgrs s) with O => None | S n => Some n end.

Definition active_mgr (s : istate) : option mgr :=
  match s_active s with Some g => nth_error (s_mgrs s) g | None => None end.

Definition is_some {A} (o : option A) : bool := match o with Some _ => true | None => false end.

(* the task an in-loop dequeuer holds and has not answered yet *)
Definition inhand_pc (p : pc) : list task :=
  match p with
  | PLate t | PSetCode t | PSnapB t | PSnapE t | PEosRead t | PEosPut t _ | PSubB t | PInSub t
  | PUsbB t | PInUsb t | PNestRead t _ _ | PNestPut t _ _ _ | PReply t _ | PUsbLate t => [t]
  | PQueued | PTop | PClear | PDec | PDone => []
  end.

Definition inhand (s : istate) : list task := flat_map (fun d => inhand_pc (d_pc d)) (s_dqs s).

Definition pending_tasks (s : istate) : list task :=
  match s_pending s with Some (t, _) => [t] | None => [] end.

Definition deque_tasks (s : istate) : list task :=
  match active_mgr s with Some m => m_deq m | None => [] end.

(* no thread of the library has anything left to do for the item *)
Definition quiescent (s : istate) : bool :=
  negb (is_some (s_pending s)) && forallb (fun d => pc_done (d_pc d)) (s_dqs s).

(* ---------- invariants (boolean; proved inductive in Proofs/Item*.v) ---------- *)
(* I-gen: everything alive refers to the manager in the active map, which is the
   last one created *)
Definition inv_gen (s : istate) : bool :=
  match cur_gen s with
  | None => negb (is_some (s_active s)) && negb (is_some (s_pending s)) && is_nil (s_dqs s)
  | Some c =>
      let act := match s_active s with Some g => Nat.eqb g c | None => false end in
      match s_active s with Some g => Nat.eqb g c | None => true end &&
      forallb (fun d => negb (live_dq d) || (Nat.eqb (d_gen d) c && act)) (s_dqs s) &&
      match s_pending s with Some (_, g) => Nat.eqb g c && act | None => true end
  end.

(* I-single: at most one dequeuer is inside its loop, it is the last one created,
   and the running flag says whether there is one *)
Fixpoint count_inloop (l : list dq) : nat :=
  match l with [] => O | d :: r => (if inloop d then 1 else 0) + count_inloop r end.

Definition inv_single (s : istate) : bool :=
  Nat.leb (count_inloop (s_dqs s)) 1 &&
  match active_mgr s with
  | Some m => Bool.eqb (m_running m) (Nat.eqb (count_inloop (s_dqs s)) 1)
  | None => Nat.eqb (count_inloop (s_dqs s)) 0
  end.

(* I-count: the queued counter = tasks in the deque + the one the reader is about
   to add + everything dequeued by jobs that have not yet subtracted it *)
Definition sum_dequeued (l : list dq) : Z :=
  fold_right (fun d acc => if live_dq d then (d_dequeued d + acc)%Z else acc) 0%Z l.

Definition inv_count (s : istate) : bool :=
  match active_mgr s with
  | Some m =>
      Z.eqb (m_queued m)
            (Z.of_nat (length (m_deq m)) + (if is_some (s_pending s) then 1 else 0) + sum_dequeued (s_dqs s))%Z
  | None => true
  end.

(* I-start: a job that has dequeued nothing yet still has its task waiting; a job
   past its first pop has dequeued at least one *)
Definition inv_start (s : istate) : bool :=
  forallb (fun d =>
             match d_pc d with
             | PDone => true
             | PQueued | PTop =>
                 Z.leb 0 (d_dequeued d) &&
                 (negb (Z.eqb (d_dequeued d) 0) ||
                  match nth_error (s_mgrs s) (d_gen d) with
                  | Some m => negb (is_nil (m_deq m))
                  | None => false
                  end)
             | _ => Z.leb 1 (d_dequeued d)
             end) (s_dqs s).

Definition inv_struct (s : istate) : bool :=
  inv_gen s && inv_single s && inv_count s && inv_start s.

(* I-fifo: every accepted request is in exactly one place, in arrival order:
   answered, in the hand of the dequeuer, in the deque, or with the reader *)
Fixpoint tasks_eqb (a b : list task) : bool :=
  match a, b with
  | [], [] => true
  | x :: r, y :: q => task_eqb x y && tasks_eqb r q
  | _, _ => false
  end.

Definition inv_fifo (s : istate) : bool :=
  tasks_eqb (arrived (s_hist s))
            (replied (s_hist s) ++ inhand s ++ deque_tasks s ++ pending_tasks s) &&
  is_nil (dropped (s_hist s)).

(* I-code: the published id is a function of the history *)
Fixpoint hist_code_from (c : option bytes) (h : list event) : option bytes :=
  match h with
  | [] => c
  | ESetCode t :: r => hist_code_from (Some (t_rid t)) r
  | EClearCode :: r => hist_code_from None r
  | _ :: r => hist_code_from c r
  end.
Definition hist_code (h : list event) : option bytes := hist_code_from None h.

Definition obytes_eqb (a b : option bytes) : bool :=
  match a, b with
  | None, None => true
  | Some x, Some y => bytes_eqb x y
  | _, _ => false
  end.

(* while a subscription task is being executed its id is the published one, and
   a code value read for a library / nested notification is that id *)
Definition pc_code_ok (c : option bytes) (p : pc) : bool :=
  match p with
  | PSnapB t | PSnapE t | PEosRead t | PSubB t | PInSub t | PNestRead t true _ =>
      obytes_eqb c (Some (t_rid t))
  | PEosPut t c' | PNestPut t true _ c' =>
      obytes_eqb c (Some (t_rid t)) && obytes_eqb c' (Some (t_rid t))
  | PReply t _ => negb (t_sub t) || obytes_eqb c (Some (t_rid t))
  | _ => true
  end.

Definition inv_code (s : istate) : bool :=
  obytes_eqb (active_code s) (hist_code (s_hist s)) &&
  forallb (fun d => pc_code_ok (active_code s) (d_pc d)) (s_dqs s).

(* I-lso: the outcome flag the next unsubscription will consult is a function of
   the history *)
Fixpoint hist_lso_from (b : bool) (h : list event) : bool :=
  match h with
  | [] => b
  | ESkip _ :: r => hist_lso_from false r
  | ECallE KSub _ (CRet _) :: r => hist_lso_from true r
  | ECallE KSub _ (CRaise _) :: r => hist_lso_from false r
  | ECallE KSnap _ (CRaise _) :: r => hist_lso_from false r
  | EDel :: r => hist_lso_from false r
  | _ :: r => hist_lso_from b r
  end.
Definition hist_lso (h : list event) : bool := hist_lso_from false h.

Definition next_lso (s : istate) : bool :=
  match find inloop (s_dqs s), active_mgr s with
  | Some d, Some m => if Z.eqb (d_dequeued d) 0 then m_last_ok m else d_lso d
  | Some d, None => d_lso d
  | None, Some m => m_last_ok m
  | None, None => false
  end.

Definition inv_lso (s : istate) : bool := Bool.eqb (next_lso s) (hist_lso (s_hist s)).

(* I-rids: accepted requests have distinct non-empty ids *)
Fixpoint nodup_rids (l : list task) : bool :=
  match l with
  | [] => true
  | t :: r => negb (existsb (fun u => bytes_eqb (t_rid u) (t_rid t)) r) && nodup_rids r
  end.

Definition inv_rids (s : istate) : bool :=
  forallb (fun t => negb (is_nil (t_rid t))) (seen (s_hist s)) && nodup_rids (seen (s_hist s)) &&
  match active_code s with Some [] => false | _ => true end.

(* I-last: while the latest request seen for the item is a subscription, it is
   either still on its way through the machinery or it is the published one; a
   subscription about to be skipped has a later task behind it *)
Definition inv_last (s : istate) : bool :=
  match last_task (seen (s_hist s)) with
  | Some t =>
      negb (t_sub t) ||
      existsb (task_eqb t) (inhand s ++ deque_tasks s ++ pending_tasks s) ||
      obytes_eqb (active_code s) (Some (t_rid t))
  | None => true
  end &&
  forallb (fun d => match d_pc d with PLate _ => negb (is_nil (deque_tasks s)) | _ => true end) (s_dqs s).

Definition inv_all (s : istate) : bool :=
  inv_struct s && inv_rids s && inv_fifo s && inv_last s && inv_code s && inv_lso s.

(* ---------- property monitors over the history ---------- *)
(* C02: adapter calls of the item never overlap, and unsubscribe is invoked only
   when the immediately preceding subscribe/unsubscribe invocation was a subscribe
   that returned normally.  State: (call in progress?, last invocation was a
   subscribe that returned) *)
Fixpoint calls_ok_from (open_ : bool) (sub_ok : bool) (h : list event) : bool :=
  match h with
  | [] => true
  | ECallB KUsb _ :: r => negb open_ && sub_ok && calls_ok_from true false r
  | ECallB _ _ :: r => negb open_ && calls_ok_from true sub_ok r
  | ECallE KSub _ (CRet _) :: r => open_ && calls_ok_from false true r
  | ECallE KSub _ (CRaise _) :: r => open_ && calls_ok_from false false r
  | ECallE _ _ _ :: r => open_ && calls_ok_from false sub_ok r
  | _ :: r => calls_ok_from open_ sub_ok r
  end.
Definition calls_ok (h : list event) : bool := calls_ok_from false false h.

(* C03 / C17: every notification carries the id published at that moment, which
   is the id of a subscription the library executed; the item name is the model's *)
Fixpoint notifs_ok_from (c : option bytes) (h : list event) : bool :=
  match h with
  | [] => true
  | ESetCode t :: r => notifs_ok_from (Some (t_rid t)) r
  | EClearCode :: r => notifs_ok_from None r
  | ENotif _ _ rid _ :: r => obytes_eqb c (Some rid) && notifs_ok_from c r
  | _ :: r => notifs_ok_from c r
  end.
(* note: a notification may be enqueued after the id it read was replaced; the
   monitor below is the precise statement: the id was published at some point of
   the listener call.  notifs_ok is checked on traces only as a diagnostic. *)
Definition notifs_ok (h : list event) : bool := notifs_ok_from None h.

(* ids ever published *)
Fixpoint published (h : list event) : list bytes :=
  match h with
  | [] => []
  | ESetCode t :: r => t_rid t :: published r
  | _ :: r => published r
  end.

Definition notif_ids_published (h : list event) : bool :=
  let fix go (seen_ : list bytes) (h : list event) : bool :=
      match h with
      | [] => true
      | ESetCode t :: r => go (t_rid t :: seen_) r
      | ENotif _ _ rid _ :: r => existsb (bytes_eqb rid) seen_ && go seen_ r
      | _ :: r => go seen_ r
      end in
  go [] h.

(* C02: a subscription is skipped only if a later request had already arrived *)
Fixpoint skips_ok_from (arr : list task) (h : list event) : bool :=
  match h with
  | [] => true
  | EArr t :: r => skips_ok_from (arr ++ [t]) r
  | ESkip t :: r =>
      match last_task arr with
      | Some u => negb (task_eqb u t) && existsb (task_eqb t) arr && skips_ok_from arr r
      | None => false
      end
  | _ :: r => skips_ok_from arr r
  end.
Definition skips_ok (h : list event) : bool := skips_ok_from [] h.

(* C01: the reply of each request reports what happened to it.  State: the task
   being processed with what is known about it so far *)
Inductive tstat := TsSkipped | TsOutcome (o : call_outcome).

Fixpoint status_ok_from (cur : option (task * tstat)) (h : list event) : bool :=
  match h with
  | [] => true
  | ESkip t :: r => status_ok_from (Some (t, TsSkipped)) r
  | ECallE KSnap t (CRaise e) :: r => status_ok_from (Some (t, TsOutcome (CRaise e))) r
  | ECallE KSnap t (CRet _) :: r => status_ok_from cur r
  | ECallE _ t o :: r => status_ok_from (Some (t, TsOutcome o)) r
  | EReply t line :: r =>
      let want :=
          match cur with
          | Some (u, TsSkipped) =>
              if task_eqb u t then reply_line t (error_reply MSUB late_exn) else None
          | Some (u, TsOutcome o) =>
              if task_eqb u t then reply_line t (outcome_payload t o)
              else if t_sub t then None else reply_line t (WOk (void_reply MUSB))
          | None => if t_sub t then None else reply_line t (WOk (void_reply MUSB))
          end in
      match want with
      | Some w => bytes_eqb w line && status_ok_from None r
      | None => false
      end
  | _ :: r => status_ok_from cur r
  end.
Definition status_ok (h : list event) : bool := status_ok_from None h.

(* C17: the library's own end-of-snapshot *)
Inductive eos_st := EsNone | EsWant (t : task) | EsGot (t : task) | EsNoEos (t : task) | EsNoSub (t : task).

Fixpoint eos_ok_from (st : eos_st) (h : list event) : bool :=
  match h with
  | [] => true
  | ECallE KSnap t (CRet true) :: r => eos_ok_from (EsWant t) r
  | ECallE KSnap t (CRet false) :: r => eos_ok_from (EsNoEos t) r
  | ECallE KSnap t (CRaise _) :: r => eos_ok_from (EsNoSub t) r
  | ENotif OLib k rid _ :: r =>
      match st, k with
      | EsWant t, LEos => bytes_eqb rid (t_rid t) && eos_ok_from (EsGot t) r
      | _, _ => false
      end
  | ECallB KSub t :: r =>
      match st with
      | EsGot u | EsNoEos u => task_eqb u t && eos_ok_from EsNone r
      | _ => false
      end
  | EReply t _ :: r =>
      match st with
      | EsNone => eos_ok_from EsNone r
      | EsNoSub u => task_eqb u t && eos_ok_from EsNone r
      | _ => false
      end
  | _ :: r => eos_ok_from st r
  end.
Definition eos_ok (h : list event) : bool := eos_ok_from EsNone h.

(* C03: an event submitted from inside subscribe() of t is forwarded with t's id *)
Fixpoint nested_ok_from (insub : option task) (h : list event) : bool :=
  match h with
  | [] => true
  | ECallB KSub t :: r => nested_ok_from (Some t) r
  | ECallE KSub _ _ :: r => nested_ok_from None r
  | ENotif (ONested _) _ rid _ :: r =>
      match insub with Some t => bytes_eqb rid (t_rid t) | None => true end && nested_ok_from insub r
  | ELisDropped (ONested _) _ :: r =>
      match insub with Some _ => false | None => true end && nested_ok_from insub r
  | _ :: r => nested_ok_from insub r
  end.
Definition nested_ok (h : list event) : bool := nested_ok_from None h.

(* C03: an event whose whole listener call lies after a successful subscribe() of t
   and before the next unsubscribe()/subscribe() call begins is forwarded with t's id *)
Fixpoint assoc_get {A} (k : nat) (l : list (nat * A)) : option A :=
  match l with [] => None | (k', v) :: r => if Nat.eqb k k' then Some v else assoc_get k r end.
Fixpoint assoc_del {A} (k : nat) (l : list (nat * A)) : list (nat * A) :=
  match l with [] => [] | (k', v) :: r => if Nat.eqb k k' then assoc_del k r else (k', v) :: assoc_del k r end.

Fixpoint between_ok_from (live_sub : option task) (want : list (nat * task)) (h : list event) : bool :=
  match h with
  | [] => true
  | ECallE KSub t (CRet _) :: r => between_ok_from (Some t) want r
  | ECallB KUsb _ :: r => between_ok_from None [] r
  | ECallB KSub _ :: r => between_ok_from None [] r
  | ELisB (OFree l) _ :: r =>
      between_ok_from live_sub
        (match live_sub with Some t => (l, t) :: assoc_del l want | None => assoc_del l want end) r
  | ENotif (OFree l) _ rid _ :: r =>
      match assoc_get l want with Some t => bytes_eqb rid (t_rid t) | None => true end &&
      between_ok_from live_sub (assoc_del l want) r
  | ELisDropped (OFree l) _ :: r =>
      match assoc_get l want with Some _ => false | None => true end &&
      between_ok_from live_sub (assoc_del l want) r
  | _ :: r => between_ok_from live_sub want r
  end.
Definition between_ok (h : list event) : bool := between_ok_from None [] h.

(* C03: once a newer subscribe() call has begun, no event submitted afterwards carries an older id *)
Fixpoint index_of (rid : bytes) (l : list task) (n : nat) : option nat :=
  match l with [] => None | t :: r => if bytes_eqb (t_rid t) rid then Some n else index_of rid r (S n) end.

Definition okey_origin (o : origin) : nat :=
  match o with OLib => 0 | ONested j => 1 + 2 * j | OFree l => 2 + 2 * l end.

Fixpoint stale_ok_from (arr : list task) (newest : option task) (begun : list (nat * task)) (h : list event) : bool :=
  match h with
  | [] => true
  | EArr t :: r => stale_ok_from (arr ++ [t]) newest begun r
  | ECallB KSub t :: r => stale_ok_from arr (Some t) begun r
  | ELisB o _ :: r =>
      stale_ok_from arr newest
        (match newest with Some t => (okey_origin o, t) :: assoc_del (okey_origin o) begun
                      | None => assoc_del (okey_origin o) begun end) r
  | ENotif o _ rid _ :: r =>
      match assoc_get (okey_origin o) begun with
      | Some t =>
          match index_of rid arr 0, index_of (t_rid t) arr 0 with
          | Some i, Some j => Nat.leb j i
          | _, _ => false
          end
      | None => true
      end && stale_ok_from arr newest (assoc_del (okey_origin o) begun) r
  | ELisDropped o _ :: r => stale_ok_from arr newest (assoc_del (okey_origin o) begun) r
  | _ :: r => stale_ok_from arr newest begun r
  end.
Definition stale_ok (h : list event) : bool := stale_ok_from [] None [] h.

(* every monitor at once (used along correspondence traces) *)
Definition monitors (h : list event) : list (string * bool) :=
  [("calls_ok", calls_ok h); ("skips_ok", skips_ok h); ("status_ok", status_ok h); ("eos_ok", eos_ok h);
   ("nested_ok", nested_ok h); ("between_ok", between_ok h); ("stale_ok", stale_ok h);
   ("notif_ids_published", notif_ids_published h)]%string.

Definition invariants (s : istate) : list (string * bool) :=
  [("inv_gen", inv_gen s); ("inv_single", inv_single s); ("inv_count", inv_count s); ("inv_start", inv_start s);
   ("inv_rids", inv_rids s); ("inv_fifo", inv_fifo s); ("inv_last", inv_last s); ("inv_code", inv_code s);
   ("inv_lso", inv_lso s)]%string.
