(* Model/ItemSpec3.v — progress vocabulary for Model/Item.v: which steps are the
   library's own (internal) and a natural-number measure that every internal
   step strictly decreases.  With finitely many arrivals and listener calls and
   adapter calls that return, every maximal execution is therefore finite and —
   by deadlock freedom — ends in a quiescent state, whatever the scheduler does. *)
From Coq Require Import String List Ascii NArith ZArith Bool.
From LS Require Import Model.Bytes Model.Tags Gen.Consts Model.Codec Model.Writers Model.AriReply
  Model.Item Model.ItemSpec.
Import ListNotations.

(* steps initiated by the environment: a request arrives, adapter code starts a listener call *)
Definition internal (lb : label) : bool :=
  match lb with
  | LbR1 _ | LbNest _ _ | LbFreeBegin _ _ => false
  | _ => true
  end.

Definition rank_pc (p : pc) : nat :=
  match p with
  | PDone => 0
  | PDec => 1
  | PTop => 4
  | PQueued => 5
  | PClear => 5
  | PReply _ _ => 6
  | PLate _ => 6
  | PUsbLate _ => 6
  | PInSub _ => 7
  | PInUsb _ => 7
  | PSubB _ => 8
  | PUsbB _ => 8
  | PNestPut _ _ _ _ => 8
  | PNestRead _ _ _ => 9
  | PEosPut _ _ => 9
  | PEosRead _ => 10
  | PSnapE _ => 11
  | PSnapB _ => 12
  | PSetCode _ => 13
  end.

Definition rank_lpc (p : lpc) : nat :=
  match p with LIdle => 0 | LPutS _ _ => 1 | LRead _ => 2 end.

Definition measure (s : istate) : nat :=
  20 * fold_right (fun m acc => length (m_deq m) + acc) 0 (s_mgrs s) +
  (match s_pending s with Some _ => 30 | None => 0 end) +
  fold_right (fun d acc => rank_pc (d_pc d) + acc) 0 (s_dqs s) +
  fold_right (fun p acc => rank_lpc p + acc) 0 (s_lis s).

(* exceptions whose error reply can be encoded: the extra payload fields are text or None
   (true of every exception an adapter can raise: C08) *)
Definition text_like_b (v : pyval) : bool := match v with PNone | PStr _ | PBytes _ => true | _ => false end.
Definition exn_ok (e : exn) : bool := text_like_b (e_user_msg e) && text_like_b (e_session e).

Definition label_ok (lb : label) : bool :=
  match lb with
  | LbCallE _ (CRaise e) => exn_ok e
  | _ => true
  end.

(* the step a thread of the library can take next, given how the adapter behaves (it returns):
   for every dequeuer job not yet finished, for the reader between its two regions, for every
   listener call in progress *)
Definition next_label (s : istate) : option label :=
  match s_pending s with
  | Some _ => Some LbR2
  | None =>
      let fix go (j : nat) (l : list dq) : option label :=
          match l with
          | [] => None
          | d :: r =>
              match d_pc d with
              | PDone => go (S j) r
              | PQueued => Some (LbJobStart j)
              | PTop => Some (LbLockI j)
              | PSetCode _ | PEosRead _ | PNestRead _ _ _ | PClear | PDec => Some (LbLockM j)
              | PLate _ | PEosPut _ _ | PNestPut _ _ _ _ | PReply _ _ | PUsbLate _ => Some (LbPut j)
              | PSnapB _ | PSubB _ | PUsbB _ => Some (LbCallB j)
              | PSnapE _ | PInSub _ | PInUsb _ => Some (LbCallE j (CRet false))
              end
          end in
      go 0 (s_dqs s)
  end.
