(* Model/Codec.v — protocol.py token codec: encode_string / decode_string,
   encode_boolean / integer / double / modes / byte, decode_modes,
   decode_mobile_platform_type (protocol.py:179-284). *)
From Coq Require Import List Ascii String NArith ZArith Bool.
From LS Require Import Model.Bytes Model.Tags Gen.Consts Model.Quote Model.Base64 Model.Utf8.
Import ListNotations.

(* Python values that adapters hand to the writers.  A str is carried as its
   UTF-8 bytes (strings with lone surrogates are outside every property's
   domain); a float is carried as its repr() text. *)
Inductive pyval :=
| PNone
| PStr (s : bytes)
| PBytes (b : bytes)
| PBool (b : bool)
| PInt (z : Z)
| PFloat (repr : bytes)
| PMode (m : mode)
| PList (l : list pyval)
| PDict (d : list (pyval * pyval))
| POther (truthy : bool).     (* any other object; not iterable *)

(* errors raised by writers: the library's RemotingException, or some other
   exception type escaping (TypeError, AttributeError, ...) *)
Inductive werr := WRemoting | WOther | WUnmodelled.
(* WUnmodelled: an input on which the model declines to predict (the harness skips
   and counts such cases); never produced on inputs in a property's domain *)

Inductive wres (A : Type) := WOk (a : A) | WErr (e : werr).
Arguments WOk {A} a.
Arguments WErr {A} e.

Definition wbind {A B} (r : wres A) (f : A -> wres B) : wres B :=
  match r with WOk a => f a | WErr e => WErr e end.

(* bool(v) *)
Definition truthy (v : pyval) : bool :=
  match v with
  | PNone => false
  | PStr s => negb (is_nil s)
  | PBytes b => negb (is_nil b)
  | PBool b => b
  | PInt z => negb (Z.eqb z 0)
  | PFloat r => negb (bytes_eqb r (bs "0.0") || bytes_eqb r (bs "-0.0"))
  | PMode _ => true
  | PList l => negb (is_nil l)
  | PDict d => negb (is_nil d)
  | POther t => t
  end.

(* encode_string (protocol.py:195-212), as repaired for finding F3: emptiness is
   tested for str / bytes only; any other type reaches quote_plus, whose
   TypeError becomes a RemotingException *)
Definition encode_string (v : pyval) : wres bytes :=
  match v with
  | PNone => WOk null_value
  | PStr s => if is_nil s then WOk empty_value else WOk (quote_plus s)
  | PBytes b => if is_nil b then WOk empty_value else WOk (quote_plus b)
  | _ => WErr WRemoting
  end.

(* the code before the repair: `if not string: return EMPTY_VALUE` came first *)
Definition encode_string_legacy (v : pyval) : wres bytes :=
  match v with
  | PNone => WOk null_value
  | _ => if truthy v then encode_string v else WOk empty_value
  end.

(* text values: None or a str given by its UTF-8 bytes *)
Definition text := option bytes.
Definition py_of_text (t : text) : pyval :=
  match t with None => PNone | Some s => PStr s end.

Definition encode_text (t : text) : bytes :=
  match t with
  | None => null_value
  | Some s => if is_nil s then empty_value else quote_plus s
  end.

(* decode_string (protocol.py:179-192); the result is the UTF-8 byte string of
   the Python str (exact whenever the unquoted bytes are valid UTF-8) *)
Definition decode_string (t : bytes) : text :=
  if bytes_eqb t null_value then None
  else if bytes_eqb t empty_value then Some []
  else Some (unquote_plus t).

(* the same codec over Unicode scalar values (what a Python str is) *)
Definition encode_utext (t : option (list scalar)) : bytes :=
  encode_text (match t with None => None | Some s => Some (utf8_enc s) end).

Definition decode_utext (t : bytes) : option (option (list scalar)) :=
  match decode_string t with
  | None => Some None
  | Some b => match utf8_dec b with Some s => Some (Some s) | None => None end
  end.

Definition encode_boolean (v : pyval) : wres bytes :=
  match v with
  | PBool b => WOk (if b then bs "1" else bs "0")
  | _ => WErr WRemoting
  end.

Definition encode_integer (v : pyval) : wres bytes :=
  match v with
  | PInt z => WOk (Z_to_dec z)
  | _ => WErr WRemoting
  end.

Definition encode_double (v : pyval) : wres bytes :=
  match v with
  | PFloat r => WOk r
  | _ => WErr WRemoting
  end.

Fixpoint mode_values (l : list pyval) : wres bytes :=
  match l with
  | [] => WOk []
  | PMode m :: r => wbind (mode_values r) (fun s => WOk (mode_value m ++ s))
  | _ :: _ => WErr WOther           (* AttributeError: no .value *)
  end.

Definition encode_modes (v : pyval) : wres bytes :=
  match v with
  | PNone => WOk null_value
  | PList l => if is_nil l then WOk empty_value else mode_values l
  | _ => if truthy v then WErr WOther (* TypeError / AttributeError *) else WOk empty_value
  end.

Definition encode_byte (v : pyval) : wres bytes :=
  match v with
  | PBytes b => WOk (b64_enc b)
  | _ => WErr WRemoting
  end.

(* decode_modes (protocol.py): '#' and '$' give None, otherwise the token must be
   exactly the code of one mode *)
Definition mode_of_char (c : ascii) : option mode :=
  find (fun m => bytes_eqb (mode_value m) [c]) all_modes.

Definition mode_of_token (t : bytes) : option mode :=
  find (fun m => bytes_eqb (mode_value m) t) all_modes.

Inductive dres (A : Type) := DOk (a : A) | DErr (msg : bytes).
Arguments DOk {A} a.
Arguments DErr {A} msg.

Definition decode_modes (t : bytes) : dres (option mode) :=
  if bytes_eqb t null_value || bytes_eqb t empty_value then DOk None
  else match mode_of_token t with
       | Some m => DOk (Some m)
       | None => DErr (bs "Unknown mode '" ++ t ++ bs "' found")
       end.

(* decode_mobile_platform_type (protocol.py:274-284) *)
Inductive platres := PlNone | PlEmpty | PlMember (p : platform).

Definition decode_platform (t : bytes) : dres platres :=
  if bytes_eqb t null_value then DOk PlNone
  else if bytes_eqb t empty_value then DOk PlEmpty
  else match find (fun p => bytes_eqb (platform_value p) t) all_platforms with
       | Some p => DOk (PlMember p)
       | None => DErr (bs "Unknown platform type '" ++ t ++ bs "'")
       end.
