(* Model/EntryWire.v — S-expression glue for Codec / Readers / AriSpec. *)
From Coq Require Import String List Ascii NArith ZArith Bool.
From LS Require Import Model.Bytes Model.Sx Model.Tags Gen.Consts Model.Quote Model.Utf8
  Model.Codec Model.Readers Model.AriSpec.
Import ListNotations.

Definition sx_text (t : text) : sx := sx_obytes t.
Definition un_text : sx -> option text := un_obytes.

Definition sx_mode (m : mode) : sx := sym (mode_ident m).
Definition un_mode (x : sx) : option mode :=
  find (fun m => is_sym (mode_ident m) x) all_modes.
Definition sx_meth (m : meth) : sx := sym (meth_ident m).
Definition un_meth (x : sx) : option meth :=
  find (fun m => is_sym (meth_ident m) x) all_meths.

Definition sx_plat (p : platres) : sx :=
  match p with
  | PlNone => sym "none" | PlEmpty => sym "empty"
  | PlMember q => app_ "member" [sym (platform_ident q)]
  end.
Definition un_plat (x : sx) : option platres :=
  if is_sym "none" x then Some PlNone
  else if is_sym "empty" x then Some PlEmpty
  else match x with
       | SL [h; v] => if is_sym "member" h then
                        match find (fun p => is_sym (platform_ident p) v) all_platforms with
                        | Some p => Some (PlMember p) | None => None end
                      else None
       | _ => None
       end.

Definition sx_pair (kv : text * text) : sx := SL [sx_text (fst kv); sx_text (snd kv)].
Definition un_pair (x : sx) : option (text * text) :=
  match x with
  | SL [k; v] => match un_text k, un_text v with
                 | Some k', Some v' => Some (k', v') | _, _ => None end
  | _ => None
  end.
Definition sx_dict (d : dict text) : sx := sx_list sx_pair d.
Definition un_pairs : sx -> option (list (text * text)) := un_listof un_pair.

Definition sx_table (t : table) : sx :=
  app_ "table" [sx_Z (t_win t); sx_opt sx_mode (t_mode t); sx_text (t_group t);
                sx_text (t_schema t); sx_Z (t_min t); sx_Z (t_max t); sx_text (t_selector t)].
Definition un_table (x : sx) : option table :=
  match x with
  | SL [h; w; m; g; s; mi; ma; sel] =>
      if is_sym "table" h then
        match un_Z w, un_opt un_mode m, un_text g, un_text s, un_Z mi, un_Z ma, un_text sel with
        | Some w', Some m', Some g', Some s', Some mi', Some ma', Some sel' =>
            Some {| t_win := w'; t_mode := m'; t_group := g'; t_schema := s';
                    t_min := mi'; t_max := ma'; t_selector := sel' |}
        | _, _, _, _, _, _, _ => None
        end
      else None
  | _ => None
  end.

Definition sx_device (d : device) : sx :=
  app_ "device" [sx_plat (d_platform d); sx_text (d_app d); sx_text (d_token d)].
Definition un_device (x : sx) : option device :=
  match x with
  | SL [h; p; a; t] =>
      if is_sym "device" h then
        match un_plat p, un_text a, un_text t with
        | Some p', Some a', Some t' => Some {| d_platform := p'; d_app := a'; d_token := t' |}
        | _, _, _ => None
        end
      else None
  | _ => None
  end.

Definition sx_subinfo (s : mpnsub) : sx :=
  app_ "mpnsub" [sx_device (s_device s); sx_text (s_trigger s); sx_text (s_format s)].
Definition un_subinfo (x : sx) : option mpnsub :=
  match x with
  | SL [h; d; t; f] =>
      if is_sym "mpnsub" h then
        match un_device d, un_text t, un_text f with
        | Some d', Some t', Some f' => Some {| s_device := d'; s_trigger := t'; s_format := f' |}
        | _, _, _ => None
        end
      else None
  | _ => None
  end.

Definition sx_request (q : request) : sx :=
  match q with
  | QInit p => app_ "QInit" [sx_dict p]
  | QItem i => app_ "QItem" [sx_text i]
  | QNUS u p h => app_ "QNUS" [sx_text u; sx_text p; sx_dict h]
  | QNUA u p c h => app_ "QNUA" [sx_text u; sx_text p; sx_text c; sx_dict h]
  | QNNS u s c => app_ "QNNS" [sx_text u; sx_text s; sx_dict c]
  | QNSC s => app_ "QNSC" [sx_text s]
  | QGIS u g s => app_ "QGIS" [sx_text u; sx_text g; sx_text s]
  | QGSC u g sc s => app_ "QGSC" [sx_text u; sx_text g; sx_text sc; sx_text s]
  | QGIT l => app_ "QGIT" [sx_list sx_text l]
  | QGUI u l => app_ "QGUI" [sx_text u; sx_list sx_text l]
  | QNUM u s m => app_ "QNUM" [sx_text u; sx_text s; sx_text m]
  | QNNT u s t => app_ "QNNT" [sx_text u; sx_text s; sx_list sx_table t]
  | QNTC s t => app_ "QNTC" [sx_text s; sx_list sx_table t]
  | QMDA u s d => app_ "QMDA" [sx_text u; sx_text s; sx_device d]
  | QMSA u s t si => app_ "QMSA" [sx_text u; sx_text s; sx_table t; sx_subinfo si]
  | QMDC u s d nt => app_ "QMDC" [sx_text u; sx_text s; sx_device d; sx_text nt]
  end.

Definition un_wire (x : sx) : option wire_request :=
  match un_app x with
  | None => None
  | Some (h, args) =>
      match args with
      | [a] =>
          if head_is "WInit" h then option_map WInit (un_pairs a)
          else if head_is "WItem" h then option_map WItem (un_text a)
          else if head_is "WNSC" h then option_map WNSC (un_text a)
          else if head_is "WGIT" h then option_map WGIT (un_listof un_text a)
          else None
      | [a; b] =>
          if head_is "WGUI" h then
            match un_text a, un_listof un_text b with
            | Some a', Some b' => Some (WGUI a' b') | _, _ => None end
          else if head_is "WNTC" h then
            match un_text a, un_listof un_table b with
            | Some a', Some b' => Some (WNTC a' b') | _, _ => None end
          else None
      | [a; b; c] =>
          if head_is "WNUS" h then
            match un_text a, un_text b, un_pairs c with
            | Some a', Some b', Some c' => Some (WNUS a' b' c') | _, _, _ => None end
          else if head_is "WNNS" h then
            match un_text a, un_text b, un_pairs c with
            | Some a', Some b', Some c' => Some (WNNS a' b' c') | _, _, _ => None end
          else if head_is "WGIS" h then
            match un_text a, un_text b, un_text c with
            | Some a', Some b', Some c' => Some (WGIS a' b' c') | _, _, _ => None end
          else if head_is "WNUM" h then
            match un_text a, un_text b, un_text c with
            | Some a', Some b', Some c' => Some (WNUM a' b' c') | _, _, _ => None end
          else if head_is "WNNT" h then
            match un_text a, un_text b, un_listof un_table c with
            | Some a', Some b', Some c' => Some (WNNT a' b' c') | _, _, _ => None end
          else if head_is "WMDA" h then
            match un_text a, un_text b, un_device c with
            | Some a', Some b', Some c' => Some (WMDA a' b' c') | _, _, _ => None end
          else None
      | [a; b; c; d] =>
          if head_is "WNUA" h then
            match un_text a, un_text b, un_text c, un_pairs d with
            | Some a', Some b', Some c', Some d' => Some (WNUA a' b' c' d') | _, _, _, _ => None end
          else if head_is "WGSC" h then
            match un_text a, un_text b, un_text c, un_text d with
            | Some a', Some b', Some c', Some d' => Some (WGSC a' b' c' d') | _, _, _, _ => None end
          else if head_is "WMSA" h then
            match un_text a, un_text b, un_table c, un_subinfo d with
            | Some a', Some b', Some c', Some d' => Some (WMSA a' b' c' d') | _, _, _, _ => None end
          else if head_is "WMDC" h then
            match un_text a, un_text b, un_device c, un_text d with
            | Some a', Some b', Some c', Some d' => Some (WMDC a' b' c' d') | _, _, _, _ => None end
          else None
      | _ => None
      end
  end.

Definition sx_pres {A} (f : A -> sx) (r : pres A) : sx :=
  match r with POk a => app_ "ok" [f a] | PErr m => app_ "err" [SA m] end.

Definition sx_rres {A} (f : A -> sx) (r : rres A) : sx :=
  match r with
  | ROk a => app_ "ok" [f a]
  | RErr (RawRemoting m) => app_ "remoting" [SA m]
  | RErr RawOther => sym "other"
  end.

Definition sx_line_res (r : line_res) : sx :=
  match r with
  | LNone => sym "none"
  | LUnknown id name => app_ "unknown" [SA id; SA name]
  | LReq id m pr => app_ "req" [SA id; sx_meth m; sx_pres sx_request pr]
  end.

(* (decode_line <bytes>) *)
Definition e_decode_line (args : list sx) : sx :=
  match args with
  | [SA l] => sx_line_res (decode_line l)
  | _ => sx_err "decode_line: bad args"
  end.

(* (parse_request <bytes>) -> none | (some id method (data...)) *)
Definition e_parse_request (args : list sx) : sx :=
  match args with
  | [SA l] => match parse_request l with
              | None => sym "none"
              | Some p => app_ "some" [SA (p_id p); SA (p_method p); sx_list sx_bytes (p_data p)]
              end
  | _ => sx_err "parse_request: bad args"
  end.

(* (read_request METH (<tok> ...)) *)
Definition e_read_request (args : list sx) : sx :=
  match args with
  | [m; toks] =>
      match un_meth m, un_listof un_atom toks with
      | Some m', Some ts => sx_pres sx_request (read_request m' ts)
      | _, _ => sx_err "read_request: bad args"
      end
  | _ => sx_err "read_request: arity"
  end.

(* (read_close (<tok> ...)) *)
Definition e_read_close (args : list sx) : sx :=
  match args with
  | [toks] => match un_listof un_atom toks with
              | Some ts => sx_rres sx_dict (read_close ts)
              | None => sx_err "read_close: bad args"
              end
  | _ => sx_err "read_close: arity"
  end.

(* (encode_line <id> METH <wire> <term>) -> (<line> <expected request>) *)
Definition e_encode_line (args : list sx) : sx :=
  match args with
  | [SA id; m; w; SA term] =>
      match un_meth m, un_wire w with
      | Some m', Some w' => SL [SA (encode_line id m' w' term); sx_request (expected w');
                                sx_bool (shape_ok m' w')]
      | _, _ => sx_err "encode_line: bad args"
      end
  | _ => sx_err "encode_line: arity"
  end.

(* (encode_text <text>) / (decode_string <bytes>) / (decode_utext <bytes>) *)
Definition e_encode_text (args : list sx) : sx :=
  match args with
  | [t] => match un_text t with Some t' => SA (encode_text t') | None => sx_err "encode_text: bad" end
  | _ => sx_err "encode_text: arity"
  end.
Definition e_decode_string (args : list sx) : sx :=
  match args with
  | [SA t] => sx_text (decode_string t)
  | _ => sx_err "decode_string: bad args"
  end.

(* (encode_utext none | (some (<scalar> ...))) -> token ;  (decode_utext <bytes>) ->
   raises | (ok none) | (ok (some (<scalar> ...))) *)
Definition e_encode_utext (args : list sx) : sx :=
  match args with
  | [t] => match un_opt (un_listof un_N) t with
           | Some t' => SA (encode_utext t')
           | None => sx_err "encode_utext: bad" end
  | _ => sx_err "encode_utext: arity"
  end.
Definition e_decode_utext (args : list sx) : sx :=
  match args with
  | [SA t] => match decode_utext t with
              | None => sym "invalid-utf8"
              | Some r => app_ "ok" [sx_opt (sx_list sx_N) r]
              end
  | _ => sx_err "decode_utext: bad args"
  end.
