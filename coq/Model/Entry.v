(* Model/Entry.v — the single entry point of the extracted model:
   entry : sx -> sx.  One clause per model function exercised by the
   correspondence harness.  Glue only; no property is stated about it. *)
From Coq Require Import List Ascii String NArith ZArith QArith Bool.
From LS Require Import Model.Bytes Model.Sx Model.Tags Gen.Consts
  Model.Quote Model.Framing Model.Keepalive Model.Codec Model.Readers Model.AriSpec
  Model.EntryWire Model.EntryReply Model.EntryItem Model.EntrySender Model.EntryShell
  Model.EntryHandlers.
Import ListNotations.

Definition un_Q (x : sx) : option Q :=
  match x with
  | SL [h; n; d] =>
      if is_sym "q" h then
        match un_Z n, un_Z d with
        | Some n', Some (Zpos d') => Some (n' # d')
        | _, _ => None
        end
      else None
  | _ => None
  end.

Definition sx_Q (q : Q) : sx := app_ "q" [sx_Z (Qnum q); sx_Z (Zpos (Qden q))].

Definition sx_branch (b : ka_branch) : sx :=
  sym match b with
      | KbNoHintDefault => "NoHintDefault" | KbNoHintConfigured => "NoHintConfigured"
      | KbNonPositive => "NonPositive"
      | KbDefAdopt => "DefAdopt" | KbDefFloor => "DefFloor" | KbDefKeep => "DefKeep"
      | KbCfgAdopt => "CfgAdopt" | KbCfgFloor => "CfgFloor" | KbCfgKeep => "CfgKeep"
      | KbOffAdopt => "OffAdopt" | KbOffFloor => "OffFloor"
      end.

(* (ka_after <opt q> <opt q>) -> (<q seconds> <branch> <opt q change-arg ms>) *)
Definition e_ka_after (args : list sx) : sx :=
  match args with
  | [c; h] =>
      match un_opt un_Q c, un_opt un_Q h with
      | Some c', Some h' =>
          SL [sx_Q (ka_after c' h'); sx_branch (ka_branch_of c' h');
              sx_opt sx_Q (ka_change c' h')]
      | _, _ => sx_err "ka_after: bad args"
      end
  | _ => sx_err "ka_after: arity"
  end.

(* (quote_plus <bytes>) / (unquote_plus <bytes>) *)
Definition e_bytes_fn (f : bytes -> bytes) (args : list sx) : sx :=
  match args with
  | [SA b] => SA (f b)
  | _ => sx_err "bytes fn: bad args"
  end.

(* (feed_all <buffer> (<chunk> ...)) -> none | (some (<line> ...) <buffer>) *)
Definition e_feed_all (args : list sx) : sx :=
  match args with
  | [SA buf; chunks] =>
      match un_listof un_atom chunks with
      | Some chs =>
          sx_opt (fun r => SL [sx_list sx_bytes (fst r); SA (snd r)]) (feed_all buf chs)
      | None => sx_err "feed_all: bad chunks"
      end
  | _ => sx_err "feed_all: arity"
  end.

(* (feed_trace <buffer> (<chunk> ...)) -> ((<lines of chunk 1>) ... ) <final buffer> | decode-error *)
Fixpoint feed_trace (buf : bytes) (chunks : list bytes) (acc : list sx) : sx :=
  match chunks with
  | [] => SL [SL (rev acc); SA buf]
  | ch :: rest =>
      match feed buf ch with
      | None => SL [SL (rev (sym "decode-error" :: acc)); SA buf]
      | Some (ls, buf') => feed_trace buf' rest (sx_list sx_bytes ls :: acc)
      end
  end.

Definition e_feed_trace (args : list sx) : sx :=
  match args with
  | [SA buf; chunks] =>
      match un_listof un_atom chunks with
      | Some chs => feed_trace buf chs []
      | None => sx_err "feed_trace: bad chunks"
      end
  | _ => sx_err "feed_trace: arity"
  end.

Definition entry (x : sx) : sx :=
  match un_app x with
  | None => sx_err "not an application"
  | Some (h, args) =>
      if head_is "ka_after" h then e_ka_after args
      else if head_is "quote_plus" h then e_bytes_fn quote_plus args
      else if head_is "unquote_plus" h then e_bytes_fn unquote_plus args
      else if head_is "feed_all" h then e_feed_all args
      else if head_is "feed_trace" h then e_feed_trace args
      else if head_is "decode_line" h then e_decode_line args
      else if head_is "parse_request" h then e_parse_request args
      else if head_is "read_request" h then e_read_request args
      else if head_is "read_close" h then e_read_close args
      else if head_is "encode_line" h then e_encode_line args
      else if head_is "encode_text" h then e_encode_text args
      else if head_is "decode_string" h then e_decode_string args
      else if head_is "encode_utext" h then e_encode_utext args
      else if head_is "decode_utext" h then e_decode_utext args
      else if head_is "item_run" h then e_item_run args
      else if head_is "sender_run" h then e_sender_run args
      else if head_is "sender_fault_run" h then e_sender_fault_run args
      else if head_is "outbound_run" h then e_outbound_run args
      else if head_is "shell_run" h then e_shell_run args
      else if head_is "pool_size" h then e_pool_size args
      else match entry_reply h args with
           | Some r => r
           | None => match entry_handlers h args with
                     | Some r => r
                     | None => sx_err "unknown function"
                     end
           end
  end.
