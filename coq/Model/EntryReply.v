(* Model/EntryReply.v — S-expression glue for Writers / AriReply / Init. *)
From Coq Require Import String List Ascii NArith ZArith QArith Bool.
From LS Require Import Model.Bytes Model.Sx Model.Tags Gen.Consts Model.Quote Model.Base64
  Model.Codec Model.Readers Model.Writers Model.AriReply Model.Keepalive Model.Init Model.EntryWire.
Import ListNotations.

(* pyval:  none | (str b) | (bytes b) | (bool T) | (int z) | (float repr) | (mode NAME)
           | (list v...) | (dict (k v)...) | (other T) *)
Fixpoint un_pyval_fuel (fuel : nat) (x : sx) : option pyval :=
  match fuel with
  | O => None
  | S f =>
      if is_sym "none" x then Some PNone
      else match x with
           | SL (SA h :: args) =>
               if head_is "str" h then
                 match args with [SA b] => Some (PStr b) | _ => None end
               else if head_is "bytes" h then
                 match args with [SA b] => Some (PBytes b) | _ => None end
               else if head_is "bool" h then
                 match args with [b] => option_map PBool (un_bool b) | _ => None end
               else if head_is "int" h then
                 match args with [z] => option_map PInt (un_Z z) | _ => None end
               else if head_is "float" h then
                 match args with [SA r] => Some (PFloat r) | _ => None end
               else if head_is "mode" h then
                 match args with [m] => option_map PMode (un_mode m) | _ => None end
               else if head_is "other" h then
                 match args with [b] => option_map POther (un_bool b) | _ => None end
               else if head_is "list" h then
                 option_map PList (opt_all (map (un_pyval_fuel f) args))
               else if head_is "dict" h then
                 option_map PDict
                   (opt_all (map (fun kv => match kv with
                                            | SL [k; v] =>
                                                match un_pyval_fuel f k, un_pyval_fuel f v with
                                                | Some k', Some v' => Some (k', v')
                                                | _, _ => None
                                                end
                                            | _ => None
                                            end) args))
               else None
           | _ => None
           end
  end.
Definition un_pyval : sx -> option pyval := un_pyval_fuel 12.

Definition sx_wres (r : wres bytes) : sx :=
  match r with
  | WOk b => app_ "ok" [SA b]
  | WErr WRemoting => app_ "err" [sym "remoting"]
  | WErr WOther => app_ "err" [sym "other"]
  | WErr WUnmodelled => app_ "err" [sym "unmodelled"]
  end.

Definition un_lib_class (x : sx) : option lib_class :=
  find (fun c => is_sym (lib_class_name c) x) all_lib_classes.

(* exn: (exn <class> <str> <code> <usermsg pyval> <session pyval>)
   class: (lib NAME) | (usersub NAME) | foreign *)
Definition un_exn_class (x : sx) : option exn_class :=
  if is_sym "foreign" x then Some EForeign
  else match x with
       | SL [h; c] =>
           if is_sym "lib" h then option_map ELib (un_lib_class c)
           else if is_sym "usersub" h then option_map EUserSub (un_lib_class c)
           else None
       | _ => None
       end.

Definition un_exn (x : sx) : option exn :=
  match x with
  | SL [h; c; SA s; code; um; sid] =>
      if is_sym "exn" h then
        match un_exn_class c, un_Z code, un_pyval um, un_pyval sid with
        | Some c', Some code', Some um', Some sid' =>
            Some {| e_class := c'; e_str := s; e_code := code'; e_user_msg := um'; e_session := sid' |}
        | _, _, _, _ => None
        end
      else None
  | _ => None
  end.

Definition e_write_list (args : list sx) : sx :=
  match args with
  | [m; v] => match un_meth m, un_pyval v with
              | Some m', Some v' => sx_wres (write_list_reply m' v')
              | _, _ => sx_err "write_list: bad args" end
  | _ => sx_err "write_list: arity"
  end.

Definition un_triple (x : sx) : option (pyval * pyval * pyval) :=
  match x with
  | SL [a; b; c] => match un_pyval a, un_pyval b, un_pyval c with
                    | Some a', Some b', Some c' => Some (a', b', c') | _, _, _ => None end
  | _ => None
  end.

Definition e_write_item_data (args : list sx) : sx :=
  match args with
  | [m; l] => match un_meth m, un_listof un_triple l with
              | Some m', Some l' => sx_wres (write_item_data_reply m' l')
              | _, _ => sx_err "write_item_data: bad args" end
  | _ => sx_err "write_item_data: arity"
  end.

Definition e_write_notify_user (args : list sx) : sx :=
  match args with
  | [m; a; b] => match un_meth m, un_pyval a, un_pyval b with
                 | Some m', Some a', Some b' => sx_wres (write_notify_user m' a' b')
                 | _, _, _ => sx_err "write_notify_user: bad args" end
  | _ => sx_err "write_notify_user: arity"
  end.

Definition e_write_update (args : list sx) : sx :=
  match args with
  | [a; b; c; d] => match un_pyval a, un_pyval b, un_pyval c, un_pyval d with
                    | Some a', Some b', Some c', Some d' => sx_wres (write_update_map a' b' c' d')
                    | _, _, _, _ => sx_err "write_update: bad args" end
  | _ => sx_err "write_update: arity"
  end.

Definition e_write_item_notify (args : list sx) : sx :=
  match args with
  | [m; a; b] => match un_meth m, un_pyval a, un_pyval b with
                 | Some m', Some a', Some b' => sx_wres (write_item_notify m' a' b')
                 | _, _, _ => sx_err "write_item_notify: bad args" end
  | _ => sx_err "write_item_notify: arity"
  end.

Definition e_write_failure (args : list sx) : sx :=
  match args with
  | [SA msg] => sx_wres (write_failure msg)
  | _ => sx_err "write_failure: bad args"
  end.

Definition e_write_credentials (args : list sx) : sx :=
  match args with
  | [a; b] => match un_pyval a, un_pyval b with
              | Some a', Some b' => sx_wres (write_credentials a' b')
              | _, _ => sx_err "write_credentials: bad args" end
  | _ => sx_err "write_credentials: arity"
  end.

Definition e_error_reply (args : list sx) : sx :=
  match args with
  | [m; e] => match un_meth m, un_exn e with
              | Some m', Some e' => sx_wres (error_reply m' e')
              | _, _ => sx_err "error_reply: bad args" end
  | _ => sx_err "error_reply: arity"
  end.

Definition e_void_reply (args : list sx) : sx :=
  match args with
  | [m] => match un_meth m with Some m' => SA (void_reply m') | None => sx_err "void_reply: bad" end
  | _ => sx_err "void_reply: arity"
  end.

(* ---------- spec decoders (cross-checked against the harness's Python ARI decoder) ---------- *)
Definition sx_modes (o : option (list mode)) : sx := sx_opt (sx_list sx_mode) o.
Definition sx_uval (u : uval) : sx :=
  match u with UText t => app_ "text" [sx_text t] | UBytes b => app_ "bytes" [SA b] end.

Definition e_decode_reply (args : list sx) : sx :=
  match args with
  | [k; SA line] =>
      if is_sym "strings" k then
        sx_opt (fun r => SL [SA (fst r); sx_list sx_text (snd r)]) (decode_strings line)
      else if is_sym "item_data" k then
        sx_opt (fun r => SL [SA (fst r);
                             sx_list (fun t => SL [sx_Z (fst (fst t)); SA (snd (fst t)); sx_modes (snd t)]) (snd r)])
               (decode_item_data line)
      else if is_sym "notify_user" k then
        sx_opt (fun r => SL [SA (fst (fst r)); SA (snd (fst r)); sx_bool (snd r)]) (decode_notify_user line)
      else if is_sym "void" k then sx_opt SA (decode_void line)
      else if is_sym "params" k then
        sx_opt (fun r => SL [SA (fst r); sx_list (fun kv => SL [SA (fst kv); sx_text (snd kv)]) (snd r)])
               (decode_params line)
      else if is_sym "update" k then
        sx_opt (fun r => match r with
                         | (item, rid, sn, fs) =>
                             SL [sx_text item; sx_text rid; sx_bool sn;
                                 sx_list (fun fv => SL [sx_text (fst fv); sx_uval (snd fv)]) fs]
                         end) (decode_update line)
      else if is_sym "item_notify" k then
        sx_opt (fun r => SL [SA (fst (fst r)); sx_text (snd (fst r)); sx_text (snd r)]) (decode_item_notify line)
      else if is_sym "failure" k then sx_opt sx_text (decode_failure line)
      else if is_sym "error" k then
        sx_opt (fun r => SL [SA (er_method r); sx_opt (fun c => SA [c]) (er_subtype r); sx_text (er_msg r);
                             sx_opt sx_Z (er_code r); sx_opt sx_text (er_user_msg r);
                             sx_opt sx_text (er_session r)]) (decode_error line)
      else sx_err "decode_reply: unknown kind"
  | _ => sx_err "decode_reply: bad args"
  end.

(* ---------- spec tables ---------- *)
Definition e_spec_designated (args : list sx) : sx :=
  match args with
  | [m; c] => match un_meth m, un_lib_class c with
              | Some m', Some c' => SL [sx_bool (spec_designated m' c'); SA [spec_letter c'];
                                        sx_bool (spec_pair_in_scope m' c')]
              | _, _ => sx_err "spec_designated: bad args" end
  | _ => sx_err "spec_designated: arity"
  end.

Definition un_kind (x : sx) : option server_kind :=
  if is_sym "meta" x then Some KMeta else if is_sym "data" x then Some KData else None.

Definition sx_verdict (v : version_verdict) : sx :=
  match v with VRefuse => sym "refuse" | VBare => sym "bare" | VAnswer a => app_ "answer" [SA a] end.

Definition e_spec_version (args : list sx) : sx :=
  match args with
  | [k; v; ok] => match un_kind k, un_opt un_atom v, un_bool ok with
              | Some k', Some v', Some ok' => SL [sx_verdict (spec_version k' v'); sx_bool (spec_close_honoured k' v' ok')]
              | _, _, _ => sx_err "spec_version: bad args" end
  | _ => sx_err "spec_version: arity"
  end.

(* ---------- init ---------- *)
Definition sx_hint (h : hint) : sx :=
  match h with
  | HAbsent => sym "absent"
  | HValue q => app_ "value" [sx_Z (Qnum q); sx_Z (Zpos (Qden q))]
  | HMalformed => sym "malformed"
  | HUnmodelled => sym "unmodelled"
  end.

Definition un_outcome (x : sx) : option init_outcome :=
  if is_sym "ret" x then Some IRet
  else match x with
       | SL [h; e] => if is_sym "raise" h then option_map IRaise (un_exn e) else None
       | _ => None
       end.

(* (on_init KIND <opt pairs local> <pairs proxy> <bool close_before> <outcome>)
   -> (<opt dict initialize params> <bool listener> <wres reply> <bool close_expected> <hint>) *)
Definition e_on_init (args : list sx) : sx :=
  match args with
  | [k; l; p; cb; o] =>
      match un_kind k, un_opt un_pairs l, un_pairs p, un_bool cb, un_outcome o with
      | Some k', Some l', Some p', Some cb', Some o' =>
          let r := on_init k' (option_map (@dict_of_pairs text) l') (dict_of_pairs p') cb' o' in
          SL [sx_opt sx_dict (ir_initialize r); sx_bool (ir_listener r); sx_wres (ir_reply r);
              sx_bool (ir_close_expected r); sx_hint (ir_hint r)]
      | _, _, _, _, _ => sx_err "on_init: bad args"
      end
  | _ => sx_err "on_init: arity"
  end.

Definition entry_reply (h : bytes) (args : list sx) : option sx :=
  if head_is "write_list" h then Some (e_write_list args)
  else if head_is "write_item_data" h then Some (e_write_item_data args)
  else if head_is "write_notify_user" h then Some (e_write_notify_user args)
  else if head_is "write_update" h then Some (e_write_update args)
  else if head_is "write_item_notify" h then Some (e_write_item_notify args)
  else if head_is "write_failure" h then Some (e_write_failure args)
  else if head_is "write_credentials" h then Some (e_write_credentials args)
  else if head_is "error_reply" h then Some (e_error_reply args)
  else if head_is "void_reply" h then Some (e_void_reply args)
  else if head_is "decode_reply" h then Some (e_decode_reply args)
  else if head_is "spec_designated" h then Some (e_spec_designated args)
  else if head_is "spec_version" h then Some (e_spec_version args)
  else if head_is "on_init" h then Some (e_on_init args)
  else None.
