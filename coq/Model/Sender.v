(* Model/Sender.v — the writer loop _Sender._do_run (server.py:126-163), with
   send / change_keep_alive / quit, as a timed transition system in virtual
   time.  The loop body:

       if self._keepalive > 0:
           try:    to_send = queue.get(timeout=self._keepalive)
           except queue.Empty: to_send = "KEEPALIVE"
       else:       to_send = queue.get()
       if to_send == STOP_PILL: break
       if to_send is None or to_send == KEEPALIVE_PILL: to_send = "KEEPALIVE"
       sock.sendall(bytes(to_send + "\r\n", "utf-8"))

   Writes take no time (virtual time), so the queue is empty whenever the writer
   waits; the state is the current keepalive setting, the timeout the wait in
   progress was started with (None = blocking get) and the time elapsed since that
   wait began.  Labels:
     SDelay d   time passes by d >= 0; a wait with timeout T cannot outlast T
                (queue.get(timeout=T) raises Empty after exactly T of silence)
     SFire      the timeout expires: KEEPALIVE is written, a new wait begins
     SPut m     some thread enqueues m (None = the None item); the writer takes it at once
     SSetK k    change_keep_alive(k): only stores the value
   A put arriving exactly when the timeout expires may be taken either way.
   Rationals are kept reduced (Qred) so that the executable model stays fast. *)
From Coq Require Import String List Ascii NArith ZArith QArith Bool.
From LS Require Import Model.Bytes Model.Tags Gen.Consts.
Import ListNotations.

Inductive slabel :=
| SDelay (d : Q)
| SFire
| SPut (p : nat) (m : option bytes)   (* thread p enqueues m *)
| SSetK (k : Q).

Inductive wkind := WMsg | WPill | WTimeout.

(* one write on the socket: when, why, the line (without CRLF), and the timeout the
   wait that begins right after it was started with *)
Record wrec := { w_time : Q; w_kind : wkind; w_from : nat; w_line : bytes; w_next : option Q }.

Record sst := {
  ss_k : Q;                  (* self._keepalive *)
  ss_tmo : option Q;         (* timeout of the wait in progress *)
  ss_elapsed : Q;            (* time since that wait began = time since the last write (or the start) *)
  ss_now : Q;
  ss_alive : bool;           (* false after the stop pill *)
  ss_out : list wrec         (* ghost: writes so far, oldest first *)
}.

Definition Qpos (q : Q) : bool := negb (Qle_bool q 0).

Definition wait_of (k : Q) : option Q := if Qpos k then Some k else None.

Definition sender_init (k : Q) : sst :=
  {| ss_k := k; ss_tmo := wait_of k; ss_elapsed := 0; ss_now := 0; ss_alive := true; ss_out := [] |}.

Definition keepalive_line : bytes := meth_name MKEEPALIVE.

Definition write (s : sst) (kind : wkind) (from : nat) (line : bytes) : sst :=
  {| ss_k := ss_k s; ss_tmo := wait_of (ss_k s); ss_elapsed := 0; ss_now := ss_now s; ss_alive := true;
     ss_out := ss_out s ++ [{| w_time := ss_now s; w_kind := kind; w_from := from; w_line := line;
                               w_next := wait_of (ss_k s) |}] |}.

Definition sstep (s : sst) (l : slabel) : option sst :=
  if negb (ss_alive s) then
    (* the thread has terminated: puts accumulate unread, time passes *)
    match l with
    | SDelay d => if Qle_bool 0 d then
                    Some {| ss_k := ss_k s; ss_tmo := ss_tmo s; ss_elapsed := Qred (ss_elapsed s + d);
                            ss_now := Qred (ss_now s + d); ss_alive := false; ss_out := ss_out s |}
                  else None
    | SFire => None
    | SPut _ _ => Some s
    | SSetK k => Some {| ss_k := k; ss_tmo := ss_tmo s; ss_elapsed := ss_elapsed s; ss_now := ss_now s;
                         ss_alive := false; ss_out := ss_out s |}
    end
  else
  match l with
  | SDelay d =>
      if Qle_bool 0 d &&
         match ss_tmo s with Some T => Qle_bool (ss_elapsed s + d) T | None => true end
      then Some {| ss_k := ss_k s; ss_tmo := ss_tmo s; ss_elapsed := Qred (ss_elapsed s + d);
                   ss_now := Qred (ss_now s + d); ss_alive := true; ss_out := ss_out s |}
      else None
  | SFire =>
      match ss_tmo s with
      | Some T => if Qeq_bool (ss_elapsed s) T then Some (write s WTimeout 0 keepalive_line) else None
      | None => None
      end
  | SPut p None => Some (write s WPill p keepalive_line)
  | SPut p (Some m) =>
      if bytes_eqb m stop_pill then
        Some {| ss_k := ss_k s; ss_tmo := None; ss_elapsed := ss_elapsed s; ss_now := ss_now s;
                ss_alive := false; ss_out := ss_out s |}
      else if bytes_eqb m keepalive_pill then Some (write s WPill p keepalive_line)
      else Some (write s WMsg p m)
  | SSetK k =>
      Some {| ss_k := k; ss_tmo := ss_tmo s; ss_elapsed := ss_elapsed s; ss_now := ss_now s;
              ss_alive := true; ss_out := ss_out s |}
  end.

Fixpoint srun (s : sst) (ls : list slabel) : option sst :=
  match ls with
  | [] => Some s
  | l :: r => match sstep s l with Some s' => srun s' r | None => None end
  end.

(* the byte stream on the socket *)
Definition crlf_ : bytes := [c_cr; c_lf].
Definition wire_of (out : list wrec) : bytes := flat_map (fun w => w_line w ++ crlf_) out.

(* the messages submitted (pills and None excluded), in order, up to the stop pill *)
Fixpoint submitted (ls : list slabel) : list (nat * bytes) :=
  match ls with
  | [] => []
  | SPut p (Some m) :: r =>
      if bytes_eqb m stop_pill then []
      else if bytes_eqb m keepalive_pill then submitted r
      else (p, m) :: submitted r
  | _ :: r => submitted r
  end.

Definition is_msg (w : wrec) : bool := match w_kind w with WMsg => true | _ => false end.
Definition is_timeout (w : wrec) : bool := match w_kind w with WTimeout => true | _ => false end.
