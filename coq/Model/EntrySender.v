(* Model/EntrySender.v — S-expression glue for Model/Sender.v and Model/Outbound.v *)
From Coq Require Import String List Ascii NArith ZArith QArith Bool.
From LS Require Import Model.Bytes Model.Sx Model.Tags Gen.Consts Model.Sender Model.Outbound Model.SenderFault.
Import ListNotations.

Definition un_Q' (x : sx) : option Q :=
  match x with
  | SL [h; n; d] =>
      if is_sym "q" h then
        match un_Z n, un_Z d with
        | Some n', Some (Zpos d') => Some (n' # d')
        | _, _ => None
        end
      else None
  | _ => None
  end.
Definition sx_Q' (q : Q) : sx := let r := Qred q in app_ "q" [sx_Z (Qnum r); sx_Z (Zpos (Qden r))].

Definition un_slabel (x : sx) : option slabel :=
  if is_sym "fire" x then Some SFire
  else match x with
       | SL [h; a] =>
           if is_sym "delay" h then option_map SDelay (un_Q' a)
           else if is_sym "setk" h then option_map SSetK (un_Q' a)
           else None
       | SL [h; p; m] =>
           if is_sym "put" h then
             match un_nat p, un_opt un_atom m with
             | Some p', Some m' => Some (SPut p' m') | _, _ => None end
           else None
       | _ => None
       end.

Definition sx_wkind (k : wkind) : sx :=
  sym match k with WMsg => "msg" | WPill => "pill" | WTimeout => "timeout" end.

Definition sx_wrec (w : wrec) : sx :=
  SL [sx_Q' (w_time w); sx_wkind (w_kind w); sx_nat (w_from w); SA (w_line w); sx_opt sx_Q' (w_next w)].

Fixpoint srun_idx (s : sst) (ls : list slabel) (idx : nat) : sx :=
  match ls with
  | [] => app_ "ok" [sx_list sx_wrec (ss_out s); sx_bool (ss_alive s); SA (wire_of (ss_out s));
                     sx_opt sx_Q' (ss_tmo s); sx_Q' (ss_elapsed s)]
  | l :: r => match sstep s l with
              | Some s' => srun_idx s' r (S idx)
              | None => app_ "rejected" [sx_nat idx; sx_opt sx_Q' (ss_tmo s); sx_Q' (ss_elapsed s); sx_Q' (ss_k s)]
              end
  end.

(* (sender_run <k> (<label> ...)) *)
Definition e_sender_run (args : list sx) : sx :=
  match args with
  | [k; ls] =>
      match un_Q' k, un_listof un_slabel ls with
      | Some k', Some ls' => srun_idx (sender_init k') ls' 0
      | _, _ => sx_err "sender_run: bad args"
      end
  | _ => sx_err "sender_run: arity"
  end.

(* (sender_fault_run <k> <handler> ((<label> <ok>) ...)), handler: absent | (returns none) | (returns (some <bool>)) *)
Definition un_handler (x : sx) : option handler :=
  if is_sym "absent" x then Some HAbsent
  else match x with
       | SL [h; b] => if is_sym "returns" h then option_map HReturns (un_opt un_bool b) else None
       | _ => None
       end.

Definition un_flabel (x : sx) : option (slabel * bool) :=
  match x with
  | SL [l; ok] => match un_slabel l, un_bool ok with Some l', Some ok' => Some (l', ok') | _, _ => None end
  | _ => None
  end.

Fixpoint frun_idx (h : handler) (f : fstate) (ls : list (slabel * bool)) (idx : nat) : sx :=
  match ls with
  | [] => app_ "ok" [sx_list sx_wrec (ss_out (f_s f)); sx_bool (ss_alive (f_s f)); sx_nat (f_attempts f);
                     sx_nat (f_reports f); sx_nat (f_exits f);
                     sx_opt (fun x => SL [sx_Q' (fst (fst x)); sx_wkind (snd (fst x)); SA (snd x)]) (f_failed f)]
  | (l, ok) :: r => match fstep h f l ok with
                    | Some f' => frun_idx h f' r (S idx)
                    | None => app_ "rejected" [sx_nat idx; sx_opt sx_Q' (ss_tmo (f_s f)); sx_Q' (ss_elapsed (f_s f)); sx_Q' (ss_k (f_s f))]
                    end
  end.

Definition e_sender_fault_run (args : list sx) : sx :=
  match args with
  | [k; h; ls] =>
      match un_Q' k, un_handler h, un_listof un_flabel ls with
      | Some k', Some h', Some ls' => frun_idx h' (fault_init k') ls' 0
      | _, _, _ => sx_err "sender_fault_run: bad args"
      end
  | _ => sx_err "sender_fault_run: arity"
  end.

Definition un_olabel (x : sx) : option olabel :=
  if is_sym "get" x then Some OGet
  else if is_sym "get-timeout" x then Some OGetTimeout
  else match x with
       | SL [h; a] => if is_sym "send" h then option_map OSend (un_bool a) else None
       | SL [h; p; SA m] => if is_sym "put" h then option_map (fun p' => OPut p' m) (un_nat p) else None
       | _ => None
       end.

Definition sx_pm (x : nat * bytes) : sx := SL [sx_nat (fst x); SA (snd x)].

Fixpoint orun_idx (s : ost) (ls : list olabel) (idx : nat) : sx :=
  match ls with
  | [] => app_ "ok" [sx_list sx_pm (o_written s); SA (o_wire s); sx_bool (o_alive s);
                     sx_list sx_pm (o_queue s); sx_opt sx_pm (o_hand s);
                     sx_list SA (fst (split_crlf (o_wire s))); SA (snd (split_crlf (o_wire s)))]
  | l :: r => match ostep s l with
              | Some s' => orun_idx s' r (S idx)
              | None => app_ "rejected" [sx_nat idx]
              end
  end.

(* (outbound_run (<label> ...)) *)
Definition e_outbound_run (args : list sx) : sx :=
  match args with
  | [ls] => match un_listof un_olabel ls with
            | Some ls' => orun_idx out_init ls' 0
            | None => sx_err "outbound_run: bad labels"
            end
  | _ => sx_err "outbound_run: arity"
  end.
