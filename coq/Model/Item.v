(* Model/Item.v — the per-item subscription machinery as a labelled transition
   system at lock-region granularity (DESIGN.md 2.3, Appendix A):
     subscription.py  _ItemTaskManager (add_task, _deque, _dec_queued),
                      SubscriptionManager (do_subscription, do_unsubscription,
                      get_active_item, del_active_item), ItemTask;
     server.py        DataProviderServer._on_sub / _on_usb closures (do_task,
                      do_late_task), update / end_of_snapshot / clear_snapshot.
   One step = one atomic region of one thread: a `with lock:` block, one
   queue.put, entry to / exit from an adapter method.  Threads: the reader
   (arrivals), any number of dequeuer jobs (index = creation order; which pool
   worker runs a job is irrelevant to the item), any number of adapter-owned
   threads calling the listener.  Nothing here assumes that there is a single
   dequeuer or a single manager object: that is what is proved. *)
From Coq Require Import String List Ascii NArith ZArith Bool.
From LS Require Import Model.Bytes Model.Tags Gen.Consts Model.Quote Model.Base64 Model.Codec
  Model.Writers Model.AriReply.
Import ListNotations.

Record task := { t_rid : bytes; t_sub : bool }.

(* what an adapter method does when called *)
Inductive call_outcome :=
| CRet (snapshot_is_false : bool)   (* returns; the flag matters for issnapshot_available only:
                                       true iff it returned exactly False *)
| CRaise (e : exn).

Inductive callk := KSnap | KSub | KUsb.

(* listener calls *)
Inductive lkind := LUpdate (snap : bool) (fields : list (text * uval)) | LEos | LCls.

(* who performs a listener call *)
Inductive origin := OLib | ONested (job : nat) | OFree (thread : nat).

Inductive event :=
| EArr (t : task)                         (* request accepted by the reader (R1) *)
| EArrDropped (t : task)                  (* USB for an item without manager: logged and dropped *)
| ESkip (t : task)                        (* SUB processed as late *)
| ESetCode (t : task) | EClearCode
| ECallB (c : callk) (t : task) | ECallE (c : callk) (t : task) (o : call_outcome)
| EReply (t : task) (line : bytes)        (* reply enqueued: <id>|<payload> *)
| ENotif (o : origin) (k : lkind) (rid : bytes) (line : bytes)   (* notification enqueued (no timestamp) *)
| ELisB (o : origin) (k : lkind)          (* listener call begins *)
| ELisDropped (o : origin) (k : lkind)    (* ... and found no live subscription *)
| EDel.                                   (* the manager was removed from the active map *)

Record mgr := { m_deq : list task; m_code : option bytes; m_running : bool;
                m_queued : Z; m_last_ok : bool }.
Definition fresh_mgr : mgr :=
  {| m_deq := []; m_code := None; m_running := false; m_queued := 0; m_last_ok := false |}.

Inductive pc :=
| PQueued | PTop
| PLate (t : task)
| PSetCode (t : task)
| PSnapB (t : task) | PSnapE (t : task)
| PEosRead (t : task) | PEosPut (t : task) (c : option bytes)
| PSubB (t : task) | PInSub (t : task)
| PUsbB (t : task) | PInUsb (t : task)
| PNestRead (t : task) (insub : bool) (k : lkind)
| PNestPut (t : task) (insub : bool) (k : lkind) (c : option bytes)
| PReply (t : task) (o : call_outcome)    (* about to enqueue the reply of a task that ran *)
| PUsbLate (t : task)
| PClear
| PDec
| PDone.

Record dq := { d_gen : nat; d_pc : pc; d_dequeued : Z; d_lso : bool }.

Inductive lpc := LIdle | LRead (k : lkind) | LPutS (k : lkind) (c : option bytes).

Record istate := {
  s_item : bytes;                 (* the item name (UTF-8) *)
  s_mgrs : list mgr;              (* every _ItemTaskManager ever created for the item *)
  s_active : option nat;          (* index of the one in _active_items, if any *)
  s_pending : option (task * nat);(* reader between R1 and R2: task and manager index *)
  s_dqs : list dq;                (* dequeuer jobs, by creation order *)
  s_lis : list lpc;               (* adapter-owned threads *)
  s_hist : list event             (* ghost: everything that happened, oldest first *)
}.

Definition init_state (item : bytes) : istate :=
  {| s_item := item; s_mgrs := []; s_active := None; s_pending := None; s_dqs := [];
     s_lis := []; s_hist := [] |}.

Inductive label :=
| LbR1 (t : task)
| LbR2
| LbJobStart (j : nat)
| LbLockI (j : nat)
| LbLockM (j : nat)
| LbPut (j : nat)
| LbCallB (j : nat)
| LbCallE (j : nat) (o : call_outcome)
| LbNest (j : nat) (k : lkind)
| LbFreeBegin (l : nat) (k : lkind)
| LbFreeLockM (l : nat)
| LbFreePut (l : nat).

(* ---------- list helpers ---------- *)
Fixpoint upd {A} (n : nat) (x : A) (l : list A) : list A :=
  match n, l with
  | _, [] => []
  | O, _ :: r => x :: r
  | S k, y :: r => y :: upd k x r
  end.

Definition log (s : istate) (es : list event) : istate :=
  {| s_item := s_item s; s_mgrs := s_mgrs s; s_active := s_active s; s_pending := s_pending s;
     s_dqs := s_dqs s; s_lis := s_lis s; s_hist := s_hist s ++ es |}.

Definition set_mgr (s : istate) (g : nat) (m : mgr) : istate :=
  {| s_item := s_item s; s_mgrs := upd g m (s_mgrs s); s_active := s_active s;
     s_pending := s_pending s; s_dqs := s_dqs s; s_lis := s_lis s; s_hist := s_hist s |}.

Definition set_dq (s : istate) (j : nat) (d : dq) : istate :=
  {| s_item := s_item s; s_mgrs := s_mgrs s; s_active := s_active s; s_pending := s_pending s;
     s_dqs := upd j d (s_dqs s); s_lis := s_lis s; s_hist := s_hist s |}.

Definition set_lis (s : istate) (l : nat) (p : lpc) : istate :=
  {| s_item := s_item s; s_mgrs := s_mgrs s; s_active := s_active s; s_pending := s_pending s;
     s_dqs := s_dqs s; s_lis := upd l p (s_lis s); s_hist := s_hist s |}.

Definition with_pc (d : dq) (p : pc) : dq :=
  {| d_gen := d_gen d; d_pc := p; d_dequeued := d_dequeued d; d_lso := d_lso d |}.

(* get_active_item(item): the code of the manager in the active map *)
Definition active_code (s : istate) : option bytes :=
  match s_active s with
  | None => None
  | Some g => match nth_error (s_mgrs s) g with Some m => m_code m | None => None end
  end.

(* `if request_id:` — None and the empty string are both falsy *)
Definition live (c : option bytes) : option bytes :=
  match c with Some (x :: r) => Some (x :: r) | _ => None end.

(* ---------- the lines ---------- *)
Definition reply_line (t : task) (payload : wres bytes) : option bytes :=
  match payload with WOk p => Some (t_rid t ++ [c_pipe] ++ p) | WErr _ => None end.

Definition meth_of (t : task) : meth := if t_sub t then MSUB else MUSB.

Definition late_exn : exn :=
  {| e_class := ELib CSubscribeError; e_str := bs "Subscribe request come too late";
     e_code := 0%Z; e_user_msg := PNone; e_session := PNone |}.

Definition outcome_payload (t : task) (o : call_outcome) : wres bytes :=
  match o with
  | CRet _ => WOk (void_reply (meth_of t))
  | CRaise e => error_reply (meth_of t) e
  end.

Definition py_of_uval (u : uval) : pyval :=
  match u with UText t => py_of_text t | UBytes b => PBytes b end.

Definition notif_line (item rid : bytes) (k : lkind) : wres bytes :=
  match k with
  | LUpdate sn fs =>
      write_update_map (PStr item) (PStr rid) (PBool sn)
        (PDict (map (fun fv => (py_of_text (fst fv), py_of_uval (snd fv))) fs))
  | LEos => write_eos (PStr item) (PStr rid)
  | LCls => write_cls (PStr item) (PStr rid)
  end.

(* the put step of a listener call that read code c: forwarded or dropped *)
Definition listener_put (s : istate) (o : origin) (k : lkind) (c : option bytes) : option istate :=
  match live c with
  | Some rid =>
      match notif_line (s_item s) rid k with
      | WOk line => Some (log s [ENotif o k rid line])
      | WErr _ => None          (* encoding failure: outside the model (payloads are text / bytes) *)
      end
  | None => None                (* a dropped call has no put step *)
  end.

(* ---------- reader ---------- *)
Definition step_R1 (s : istate) (t : task) : option istate :=
  match s_pending s with
  | Some _ => None
  | None =>
      match s_active s with
      | Some g =>
          match nth_error (s_mgrs s) g with
          | Some m =>
              let m' := {| m_deq := m_deq m; m_code := m_code m; m_running := m_running m;
                           m_queued := (m_queued m + 1)%Z; m_last_ok := m_last_ok m |} in
              let s1 := set_mgr s g m' in
              Some (log {| s_item := s_item s1; s_mgrs := s_mgrs s1; s_active := s_active s1;
                           s_pending := Some (t, g); s_dqs := s_dqs s1; s_lis := s_lis s1;
                           s_hist := s_hist s1 |} [EArr t])
          | None => None
          end
      | None =>
          if t_sub t then
            let g := length (s_mgrs s) in
            let m' := {| m_deq := []; m_code := None; m_running := false; m_queued := 1%Z;
                         m_last_ok := false |} in
            Some (log {| s_item := s_item s; s_mgrs := s_mgrs s ++ [m']; s_active := Some g;
                         s_pending := Some (t, g); s_dqs := s_dqs s; s_lis := s_lis s;
                         s_hist := s_hist s |} [EArr t])
          else Some (log s [EArrDropped t])
      end
  end.

Definition step_R2 (s : istate) : option istate :=
  match s_pending s with
  | None => None
  | Some (t, g) =>
      match nth_error (s_mgrs s) g with
      | None => None
      | Some m =>
          let m' := {| m_deq := m_deq m ++ [t]; m_code := m_code m; m_running := true;
                       m_queued := m_queued m; m_last_ok := m_last_ok m |} in
          let s1 := set_mgr s g m' in
          let dqs' := if m_running m then s_dqs s1
                      else s_dqs s1 ++ [{| d_gen := g; d_pc := PQueued; d_dequeued := 0%Z;
                                           d_lso := true |}] in
          Some {| s_item := s_item s1; s_mgrs := s_mgrs s1; s_active := s_active s1;
                  s_pending := None; s_dqs := dqs'; s_lis := s_lis s1; s_hist := s_hist s1 |}
      end
  end.

(* ---------- dequeuer ---------- *)
Definition step_JobStart (s : istate) (j : nat) : option istate :=
  match nth_error (s_dqs s) j with
  | Some d => match d_pc d with
              | PQueued => Some (set_dq s j (with_pc d PTop))
              | _ => None
              end
  | None => None
  end.

(* item-lock region at the top of the loop *)
Definition step_LockI (s : istate) (j : nat) : option istate :=
  match nth_error (s_dqs s) j with
  | Some d =>
      match d_pc d, nth_error (s_mgrs s) (d_gen d) with
      | PTop, Some m =>
          let lso := if Z.eqb (d_dequeued d) 0 then m_last_ok m else d_lso d in
          match m_deq m with
          | [] =>
              let m' := {| m_deq := []; m_code := m_code m; m_running := false;
                           m_queued := m_queued m; m_last_ok := lso |} in
              Some (set_dq (set_mgr s (d_gen d) m') j
                      {| d_gen := d_gen d; d_pc := PDec; d_dequeued := d_dequeued d; d_lso := lso |})
          | t :: rest =>
              let m' := {| m_deq := rest; m_code := m_code m; m_running := m_running m;
                           m_queued := m_queued m; m_last_ok := m_last_ok m |} in
              let islast := is_nil rest in
              let late := t_sub t && negb islast in
              let p := if t_sub t then (if islast then PSetCode t else PLate t)
                       else (if lso then PUsbB t else PUsbLate t) in
              (* the thread-local last_subscribe_outcome is set to False after the late task: being
                 local, the model may assign it here, where the decision is taken *)
              let s1 := set_dq (set_mgr s (d_gen d) m') j
                      {| d_gen := d_gen d; d_pc := p; d_dequeued := (d_dequeued d + 1)%Z;
                         d_lso := if late then false else lso |} in
              Some (if late then log s1 [ESkip t] else s1)
          end
      | _, _ => None
      end
  | None => None
  end.

(* manager-lock regions of a dequeuer *)
Definition step_LockM (s : istate) (j : nat) : option istate :=
  match nth_error (s_dqs s) j with
  | Some d =>
      match d_pc d, nth_error (s_mgrs s) (d_gen d) with
      | PSetCode t, Some m =>
          let m' := {| m_deq := m_deq m; m_code := Some (t_rid t); m_running := m_running m;
                       m_queued := m_queued m; m_last_ok := m_last_ok m |} in
          Some (log (set_dq (set_mgr s (d_gen d) m') j (with_pc d (PSnapB t))) [ESetCode t])
      | PEosRead t, Some _ =>
          let c := active_code s in
          match live c with
          | Some _ => Some (log (set_dq s j (with_pc d (PEosPut t c))) [ELisB OLib LEos])
          | None => Some (log (set_dq s j (with_pc d (PSubB t))) [ELisB OLib LEos; ELisDropped OLib LEos])
          end
      | PNestRead t insub k, Some _ =>
          let c := active_code s in
          match live c with
          | Some _ => Some (set_dq s j (with_pc d (PNestPut t insub k c)))
          | None => Some (log (set_dq s j (with_pc d (if insub then PInSub t else PInUsb t)))
                            [ELisDropped (ONested j) k])
          end
      | PClear, Some m =>
          let m' := {| m_deq := m_deq m; m_code := None; m_running := m_running m;
                       m_queued := m_queued m; m_last_ok := m_last_ok m |} in
          Some (log (set_dq (set_mgr s (d_gen d) m') j (with_pc d PTop)) [EClearCode])
      | PDec, Some m =>
          let q' := (m_queued m - d_dequeued d)%Z in
          let m' := {| m_deq := m_deq m; m_code := m_code m; m_running := m_running m;
                       m_queued := q'; m_last_ok := m_last_ok m |} in
          let s1 := set_dq (set_mgr s (d_gen d) m') j (with_pc d PDone) in
          let falsy := match live (m_code m) with None => true | Some _ => false end in
          let del := falsy && Z.eqb q' 0 &&
                     match s_active s with Some g => Nat.eqb g (d_gen d) | None => false end in
          if del then
            Some (log {| s_item := s_item s1; s_mgrs := s_mgrs s1; s_active := None;
                         s_pending := s_pending s1; s_dqs := s_dqs s1; s_lis := s_lis s1;
                         s_hist := s_hist s1 |} [EDel])
          else Some s1
      | _, _ => None
      end
  | None => None
  end.

Definition step_Put (s : istate) (j : nat) : option istate :=
  match nth_error (s_dqs s) j with
  | Some d =>
      match d_pc d with
      | PLate t =>
          match reply_line t (error_reply MSUB late_exn) with
          | Some line =>
              Some (log (set_dq s j (with_pc d PTop)) [EReply t line])
          | None => None
          end
      | PEosPut t c =>
          match listener_put s OLib LEos c with
          | Some s1 => Some (set_dq s1 j (with_pc d (PSubB t)))
          | None => None
          end
      | PNestPut t insub k c =>
          match listener_put s (ONested j) k c with
          | Some s1 => Some (set_dq s1 j (with_pc d (if insub then PInSub t else PInUsb t)))
          | None => None
          end
      | PReply t o =>
          match reply_line t (outcome_payload t o) with
          | Some line =>
              Some (log (set_dq s j (with_pc d (if t_sub t then PTop else PClear))) [EReply t line])
          | None => None
          end
      | PUsbLate t =>
          match reply_line t (WOk (void_reply MUSB)) with
          | Some line => Some (log (set_dq s j (with_pc d PClear)) [EReply t line])
          | None => None
          end
      | _ => None
      end
  | None => None
  end.

Definition step_CallB (s : istate) (j : nat) : option istate :=
  match nth_error (s_dqs s) j with
  | Some d =>
      match d_pc d with
      | PSnapB t => Some (log (set_dq s j (with_pc d (PSnapE t))) [ECallB KSnap t])
      | PSubB t => Some (log (set_dq s j (with_pc d (PInSub t))) [ECallB KSub t])
      | PUsbB t => Some (log (set_dq s j (with_pc d (PInUsb t))) [ECallB KUsb t])
      | _ => None
      end
  | None => None
  end.

Definition step_CallE (s : istate) (j : nat) (o : call_outcome) : option istate :=
  match nth_error (s_dqs s) j with
  | Some d =>
      match d_pc d with
      | PSnapE t =>
          let p := match o with
                   | CRet true => PEosRead t
                   | CRet false => PSubB t
                   | CRaise _ => PReply t o
                   end in
          (* do_task returns success = False when the query raises; the thread-local
             last_subscribe_outcome receives it after the reply: being local, it is assigned here *)
          let d' := match o with
                    | CRaise _ => {| d_gen := d_gen d; d_pc := p; d_dequeued := d_dequeued d; d_lso := false |}
                    | CRet _ => with_pc d p
                    end in
          Some (log (set_dq s j d') [ECallE KSnap t o])
      | PInSub t =>
          Some (log (set_dq s j {| d_gen := d_gen d; d_pc := PReply t o; d_dequeued := d_dequeued d;
                                   d_lso := match o with CRet _ => true | CRaise _ => false end |})
                  [ECallE KSub t o])
      | PInUsb t => Some (log (set_dq s j (with_pc d (PReply t o))) [ECallE KUsb t o])
      | _ => None
      end
  | None => None
  end.

Definition step_Nest (s : istate) (j : nat) (k : lkind) : option istate :=
  match nth_error (s_dqs s) j with
  | Some d =>
      match d_pc d with
      | PInSub t => Some (log (set_dq s j (with_pc d (PNestRead t true k))) [ELisB (ONested j) k])
      | PInUsb t => Some (log (set_dq s j (with_pc d (PNestRead t false k))) [ELisB (ONested j) k])
      | _ => None
      end
  | None => None
  end.

(* ---------- adapter-owned threads ---------- *)
Definition step_FreeBegin (s : istate) (l : nat) (k : lkind) : option istate :=
  match nth_error (s_lis s) l with
  | Some LIdle => Some (log (set_lis s l (LRead k)) [ELisB (OFree l) k])
  | Some _ => None
  | None =>
      if Nat.eqb l (length (s_lis s)) then
        Some (log {| s_item := s_item s; s_mgrs := s_mgrs s; s_active := s_active s;
                     s_pending := s_pending s; s_dqs := s_dqs s; s_lis := s_lis s ++ [LRead k];
                     s_hist := s_hist s |} [ELisB (OFree l) k])
      else None
  end.

Definition step_FreeLockM (s : istate) (l : nat) : option istate :=
  match nth_error (s_lis s) l with
  | Some (LRead k) =>
      let c := active_code s in
      match live c with
      | Some _ => Some (set_lis s l (LPutS k c))
      | None => Some (log (set_lis s l LIdle) [ELisDropped (OFree l) k])
      end
  | _ => None
  end.

Definition step_FreePut (s : istate) (l : nat) : option istate :=
  match nth_error (s_lis s) l with
  | Some (LPutS k c) =>
      match listener_put s (OFree l) k c with
      | Some s1 => Some (set_lis s1 l LIdle)
      | None => None
      end
  | _ => None
  end.

Definition step (s : istate) (lb : label) : option istate :=
  match lb with
  | LbR1 t => step_R1 s t
  | LbR2 => step_R2 s
  | LbJobStart j => step_JobStart s j
  | LbLockI j => step_LockI s j
  | LbLockM j => step_LockM s j
  | LbPut j => step_Put s j
  | LbCallB j => step_CallB s j
  | LbCallE j o => step_CallE s j o
  | LbNest j k => step_Nest s j k
  | LbFreeBegin l k => step_FreeBegin s l k
  | LbFreeLockM l => step_FreeLockM s l
  | LbFreePut l => step_FreePut s l
  end.

Fixpoint run (s : istate) (ls : list label) : option istate :=
  match ls with
  | [] => Some s
  | l :: r => match step s l with Some s' => run s' r | None => None end
  end.

