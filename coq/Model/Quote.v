(* Model/Quote.v — Python 3.12 urllib.parse.quote_plus / unquote_plus at the
   byte level.  Executable definitions only (no proofs here; see
   Proofs/QuoteProofs.v).

   quote_plus(b)  for b : bytes (or a str after UTF-8 encoding; quoting is per
   byte):  bytes in _ALWAYS_SAFE are kept, space becomes '+', every other byte
   becomes %XY with UPPER-case hex digits.

   unquote_plus(s) for an ASCII s:  s.replace('+', ' ') first, then every %XY
   with X, Y hex digits (either case) becomes the byte 16*X+Y; a '%' that is not
   followed by two hex digits stays a literal '%' and scanning resumes at the
   very next character.  Because '+' is replaced BEFORE percent-decoding,
   "%2B" decodes to '+', not to a space.  ('+' is not a hex digit, so doing both
   in one left-to-right pass is the same function.) *)
From Coq Require Import List Ascii String NArith Bool.
From LS Require Import Model.Bytes.
Import ListNotations.
Open Scope bool_scope.
Local Open Scope N_scope.

Definition c_dot : ascii := ascii_of_N 46.    (* . *)
Definition c_tilde : ascii := ascii_of_N 126. (* ~ *)

(* urllib.parse._ALWAYS_SAFE = A-Z a-z 0-9 _ . - ~ *)
Definition always_safe (c : ascii) : bool :=
  is_alnum c
  || Ascii.eqb c c_us || Ascii.eqb c c_dot
  || Ascii.eqb c c_minus || Ascii.eqb c c_tilde.

Definition quote1 (c : ascii) : bytes :=
  if always_safe c then [c]
  else if Ascii.eqb c c_space then [c_plus]
  else [c_pct; hex_digit_upper (code c / 16); hex_digit_upper (code c mod 16)].

Definition quote_plus (b : bytes) : bytes := flat_map quote1 b.

Fixpoint unquote_plus (s : bytes) : bytes :=
  match s with
  | [] => []
  | c :: r =>
      if Ascii.eqb c c_plus then c_space :: unquote_plus r
      else if Ascii.eqb c c_pct then
        match r with
        | x :: r1 =>
            match r1 with
            | y :: r2 =>
                match hex_val x, hex_val y with
                | Some vx, Some vy => ascii_of_N (16 * vx + vy) :: unquote_plus r2
                | _, _ => c :: unquote_plus r
                end
            | [] => c :: unquote_plus r
            end
        | [] => c :: unquote_plus r
        end
      else c :: unquote_plus r
  end.

(* the alphabet of quote_plus output *)
Definition tok_char (c : ascii) : bool :=
  always_safe c || Ascii.eqb c c_plus || Ascii.eqb c c_pct.
