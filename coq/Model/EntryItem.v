(* Model/EntryItem.v — S-expression glue for Model/Item.v:
   (item_run <item> (<label> ...)) ->
     (ok ((<line> ...) ...one list per label...) <final summary>)  |  (rejected <index of the refused label> <pc summary>) *)
From Coq Require Import String List Ascii NArith ZArith Bool.
From LS Require Import Model.Bytes Model.Sx Model.Tags Gen.Consts Model.Codec Model.Writers
  Model.AriReply Model.EntryWire Model.EntryReply Model.Item Model.ItemSpec.
Import ListNotations.

Definition un_uval (x : sx) : option uval :=
  match x with
  | SL [h; v] =>
      if is_sym "text" h then option_map UText (un_text v)
      else if is_sym "bytes" h then option_map UBytes (un_atom v)
      else None
  | _ => None
  end.

Definition un_field (x : sx) : option (text * uval) :=
  match x with
  | SL [k; v] => match un_text k, un_uval v with Some k', Some v' => Some (k', v') | _, _ => None end
  | _ => None
  end.

Definition un_lkind (x : sx) : option lkind :=
  if is_sym "eos" x then Some LEos
  else if is_sym "cls" x then Some LCls
  else match x with
       | SL [h; b; fs] =>
           if is_sym "update" h then
             match un_bool b, un_listof un_field fs with
             | Some b', Some fs' => Some (LUpdate b' fs')
             | _, _ => None
             end
           else None
       | _ => None
       end.

Definition un_call_outcome (x : sx) : option call_outcome :=
  match x with
  | SL [h; v] =>
      if is_sym "ret" h then option_map CRet (un_bool v)
      else if is_sym "raise" h then option_map CRaise (un_exn v)
      else None
  | _ => None
  end.

Definition un_label (x : sx) : option label :=
  if is_sym "R2" x then Some LbR2
  else match x with
       | SL [h; a] =>
           if is_sym "JobStart" h then option_map LbJobStart (un_nat a)
           else if is_sym "LockI" h then option_map LbLockI (un_nat a)
           else if is_sym "LockM" h then option_map LbLockM (un_nat a)
           else if is_sym "Put" h then option_map LbPut (un_nat a)
           else if is_sym "CallB" h then option_map LbCallB (un_nat a)
           else if is_sym "FreeLockM" h then option_map LbFreeLockM (un_nat a)
           else if is_sym "FreePut" h then option_map LbFreePut (un_nat a)
           else None
       | SL [h; a; b] =>
           if is_sym "R1" h then
             match a, un_bool b with
             | SA rid, Some sub => Some (LbR1 {| t_rid := rid; t_sub := sub |})
             | _, _ => None
             end
           else if is_sym "CallE" h then
             match un_nat a, un_call_outcome b with
             | Some j, Some o => Some (LbCallE j o) | _, _ => None end
           else if is_sym "Nest" h then
             match un_nat a, un_lkind b with
             | Some j, Some k => Some (LbNest j k) | _, _ => None end
           else if is_sym "FreeBegin" h then
             match un_nat a, un_lkind b with
             | Some l, Some k => Some (LbFreeBegin l k) | _, _ => None end
           else None
       | _ => None
       end.

(* lines enqueued by the events appended in one step *)
Definition lines_of (es : list event) : list bytes :=
  flat_map (fun e => match e with
                     | EReply _ line => [line]
                     | ENotif _ _ _ line => [line]
                     | _ => []
                     end) es.

Definition sx_pc (p : pc) : sx :=
  sym match p with
      | PQueued => "Queued" | PTop => "Top" | PLate _ => "Late" | PSetCode _ => "SetCode"
      | PSnapB _ => "SnapB" | PSnapE _ => "SnapE" | PEosRead _ => "EosRead" | PEosPut _ _ => "EosPut"
      | PSubB _ => "SubB" | PInSub _ => "InSub" | PUsbB _ => "UsbB" | PInUsb _ => "InUsb"
      | PNestRead _ _ _ => "NestRead" | PNestPut _ _ _ _ => "NestPut" | PReply _ _ => "Reply"
      | PUsbLate _ => "UsbLate" | PClear => "Clear" | PDec => "Dec" | PDone => "Done"
      end.

Definition sx_mgr (m : mgr) : sx :=
  SL [sx_nat (length (m_deq m)); sx_obytes (m_code m); sx_bool (m_running m); sx_Z (m_queued m);
      sx_bool (m_last_ok m)].

(* (active manager fields or none) (pending?) (pcs of the dequeuer jobs) *)
Definition sx_summary (s : istate) : sx :=
  SL [ match s_active s with
       | Some g => match nth_error (s_mgrs s) g with Some m => app_ "some" [sx_mgr m] | None => sym "dangling" end
       | None => sym "none"
       end;
       sx_bool (match s_pending s with Some _ => true | None => false end);
       sx_list (fun d => sx_pc (d_pc d)) (s_dqs s);
       sx_nat (length (s_mgrs s)) ].

Definition failed_names (l : list (string * bool)) : list sx :=
  flat_map (fun nb : string * bool => if snd nb then @nil sx else [sym (fst nb)]) l.

(* the invariants are evaluated after every step, the monitors on the final history;
   names of those that fail are reported (none on a correct model and code) *)
Fixpoint run_collect (s : istate) (ls : list label) (idx : nat) (acc : list sx) (bad : list sx) : sx :=
  match ls with
  | [] => app_ "ok" [SL (rev acc); sx_summary s; SL (bad ++ failed_names (monitors (s_hist s)));
                     sx_bool (quiescent s)]
  | l :: r =>
      if env_ok s l then
        match step s l with
        | Some s' =>
            let new := skipn (length (s_hist s)) (s_hist s') in
            let b := match failed_names (invariants s') with
                     | [] => bad
                     | f => match bad with [] => [SL (sx_nat idx :: f)] | _ => bad end
                     end in
            run_collect s' r (S idx) (sx_list SA (lines_of new) :: acc) b
        | None => app_ "rejected" [sx_nat idx; sx_summary s]
        end
      else app_ "env-rejected" [sx_nat idx; sx_summary s]
  end.

Definition e_item_run (args : list sx) : sx :=
  match args with
  | [SA item; ls] =>
      match un_listof un_label ls with
      | Some ls' => run_collect (init_state item) ls' 0 [] []
      | None => sx_err "item_run: bad labels"
      end
  | _ => sx_err "item_run: arity"
  end.
