(* Model/Keepalive.v — keepalive fields of Server.__init__ (server.py:334-337),
   Server._use_keep_alive_hint (:465-534) and _change_keep_alive (:536-539),
   over exact rationals (seconds for intervals, milliseconds for hints).
   [c] is the constructor argument keep_alive (None or a number of seconds);
   [h] is float(keepalive_hint) when the Proxy Adapter sent a hint. *)
From Coq Require Import QArith Qminmax ZArith Bool.
From LS Require Import Gen.Consts.
Local Open Scope Q_scope.

Definition q_of_Z (z : Z) : Q := inject_Z z.

Definition strict_ms : Q := q_of_Z strict_keepalive.
Definition default_ms : Q := q_of_Z default_keepalive.
Definition min_ms : Q := q_of_Z min_keepalive.

Definition Qltb (a b : Q) : bool := negb (Qle_bool b a).
Definition Qleb (a b : Q) : bool := Qle_bool a b.
Definition Qmaxb (a b : Q) : Q := if Qle_bool a b then b else a.

(* self._configured_keep_alive : milliseconds or None *)
Definition configured_ms (c : option Q) : option Q :=
  match c with Some x => Some (x * 1000) | None => None end.

(* self._config['keep_alive'] after __init__ : seconds *)
Definition ka_init (c : option Q) : Q :=
  match c with
  | Some x => Qmaxb 0 x
  | None => default_ms / 1000
  end.

(* branch taken by _use_keep_alive_hint; the tag is observable through the log
   and is used by the correspondence check for branch coverage *)
Inductive ka_branch :=
| KbNoHintDefault      (* no hint, nothing configured: strict default *)
| KbNoHintConfigured   (* no hint, configured value stands *)
| KbNonPositive        (* hint <= 0 *)
| KbDefAdopt | KbDefFloor | KbDefKeep        (* nothing configured *)
| KbCfgAdopt | KbCfgFloor | KbCfgKeep        (* configured > 0 *)
| KbOffAdopt | KbOffFloor.                   (* configured <= 0 (keepalives off) *)

Definition ka_branch_of (c : option Q) (h : option Q) : ka_branch :=
  match h with
  | None => match c with None => KbNoHintDefault | Some _ => KbNoHintConfigured end
  | Some t =>
      if Qleb t 0 then KbNonPositive
      else match configured_ms c with
           | None =>
               if Qltb t default_ms then
                 (if Qleb min_ms t then KbDefAdopt else KbDefFloor)
               else KbDefKeep
           | Some cm =>
               if Qltb 0 cm then
                 (if Qltb t cm then
                    (if Qleb min_ms t then KbCfgAdopt else KbCfgFloor)
                  else KbCfgKeep)
               else (if Qleb min_ms t then KbOffAdopt else KbOffFloor)
           end
  end.

(* argument of the _change_keep_alive call made in that branch (milliseconds),
   None when the branch does not call it *)
Definition ka_change (c : option Q) (h : option Q) : option Q :=
  match ka_branch_of c h, h with
  | KbNoHintDefault, _ => Some strict_ms
  | KbDefAdopt, Some t | KbCfgAdopt, Some t | KbOffAdopt, Some t => Some t
  | KbDefFloor, _ | KbCfgFloor, _ => Some min_ms
  | KbOffFloor, _ => Some min_ms
  | _, _ => None
  end.

(* the same for the code before the repair of finding F2 (C12): the last branch
   logged "forced with time 1000" but did not call _change_keep_alive *)
Definition ka_change_legacy (c : option Q) (h : option Q) : option Q :=
  match ka_branch_of c h with
  | KbOffFloor => None
  | _ => ka_change c h
  end.

(* server.keep_alive (seconds) once the init request has been handled *)
Definition ka_after (c : option Q) (h : option Q) : Q :=
  match ka_change c h with
  | Some ms => ms / 1000
  | None => ka_init c
  end.

Definition ka_after_legacy (c : option Q) (h : option Q) : Q :=
  match ka_change_legacy c h with
  | Some ms => ms / 1000
  | None => ka_init c
  end.
