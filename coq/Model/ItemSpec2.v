(* Model/ItemSpec2.v — further monitors over the ghost history of Model/Item.v
   (kept apart from ItemSpec.v so that adding them does not disturb the proofs
   about the latter). *)
From Coq Require Import String List Ascii NArith ZArith Bool.
From LS Require Import Model.Bytes Model.Tags Gen.Consts Model.Codec Model.Writers Model.AriReply
  Model.Item Model.ItemSpec.
Import ListNotations.

(* C02 "happen in the order in which the corresponding requests arrived": every
   adapter call (snapshot query, subscribe, unsubscribe) is made on behalf of the
   OLDEST request not yet answered — position |replied| of the arrival sequence.
   State: arrivals so far, number of replies so far. *)
Fixpoint order_ok_from (arr : list task) (nrep : nat) (h : list event) : bool :=
  match h with
  | [] => true
  | EArr t :: r => order_ok_from (arr ++ [t]) nrep r
  | EReply _ _ :: r => order_ok_from arr (S nrep) r
  | ECallB _ t :: r =>
      match nth_error arr nrep with Some u => task_eqb u t | None => false end &&
      order_ok_from arr nrep r
  | ESkip t :: r =>
      match nth_error arr nrep with Some u => task_eqb u t | None => false end &&
      order_ok_from arr nrep r
  | _ :: r => order_ok_from arr nrep r
  end.
Definition order_ok (h : list event) : bool := order_ok_from [] 0 h.

(* the kind of call matches the kind of request: snapshot query and subscribe for
   a SUB, unsubscribe for a USB *)
Fixpoint kinds_ok (h : list event) : bool :=
  match h with
  | [] => true
  | ECallB KUsb t :: r => negb (t_sub t) && kinds_ok r
  | ECallB _ t :: r => t_sub t && kinds_ok r
  | _ :: r => kinds_ok r
  end.

Definition last_seen (s : istate) : option task := last_task (seen (s_hist s)).
