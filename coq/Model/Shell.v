(* Model/Shell.v — the connection-level transition system of a Remote Server
   (server.py): Server.start, the reader thread (_RequestManager._do_run +
   on_received_request + _handle_received_request + both _handle_request +
   _on_init), the worker pool (ThreadPoolExecutor as a FIFO of jobs run by n
   workers), the writer thread (_Sender._do_run), Server.close (from the reader,
   on a CLOSE request, or from an application thread), I/O faults and the
   exception handlers.  One step = what a thread does from one shared action to
   the next (queue put / get, adapter call boundary, lock region, socket
   operation, job pick-up, thread start / join).

   What is abstracted, and where it is treated concretely instead:
   - request lines are classified ([lineclass]); framing is C15, decoding C06/C09,
     reply contents C07/C08/C11;
   - a Metadata job is "adapter calls, then either the reply or the exception
     handler"; a Data job (per-item dequeuer) is a free sequence of adapter calls,
     lock regions and puts — its inner logic is Model/Item.v (C01-C03, C17, C19);
   - outbound lines are tagged, not spelled ([oline]); the writer is the one of
     Model/Outbound.v with get and send kept as separate steps. *)
From Coq Require Import String List Ascii NArith ZArith Bool.
From LS Require Import Model.Bytes Model.Tags Model.AriReply.
Import ListNotations.

Inductive thread := ThStarter | ThReader | ThWriter | ThWorker (w : nat) | ThApp | ThAdapter (a : nat).

Inductive call := CInit | CSetListener | COther.

(* a request line as the reader classifies it *)
Inductive lineclass :=
| LcGarbage                                   (* parse_request gives None: discarded *)
| LcClose (id0 : bool) (reason_ok : bool)     (* CLOSE request: id is "0"? reason map decodable? *)
| LcInit (rid : nat) (wf : bool) (refused : bool) (oldv : bool)
      (* init request (MPI / DPI): parameters decodable? version refused? agreed version 1.8.0 / 1.8.2? *)
| LcReq (rid : nat) (wf : bool) (known : bool).
      (* any other request: arguments decodable? method known to this server kind? *)

Inductive oline :=
| ORac | OInitReply (rid : nat) (ok : bool) | OReply (rid : nat) | ONotif | OFal | OStopPill.

Inductive jkind := JMeta (rid : nat) | JData.

(* exception handler installed by the application: none, or one whose methods return b *)
Inductive handler := HNone | HRet (ex_ret io_ret : bool).

Inductive action :=
| AStart                                   (* first step of a thread started outside the library (application close()) *)
| AThreadStart                             (* starter: Thread.start() of the writer, then of the reader *)
| ARecv (lines : list lineclass)           (* recv returned a chunk completing these lines *)
| ARecvEof | ARecvErr | ARecvClosed        (* recv returned b'' / raised OSError / raised because the socket is closed *)
| ACallB (c : call) | ACallE (c : call) (ok : bool)
| APut (l : oline)
| AHand (ret : bool) | AHandIO (ret : bool)  (* the installed handler is called and returns ret *)
| ALock (submit : bool)                    (* a lock region of subscription.py; submit: it submitted a dequeuer job *)
| ALockDrop                                (* reader: the manager-lock region of do_unsubscription found no entry: request dropped *)
| AJoin | AShutdownWait | ASockClose
| AGet | ASend (ok : bool)
| AJobStart (j : nat) | AWorkerExit | AJobEnd.

Inductive sevent :=
| EPut (th : thread) (l : oline)
| ECallB (th : thread) (c : call) | ECallE (th : thread) (c : call) (ok : bool)
| EHand (th : thread)                      (* on_exception: handler notified (or default handling when none) *)
| EHandIO (th : thread)
| EExit                                    (* os._exit *)
| ESubmit (j : nat) (k : jkind)
| EJobStart (w : nat) (j : nat) | EJobEnd (w : nat) (j : nat)
| EWritten (l : oline)
| EStopFlag (th : thread)
| EPoolShutdown (th : thread)
| ESockClosed (th : thread)
| ERecv (n : nat)                          (* n lines handed to the dispatcher *)
| EReaderEnd | EWriterEnd.

Inductive rpc :=
| RNotStarted | RRecv
| RInitB (rid : nat) (oldv : bool) | RInitE (rid : nat) (oldv : bool)
| RLisB (rid : nat) (oldv : bool) | RLisE (rid : nat) (oldv : bool)
| RInitPut (rid : nat) (ok : bool)
| RHandY | RFalPut
| RHandDie                                  (* an exception escaped the dispatcher: handler, then the reader loop ends *)
| RLock1 | RLock2
| RCl1 | RCl2 | RCl3 | RCl4               (* Server.close: put the pill, join the writer, wait for the pool, close the socket *)
| RIoHand
| RDead.

Inductive wpc := WNotStarted | WWait | WHand (l : oline) | WIoHand | WDead.

Inductive apc := ANone | ACl1 | ACl2 | ACl3 | ACl4 | ADone.

Inductive wstate :=
| KIdle
| KBusy (j : nat) (k : jkind) (incall : bool) (done : bool)
| KHandFal (j : nat) (k : jkind) (incall : bool)   (* Data job: handler returned true, FAL about to be enqueued (possibly from inside an adapter call) *)
| KExited.

Record shell := {
  sh_kind : server_kind;
  sh_handler : handler;
  sh_start : nat;                          (* progress of Server.start: 0 .. 3 *)
  sh_init_expected : bool;
  sh_close_expected : bool;
  sh_stop : bool;                          (* _stop_request *)
  sh_todo : list lineclass;                (* lines of the current chunk not yet dispatched *)
  sh_rpc : rpc;
  sh_jobs : list (nat * jkind);            (* pool queue *)
  sh_njobs : nat;                          (* jobs submitted so far *)
  sh_workers : list wstate;
  sh_shutdown : bool;
  sh_outq : list oline;
  sh_wpc : wpc;
  sh_apc : apc;
  sh_sock_closed : bool;
  sh_exited : bool;
  sh_hist : list sevent
}.

Definition shell_init (k : server_kind) (h : handler) (nworkers : nat) : shell :=
  {| sh_kind := k; sh_handler := h; sh_start := 0; sh_init_expected := true; sh_close_expected := true;
     sh_stop := false; sh_todo := []; sh_rpc := RNotStarted; sh_jobs := []; sh_njobs := 0;
     sh_workers := repeat KIdle nworkers; sh_shutdown := false; sh_outq := []; sh_wpc := WNotStarted;
     sh_apc := ANone; sh_sock_closed := false; sh_exited := false; sh_hist := [] |}.

(* ---------- record updates ---------- *)
Definition set_hist (s : shell) (h : list sevent) : shell :=
  {| sh_kind := sh_kind s; sh_handler := sh_handler s; sh_start := sh_start s;
     sh_init_expected := sh_init_expected s; sh_close_expected := sh_close_expected s; sh_stop := sh_stop s;
     sh_todo := sh_todo s; sh_rpc := sh_rpc s; sh_jobs := sh_jobs s; sh_njobs := sh_njobs s;
     sh_workers := sh_workers s; sh_shutdown := sh_shutdown s; sh_outq := sh_outq s; sh_wpc := sh_wpc s;
     sh_apc := sh_apc s; sh_sock_closed := sh_sock_closed s; sh_exited := sh_exited s; sh_hist := h |}.
Definition slog (s : shell) (es : list sevent) : shell := set_hist s (sh_hist s ++ es).

Definition set_reader (s : shell) (ie ce : bool) (todo : list lineclass) (p : rpc) : shell :=
  {| sh_kind := sh_kind s; sh_handler := sh_handler s; sh_start := sh_start s;
     sh_init_expected := ie; sh_close_expected := ce; sh_stop := sh_stop s;
     sh_todo := todo; sh_rpc := p; sh_jobs := sh_jobs s; sh_njobs := sh_njobs s;
     sh_workers := sh_workers s; sh_shutdown := sh_shutdown s; sh_outq := sh_outq s; sh_wpc := sh_wpc s;
     sh_apc := sh_apc s; sh_sock_closed := sh_sock_closed s; sh_exited := sh_exited s; sh_hist := sh_hist s |}.
Definition set_rpc (s : shell) (p : rpc) : shell :=
  set_reader s (sh_init_expected s) (sh_close_expected s) (sh_todo s) p.

Definition set_pool (s : shell) (jobs : list (nat * jkind)) (n : nat) (ws : list wstate) (sd : bool) : shell :=
  {| sh_kind := sh_kind s; sh_handler := sh_handler s; sh_start := sh_start s;
     sh_init_expected := sh_init_expected s; sh_close_expected := sh_close_expected s; sh_stop := sh_stop s;
     sh_todo := sh_todo s; sh_rpc := sh_rpc s; sh_jobs := jobs; sh_njobs := n;
     sh_workers := ws; sh_shutdown := sd; sh_outq := sh_outq s; sh_wpc := sh_wpc s;
     sh_apc := sh_apc s; sh_sock_closed := sh_sock_closed s; sh_exited := sh_exited s; sh_hist := sh_hist s |}.

Definition set_out (s : shell) (q : list oline) (w : wpc) : shell :=
  {| sh_kind := sh_kind s; sh_handler := sh_handler s; sh_start := sh_start s;
     sh_init_expected := sh_init_expected s; sh_close_expected := sh_close_expected s; sh_stop := sh_stop s;
     sh_todo := sh_todo s; sh_rpc := sh_rpc s; sh_jobs := sh_jobs s; sh_njobs := sh_njobs s;
     sh_workers := sh_workers s; sh_shutdown := sh_shutdown s; sh_outq := q; sh_wpc := w;
     sh_apc := sh_apc s; sh_sock_closed := sh_sock_closed s; sh_exited := sh_exited s; sh_hist := sh_hist s |}.

Definition set_misc (s : shell) (start : nat) (stop : bool) (a : apc) (closed exited : bool) : shell :=
  {| sh_kind := sh_kind s; sh_handler := sh_handler s; sh_start := start;
     sh_init_expected := sh_init_expected s; sh_close_expected := sh_close_expected s; sh_stop := stop;
     sh_todo := sh_todo s; sh_rpc := sh_rpc s; sh_jobs := sh_jobs s; sh_njobs := sh_njobs s;
     sh_workers := sh_workers s; sh_shutdown := sh_shutdown s; sh_outq := sh_outq s; sh_wpc := sh_wpc s;
     sh_apc := a; sh_sock_closed := closed; sh_exited := exited; sh_hist := sh_hist s |}.

Definition put (s : shell) (th : thread) (l : oline) : shell :=
  slog (set_out s (sh_outq s ++ [l]) (sh_wpc s)) [EPut th l].

Definition submit (s : shell) (k : jkind) : shell :=
  slog (set_pool s (sh_jobs s ++ [(sh_njobs s, k)]) (S (sh_njobs s)) (sh_workers s) (sh_shutdown s))
       [ESubmit (sh_njobs s) k].

Fixpoint updw (n : nat) (x : wstate) (l : list wstate) : list wstate :=
  match n, l with
  | _, [] => []
  | O, _ :: r => x :: r
  | S k, y :: r => y :: updw k x r
  end.
Definition set_worker (s : shell) (w : nat) (x : wstate) : shell :=
  set_pool s (sh_jobs s) (sh_njobs s) (updw w x (sh_workers s)) (sh_shutdown s).

Definition is_data (s : shell) : bool := match sh_kind s with KData => true | KMeta => false end.

(* ---------- the reader between two yield points ---------- *)
(* on_exception(err) on the reader thread: next pc, or None = handled without any shared action *)
Definition reader_hand (s : shell) : shell * option rpc :=
  match sh_handler s with
  | HNone => (slog s [EHand ThReader], if is_data s then Some RFalPut else None)
  | HRet _ _ => (s, Some RHandY)          (* the notification is logged when the handler is actually invoked *)
  end.

(* dispatch the lines of the chunk until an action needs a yield; when the chunk
   is exhausted the loop condition is tested: stop flag => the thread ends *)
Fixpoint settle (s : shell) (todo : list lineclass) : shell :=
  match todo with
  | [] =>
      if sh_stop s then slog (set_reader s (sh_init_expected s) (sh_close_expected s) [] RDead) [EReaderEnd]
      else set_reader s (sh_init_expected s) (sh_close_expected s) [] RRecv
  | ln :: rest =>
      let hand (s0 : shell) :=
          match reader_hand s0 with
          | (s1, Some p) => set_reader s1 (sh_init_expected s1) (sh_close_expected s1) rest p
          | (s1, None) => settle s1 rest
          end in
      match ln with
      | LcGarbage => settle s rest
      | LcClose id0 rok =>
          if sh_close_expected s then
            if negb id0 then hand s
            else if negb rok then hand s
            else slog (set_reader (set_misc s (sh_start s) true (sh_apc s) (sh_sock_closed s) (sh_exited s))
                                  (sh_init_expected s) (sh_close_expected s) rest RCl1) [EStopFlag ThReader]
          else
            (* not honoured: it reaches _handle_request as an ordinary method name *)
            if sh_init_expected s then hand s else settle s rest
      | LcInit rid wf refused oldv =>
          if negb (sh_init_expected s) then hand s
          else
            let s1 := set_reader s false (sh_close_expected s) (sh_todo s) (sh_rpc s) in
            if negb wf then hand s1
            else if refused then set_reader s1 false (sh_close_expected s1) rest (RInitPut rid false)
            else set_reader s1 false (sh_close_expected s1) rest (RInitB rid oldv)
      | LcReq rid wf known =>
          if sh_init_expected s then hand s
          else if negb known then settle s rest
          else if negb wf then hand s
          else if is_data s then set_reader s (sh_init_expected s) (sh_close_expected s) rest RLock1
          else if sh_shutdown s then
               (* executor.submit after shutdown raises RuntimeError, which is not a RemotingException: it escapes
                  on_received_request; the reader loop reports it with on_exception and ends (happens only when the
                  application closes the server while requests are still arriving) *)
               match sh_handler s with
               | HNone => slog (set_reader s (sh_init_expected s) (sh_close_expected s) rest RDead) [EHand ThReader; EReaderEnd]
               | HRet _ _ => set_reader s (sh_init_expected s) (sh_close_expected s) rest RHandDie
               end
          else settle (submit s (JMeta rid)) rest
      end
  end.

(* ---------- Server.close, run by the reader (on CLOSE) or an application thread ---------- *)
Definition pool_drained (s : shell) : bool :=
  is_nil (sh_jobs s) && forallb (fun w => match w with KExited => true | _ => false end) (sh_workers s).

Definition writer_dead (s : shell) : bool :=
  match sh_wpc s with WDead => true | _ => false end.

(* io failure reported from thread th: handler none => default = process exit *)
Definition io_fail (s : shell) (th : thread) : shell * bool :=
  match sh_handler s with
  | HNone =>
      let s1 := slog s [EHandIO th] in
      (slog (set_misc s1 (sh_start s1) (sh_stop s1) (sh_apc s1) (sh_sock_closed s1) true) [EExit], true)
  | HRet _ _ => (s, false)             (* the notification is logged when the handler is actually invoked *)
  end.

Definition step (s : shell) (th : thread) (a : action) : option shell :=
  if sh_exited s then None else
  match th, a with
  (* ----- Server.start ----- *)
  | ThStarter, AThreadStart =>
      match sh_start s with
      | 0 => Some (set_out (set_misc s 1 (sh_stop s) (sh_apc s) (sh_sock_closed s) (sh_exited s)) (sh_outq s) WWait)
      | 2 => Some (set_rpc (set_misc s 3 (sh_stop s) (sh_apc s) (sh_sock_closed s) (sh_exited s)) RRecv)
      | _ => None
      end
  | ThStarter, APut ORac =>
      match sh_start s with
      | 1 => Some (put (set_misc s 2 (sh_stop s) (sh_apc s) (sh_sock_closed s) (sh_exited s)) ThStarter ORac)
      | _ => None
      end
  (* ----- reader ----- *)
  | ThReader, ARecv lines =>
      match sh_rpc s with
      | RRecv => if sh_sock_closed s then None
                 else Some (settle (slog s [ERecv (length lines)]) lines)
      | _ => None
      end
  | ThReader, ARecvEof | ThReader, ARecvErr | ThReader, ARecvClosed =>
      match sh_rpc s with
      | RRecv =>
          let legal := match a with ARecvClosed => sh_sock_closed s | _ => negb (sh_sock_closed s) end in
          if negb legal then None
          else if sh_stop s then Some (slog (set_rpc s RDead) [EReaderEnd])
          else match io_fail s ThReader with
               | (s1, true) => Some (set_rpc s1 RDead)
               | (s1, false) => Some (set_rpc s1 RIoHand)
               end
      | _ => None
      end
  | ThReader, AHandIO ret =>
      match sh_rpc s, sh_handler s with
      | RIoHand, HRet _ r =>
          if negb (Bool.eqb ret r) then None
          else if ret then Some (slog (set_rpc (set_misc s (sh_start s) (sh_stop s) (sh_apc s) (sh_sock_closed s) true) RDead) [EHandIO ThReader; EExit])
          else Some (slog (set_rpc s RDead) [EHandIO ThReader; EReaderEnd])
      | _, _ => None
      end
  | ThReader, ACallB c =>
      match sh_rpc s, c with
      | RInitB rid ov, CInit => Some (slog (set_rpc s (RInitE rid ov)) [ECallB ThReader CInit])
      | RLisB rid ov, CSetListener => Some (slog (set_rpc s (RLisE rid ov)) [ECallB ThReader CSetListener])
      | _, _ => None
      end
  | ThReader, ACallE c ok =>
      match sh_rpc s, c with
      | RInitE rid ov, CInit =>
          let s1 := slog s [ECallE ThReader CInit ok] in
          if ok then
            if is_data s then Some (set_rpc s1 (RLisB rid ov))
            else Some (set_reader s1 (sh_init_expected s1) (if ov then false else sh_close_expected s1) (sh_todo s1) (RInitPut rid true))
          else Some (set_rpc s1 (RInitPut rid false))
      | RLisE rid ov, CSetListener =>
          let s1 := slog s [ECallE ThReader CSetListener ok] in
          if ok then Some (set_reader s1 (sh_init_expected s1) (if ov then false else sh_close_expected s1) (sh_todo s1) (RInitPut rid true))
          else Some (set_rpc s1 (RInitPut rid false))
      | _, _ => None
      end
  | ThReader, APut l =>
      match sh_rpc s, l with
      | RInitPut rid ok, OInitReply rid' ok' =>
          if Nat.eqb rid rid' && Bool.eqb ok ok' then
            let s1 := put s ThReader l in Some (settle s1 (sh_todo s1))
          else None
      | RFalPut, OFal => let s1 := put s ThReader OFal in Some (settle s1 (sh_todo s1))
      | RCl1, OStopPill => Some (set_rpc (put s ThReader OStopPill) RCl2)
      | _, _ => None
      end
  | ThReader, AHand ret =>
      match sh_rpc s, sh_handler s with
      | RHandDie, HRet r _ =>
          if negb (Bool.eqb ret r) then None
          else Some (slog (set_rpc s RDead) [EHand ThReader; EReaderEnd])
      | RHandY, HRet r _ =>
          if negb (Bool.eqb ret r) then None
          else
            let s1 := slog s [EHand ThReader] in
            if ret && is_data s then Some (set_rpc s1 RFalPut)
            else Some (settle s1 (sh_todo s1))
      | _, _ => None
      end
  | ThReader, ALock sub =>
      match sh_rpc s with
      | RLock1 => if sub then None else Some (set_rpc s RLock2)
      | RLock2 =>
          if sub && sh_shutdown s then None     (* submit after shutdown raises inside add_task: not modelled *)
          else let s1 := if sub then submit s JData else s in Some (settle s1 (sh_todo s1))
      | _ => None
      end
  | ThReader, ALockDrop =>
      match sh_rpc s with
      | RLock1 => Some (settle s (sh_todo s))
      | _ => None
      end
  | ThReader, AJoin =>
      match sh_rpc s with
      | RCl2 => if writer_dead s then
                  Some (slog (set_rpc (set_pool s (sh_jobs s) (sh_njobs s) (sh_workers s) true) RCl3) [EPoolShutdown ThReader])
                else None
      | _ => None
      end
  | ThReader, AShutdownWait =>
      match sh_rpc s with
      | RCl3 => if pool_drained s then Some (set_rpc s RCl4) else None
      | _ => None
      end
  | ThReader, ASockClose =>
      match sh_rpc s with
      | RCl4 =>
          let s1 := slog (set_misc s (sh_start s) (sh_stop s) (sh_apc s) true (sh_exited s)) [ESockClosed ThReader] in
          Some (settle s1 (sh_todo s1))
      | _ => None
      end
  (* ----- application thread calling close() ----- *)
  | ThApp, AStart =>
      (* the application calls close(): allowed once start() has returned, and again after a previous close() *)
      match sh_apc s with
      | ANone | ADone =>
          if Nat.leb 3 (sh_start s)
          then Some (slog (set_misc s (sh_start s) true ACl1 (sh_sock_closed s) (sh_exited s)) [EStopFlag ThApp])
          else None
      | _ => None
      end
  | ThApp, APut OStopPill =>
      match sh_apc s with
      | ACl1 => Some (set_misc (put s ThApp OStopPill) (sh_start s) (sh_stop s) ACl2 (sh_sock_closed s) (sh_exited s))
      | _ => None
      end
  | ThApp, AJoin =>
      match sh_apc s with
      | ACl2 => if writer_dead s then
                  Some (slog (set_misc (set_pool s (sh_jobs s) (sh_njobs s) (sh_workers s) true)
                                       (sh_start s) (sh_stop s) ACl3 (sh_sock_closed s) (sh_exited s)) [EPoolShutdown ThApp])
                else None
      | _ => None
      end
  | ThApp, AShutdownWait =>
      match sh_apc s with
      | ACl3 => if pool_drained s then Some (set_misc s (sh_start s) (sh_stop s) ACl4 (sh_sock_closed s) (sh_exited s)) else None
      | _ => None
      end
  | ThApp, ASockClose =>
      match sh_apc s with
      | ACl4 => Some (slog (set_misc s (sh_start s) (sh_stop s) ADone true (sh_exited s)) [ESockClosed ThApp])
      | _ => None
      end
  (* ----- writer ----- *)
  | ThWriter, AGet =>
      match sh_wpc s, sh_outq s with
      | WWait, l :: rest =>
          match l with
          | OStopPill => Some (slog (set_out s rest WDead) [EWriterEnd])
          | _ => Some (set_out s rest (WHand l))
          end
      | _, _ => None
      end
  | ThWriter, ASend ok =>
      match sh_wpc s with
      | WHand l =>
          if ok then
            if sh_sock_closed s then None
            else Some (slog (set_out s (sh_outq s) WWait) [EWritten l])
          else match io_fail s ThWriter with
               | (s1, true) => Some (set_out s1 (sh_outq s1) WDead)
               | (s1, false) => Some (set_out s1 (sh_outq s1) WIoHand)
               end
      | _ => None
      end
  | ThWriter, AHandIO ret =>
      match sh_wpc s, sh_handler s with
      | WIoHand, HRet _ r =>
          if negb (Bool.eqb ret r) then None
          else if ret then Some (slog (set_out (set_misc s (sh_start s) (sh_stop s) (sh_apc s) (sh_sock_closed s) true) (sh_outq s) WDead) [EHandIO ThWriter; EExit])
          else Some (slog (set_out s (sh_outq s) WDead) [EHandIO ThWriter; EWriterEnd])
      | _, _ => None
      end
  (* ----- pool workers ----- *)
  | ThWorker w, AJobStart j =>
      match nth_error (sh_workers s) w, sh_jobs s with
      | Some KIdle, (j', k) :: rest =>
          if Nat.eqb j j' then
            Some (slog (set_pool s rest (sh_njobs s) (updw w (KBusy j k false false) (sh_workers s)) (sh_shutdown s))
                       [EJobStart w j])
          else None
      | _, _ => None
      end
  | ThWorker w, AWorkerExit =>
      match nth_error (sh_workers s) w with
      | Some KIdle => if sh_shutdown s && is_nil (sh_jobs s) then Some (set_worker s w KExited) else None
      | _ => None
      end
  | ThWorker w, ACallB c =>
      match nth_error (sh_workers s) w, c with
      | Some (KBusy j k false false), COther =>
          Some (slog (set_worker s w (KBusy j k true false)) [ECallB (ThWorker w) COther])
      | _, _ => None
      end
  | ThWorker w, ACallE c ok =>
      match nth_error (sh_workers s) w, c with
      | Some (KBusy j k true false), COther =>
          Some (slog (set_worker s w (KBusy j k false false)) [ECallE (ThWorker w) COther ok])
      | _, _ => None
      end
  | ThWorker w, APut l =>
      match nth_error (sh_workers s) w with
      | Some (KBusy j (JMeta rid) false false) =>
          match l with
          | OReply rid' => if Nat.eqb rid rid'
                           then Some (put (set_worker s w (KBusy j (JMeta rid) false true)) (ThWorker w) l)
                           else None
          | _ => None
          end
      | Some (KBusy j JData ic false) =>
          match l with
          | OReply _ | ONotif | OFal => Some (put s (ThWorker w) l)
          | _ => None
          end
      | Some (KHandFal j k ic) =>
          match l with
          | OFal => Some (put (set_worker s w (KBusy j k ic false)) (ThWorker w) OFal)
          | _ => None
          end
      | _ => None
      end
  | ThWorker w, AHand ret =>
      match nth_error (sh_workers s) w, sh_handler s with
      | Some (KBusy j (JMeta rid) false false), HRet r _ =>
          if Bool.eqb ret r then Some (slog (set_worker s w (KBusy j (JMeta rid) false true)) [EHand (ThWorker w)])
          else None
      | Some (KBusy j JData ic false), HRet r _ =>
          if Bool.eqb ret r then
            Some (slog (set_worker s w (if ret then KHandFal j JData ic else KBusy j JData ic false)) [EHand (ThWorker w)])
          else None
      | _, _ => None
      end
  | ThWorker w, ALock _ =>
      match nth_error (sh_workers s) w with
      | Some (KBusy j JData ic false) => Some s
      | _ => None
      end
  | ThWorker w, AJobEnd =>
      match nth_error (sh_workers s) w with
      | Some (KBusy j (JMeta rid) false done) =>
          if done then Some (slog (set_worker s w KIdle) [EJobEnd w j])
          else match sh_handler s with
               | HNone => (* the wrong-typed reply went to the default handling, which does nothing visible *)
                   Some (slog (set_worker s w KIdle) [EHand (ThWorker w); EJobEnd w j])
               | HRet _ _ => None
               end
      | Some (KBusy j JData false false) => Some (slog (set_worker s w KIdle) [EJobEnd w j])
      | _ => None
      end
  (* ----- adapter-owned threads (Data: listener calls) ----- *)
  | ThAdapter _, APut l =>
      match l with
      | ONotif | OFal => if is_data s && negb (sh_init_expected s) then Some (put s th l) else None
      | _ => None
      end
  | ThAdapter _, ALock _ => if is_data s then Some s else None
  | ThAdapter _, AHand ret =>
      match sh_handler s with
      | HRet r _ => if is_data s && Bool.eqb ret r then Some (slog s [EHand th]) else None
      | HNone => None
      end
  | _, _ => None
  end.

Fixpoint run (s : shell) (ls : list (thread * action)) : option shell :=
  match ls with
  | [] => Some s
  | (th, a) :: r => match step s th a with Some s' => run s' r | None => None end
  end.

(* the state right after Server.start() has returned *)
Definition started (k : server_kind) (h : handler) (n : nat) : option shell :=
  run (shell_init k h n) [(ThStarter, AThreadStart); (ThStarter, APut ORac); (ThStarter, AThreadStart)].

(* ---------- pool sizing (Server.__init__, server.py:339-348) ---------- *)
Definition pool_size (configured : option Z) (cpu : option nat) : nat :=
  let p := match configured with Some z => Z.to_nat (Z.max 0 z) | None => O end in
  match p with
  | O => match cpu with Some c => c | None => 4 end
  | S _ => p
  end.
