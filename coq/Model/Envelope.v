(* Model/Envelope.v — what is put around a reply / notification text before it is
   queued and written: _RequestManager.send_reply ('|'.join((request_id, response))),
   the @notify decorator of DataProviderServer._send_notify (decimal millisecond
   timestamp, '|', notification) and _Sender._do_run (message + CRLF, UTF-8).
   Executable definitions only. *)
From Coq Require Import String List Ascii NArith ZArith Bool.
From LS Require Import Model.Bytes Model.Tags Gen.Consts.
Import ListNotations.

Definition reply_message (rid resp : bytes) : bytes := join_pipe [rid; resp].

(* ts = int(round(time.time() * 1000)) is an input: float rounding is not modelled *)
Definition notify_message (ts : Z) (ntfy : bytes) : bytes := join_pipe [Z_to_dec ts; ntfy].

Definition wire_message (msg : bytes) : bytes := msg ++ [c_cr; c_lf].

(* specification side: how the Proxy Adapter takes a line apart *)
Definition open_envelope (line : bytes) : option (bytes * list bytes) :=
  match split_on c_pipe line with
  | first :: rest => Some (first, rest)
  | [] => None
  end.
