(* Model/EntryShell.v — S-expression glue for Model/Shell.v:
   (shell_run <kind> <handler> <nworkers> <started T/F> ((<thread> <action>) ...)) *)
From Coq Require Import String List Ascii NArith ZArith Bool.
From LS Require Import Model.Bytes Model.Sx Model.Tags Model.AriReply Model.EntryReply Model.Shell Model.ShellSpec.
Import ListNotations.

Definition un_thread (x : sx) : option thread :=
  if is_sym "starter" x then Some ThStarter
  else if is_sym "reader" x then Some ThReader
  else if is_sym "writer" x then Some ThWriter
  else if is_sym "app" x then Some ThApp
  else match x with
       | SL [h; n] =>
           if is_sym "worker" h then option_map ThWorker (un_nat n)
           else if is_sym "adapter" h then option_map ThAdapter (un_nat n)
           else None
       | _ => None
       end.

Definition un_call (x : sx) : option call :=
  if is_sym "init" x then Some CInit
  else if is_sym "set-listener" x then Some CSetListener
  else if is_sym "other" x then Some COther else None.

Definition un_lineclass (x : sx) : option lineclass :=
  if is_sym "garbage" x then Some LcGarbage
  else match x with
       | SL [h; a; b] =>
           if is_sym "close" h then
             match un_bool a, un_bool b with Some a', Some b' => Some (LcClose a' b') | _, _ => None end
           else None
       | SL [h; r; a; b] =>
           if is_sym "req" h then
             match un_nat r, un_bool a, un_bool b with
             | Some r', Some a', Some b' => Some (LcReq r' a' b') | _, _, _ => None end
           else None
       | SL [h; r; a; b; c] =>
           if is_sym "init" h then
             match un_nat r, un_bool a, un_bool b, un_bool c with
             | Some r', Some a', Some b', Some c' => Some (LcInit r' a' b' c') | _, _, _, _ => None end
           else None
       | _ => None
       end.

Definition un_oline (x : sx) : option oline :=
  if is_sym "rac" x then Some ORac
  else if is_sym "notif" x then Some ONotif
  else if is_sym "fal" x then Some OFal
  else if is_sym "stop" x then Some OStopPill
  else match x with
       | SL [h; r] => if is_sym "reply" h then option_map OReply (un_nat r) else None
       | SL [h; r; ok] =>
           if is_sym "init-reply" h then
             match un_nat r, un_bool ok with Some r', Some ok' => Some (OInitReply r' ok') | _, _ => None end
           else None
       | _ => None
       end.

Definition sx_oline (l : oline) : sx :=
  match l with
  | ORac => sym "rac" | ONotif => sym "notif" | OFal => sym "fal" | OStopPill => sym "stop"
  | OReply r => app_ "reply" [sx_nat r]
  | OInitReply r ok => app_ "init-reply" [sx_nat r; sx_bool ok]
  end.

Definition un_action (x : sx) : option action :=
  if is_sym "start" x then Some AStart
  else if is_sym "thread-start" x then Some AThreadStart
  else if is_sym "recv-eof" x then Some ARecvEof
  else if is_sym "recv-err" x then Some ARecvErr
  else if is_sym "recv-closed" x then Some ARecvClosed
  else if is_sym "join" x then Some AJoin
  else if is_sym "shutdown-wait" x then Some AShutdownWait
  else if is_sym "sock-close" x then Some ASockClose
  else if is_sym "get" x then Some AGet
  else if is_sym "worker-exit" x then Some AWorkerExit
  else if is_sym "job-end" x then Some AJobEnd
  else if is_sym "lock-drop" x then Some ALockDrop
  else match x with
       | SL [h; a] =>
           if is_sym "recv" h then option_map ARecv (un_listof un_lineclass a)
           else if is_sym "callB" h then option_map ACallB (un_call a)
           else if is_sym "put" h then option_map APut (un_oline a)
           else if is_sym "hand" h then option_map AHand (un_bool a)
           else if is_sym "handio" h then option_map AHandIO (un_bool a)
           else if is_sym "lock" h then option_map ALock (un_bool a)
           else if is_sym "send" h then option_map ASend (un_bool a)
           else if is_sym "job-start" h then option_map AJobStart (un_nat a)
           else None
       | SL [h; a; b] =>
           if is_sym "callE" h then
             match un_call a, un_bool b with Some c, Some ok => Some (ACallE c ok) | _, _ => None end
           else None
       | _ => None
       end.

Definition un_step (x : sx) : option (thread * action) :=
  match x with
  | SL [t; a] => match un_thread t, un_action a with Some t', Some a' => Some (t', a') | _, _ => None end
  | _ => None
  end.

Definition un_handler (x : sx) : option handler :=
  if is_sym "none" x then Some HNone
  else match x with
       | SL [h; a; b] =>
           if is_sym "ret" h then
             match un_bool a, un_bool b with Some a', Some b' => Some (HRet a' b') | _, _ => None end
           else None
       | _ => None
       end.

Definition sx_rpc (p : rpc) : sx :=
  sym match p with
      | RNotStarted => "NotStarted" | RRecv => "Recv" | RInitB _ _ => "InitB" | RInitE _ _ => "InitE"
      | RLisB _ _ => "LisB" | RLisE _ _ => "LisE" | RInitPut _ _ => "InitPut" | RHandY => "HandY"
      | RFalPut => "FalPut" | RHandDie => "HandDie" | RLock1 => "Lock1" | RLock2 => "Lock2" | RCl1 => "Cl1" | RCl2 => "Cl2"
      | RCl3 => "Cl3" | RCl4 => "Cl4" | RIoHand => "IoHand" | RDead => "Dead"
      end.
Definition sx_wpc (p : wpc) : sx :=
  sym match p with WNotStarted => "NotStarted" | WWait => "Wait" | WHand _ => "Hand" | WIoHand => "IoHand" | WDead => "Dead" end.
Definition sx_wstate (w : wstate) : sx :=
  sym match w with KIdle => "Idle" | KBusy _ _ _ _ => "Busy" | KHandFal _ _ _ => "HandFal" | KExited => "Exited" end.

Definition count_ev (f : sevent -> bool) (h : list sevent) : nat := length (filter f h).

Definition sx_shell (s : shell) : sx :=
  SL [sx_list sx_oline (sh_outq s); sx_list sx_oline (written_of (sh_hist s));
      sx_rpc (sh_rpc s); sx_wpc (sh_wpc s); sx_list sx_wstate (sh_workers s);
      sx_bool (sh_init_expected s); sx_bool (sh_close_expected s); sx_bool (sh_stop s);
      sx_bool (sh_sock_closed s); sx_bool (sh_exited s); sx_nat (length (sh_jobs s));
      sx_nat (count_ev (fun e => match e with EHand _ => true | _ => false end) (sh_hist s));
      sx_nat (count_ev (fun e => match e with EHandIO _ => true | _ => false end) (sh_hist s))].

Definition failed_names (l : list (string * bool)) : list sx :=
  flat_map (fun nb : string * bool => if snd nb then @nil sx else [sym (fst nb)]) l.

(* invariants are evaluated after every step, monitors on the final history *)
Fixpoint shell_run_idx (s : shell) (ls : list (thread * action)) (idx : nat) (bad : list sx) : sx :=
  match ls with
  | [] => app_ "ok" [sx_shell s; SL (bad ++ failed_names (monitors s))]
  | (th, a) :: r =>
      match step s th a with
      | Some s' =>
          let b := match failed_names (invariants s') with
                   | [] => bad
                   | f => match bad with [] => [SL (sx_nat idx :: f)] | _ => bad end
                   end in
          shell_run_idx s' r (S idx) b
      | None => app_ "rejected" [sx_nat idx; sx_shell s]
      end
  end.

Definition e_shell_run (args : list sx) : sx :=
  match args with
  | [k; h; n; st; ls] =>
      match un_kind k, un_handler h, un_nat n, un_bool st, un_listof un_step ls with
      | Some k', Some h', Some n', Some st', Some ls' =>
          if st' then
            match started k' h' n' with
            | Some s0 => shell_run_idx s0 ls' 0 []
            | None => sx_err "shell_run: start failed"
            end
          else shell_run_idx (shell_init k' h' n') ls' 0 []
      | _, _, _, _, _ => sx_err "shell_run: bad args"
      end
  | _ => sx_err "shell_run: arity"
  end.

Definition e_pool_size (args : list sx) : sx :=
  match args with
  | [c; cpu] => match un_opt un_Z c, un_opt un_nat cpu with
                | Some c', Some cpu' => sx_nat (pool_size c' cpu')
                | _, _ => sx_err "pool_size: bad args" end
  | _ => sx_err "pool_size: arity"
  end.
