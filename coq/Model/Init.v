(* Model/Init.v — Server._on_init (server.py:416-459) with both
   getSupportedVersion (:761-779, :1248-1277), the parameter merge, the
   close-expected flag and the hand-over of the keepalive hint to
   _use_keep_alive_hint (Model/Keepalive.v). *)
From Coq Require Import String List Ascii NArith ZArith QArith Bool.
From LS Require Import Model.Bytes Model.Tags Gen.Consts Model.Quote Model.Codec
  Model.Writers Model.AriReply Model.Keepalive.
Import ListNotations.

Definition init_method (k : server_kind) : meth :=
  match k with KMeta => MMPI | KData => MDPI end.

Definition max_version : bytes := bs "1.8.3".

(* getSupportedVersion(proxy_version, max_version): Some v = returns v, None = raises *)
Definition supported_version (k : server_kind) (pv : bytes) : option bytes :=
  match k with
  | KMeta =>
      if bytes_eqb pv (bs "1.8.0") || bytes_eqb pv (bs "1.8.2") then Some pv
      else if bytes_eqb pv max_version then Some pv
      else Some max_version
  | KData =>
      if bytes_eqb pv max_version then None
      else if starts_with (bs "1.8.") pv then None
      else if bytes_eqb pv (bs "1.9.0") then None
      else Some max_version
  end.

Definition foreign_exn (msg : bytes) : exn :=
  {| e_class := EForeign; e_str := msg; e_code := 0%Z; e_user_msg := PNone; e_session := PNone |}.

Definition incompatible_msg (pv : bytes) : bytes :=
  bs "Incompatible Proxy Adapter for protocol version: " ++ pv.

(* the version negotiation part of the try block: Some advertised | None + the
   exception raised *)
Definition negotiate (k : server_kind) (announced : option bytes) : bytes + exn :=
  match announced with
  | None =>
      match supported_version k (bs "1.8.0") with
      | Some a => inl a
      | None => inr (foreign_exn (incompatible_msg (bs "1.8.0")))
      end
  | Some pv =>
      if bytes_eqb pv (bs "1.8.0") then
        inr (foreign_exn (bs "Unexpected protocol version number: " ++ pv))
      else if bytes_eqb pv (bs "1.8.1") then
        inr (foreign_exn (bs "Unsupported reserved protocol version number: " ++ pv))
      else match supported_version k pv with
           | Some a => inl a
           | None => inr (foreign_exn (incompatible_msg pv))
           end
  end.

(* outcome of adapter.initialize (and set_listener) *)
Inductive init_outcome := IRet | IRaise (e : exn).

(* keepalive hint text -> number of milliseconds.  float() is modelled on the
   grammar [+-]digits[.digits]; a text that float() certainly rejects (empty, or
   containing an ASCII character that occurs in no float literal) is HMalformed:
   the hint is discarded and the server goes on as if none had been sent; other
   spellings (exponents, blanks, underscores, inf / nan, non-ASCII digits) are
   HUnmodelled (the harness skips them) *)
Inductive hint := HAbsent | HValue (q : Q) | HMalformed | HUnmodelled.

(* ASCII characters that can occur in a text accepted by float(): digits, sign, point, exponent, underscore,
   white space (str.strip), and the letters of "infinity" / "nan" in either case *)
Definition float_char (c : ascii) : bool :=
  let n := code c in
  is_digit c
  || existsb (Ascii.eqb c) ["+"; "-"; "."; "e"; "E"; "_"; " ";
                            "i"; "n"; "f"; "t"; "y"; "a"; "I"; "N"; "F"; "T"; "Y"; "A"]%char
  || ((9 <=? n) && (n <=? 13))%N || ((28 <=? n) && (n <=? 31))%N.

Definition surely_not_float (s : bytes) : bool :=
  is_nil s || existsb (fun c => (code c <? 128)%N && negb (float_char c)) s.

Fixpoint all_digits (s : bytes) : bool :=
  match s with [] => true | c :: r => is_digit c && all_digits r end.

Definition digits_N (s : bytes) : N :=
  fold_left (fun acc c => (acc * 10 + (code c - 48))%N) s 0%N.

Fixpoint pow10_pos (n : nat) : positive :=
  match n with O => 1%positive | S m => (10 * pow10_pos m)%positive end.

Definition parse_unsigned_dec (s : bytes) : option Q :=
  match split_on "."%char s with
  | [ip] =>
      if negb (is_nil ip) && all_digits ip then Some (inject_Z (Z.of_N (digits_N ip))) else None
  | [ip; fp] =>
      if negb (is_nil ip && is_nil fp) && all_digits ip && all_digits fp then
        Some (Qmake (Z.of_N (digits_N (ip ++ fp))) (pow10_pos (length fp)))
      else None
  | _ => None
  end.

Definition parse_hint (t : option text) : hint :=
  match t with
  | None | Some None => HAbsent
  | Some (Some s) =>
      match s with
      | c :: r =>
          let other := if surely_not_float s then HMalformed else HUnmodelled in
          if Ascii.eqb c c_minus then
            match parse_unsigned_dec r with Some q => HValue (Qopp q) | None => other end
          else if Ascii.eqb c c_plus then
            match parse_unsigned_dec r with Some q => HValue q | None => other end
          else match parse_unsigned_dec s with Some q => HValue q | None => other end
      | [] => HMalformed
      end
  end.

Record init_result := {
  ir_initialize : option (dict text);  (* initialize(params, config_file) was invoked with params *)
  ir_listener : bool;                  (* set_listener(server) was invoked *)
  ir_reply : wres bytes;               (* reply payload (without the request id) *)
  ir_close_expected : bool;            (* self._close_expected afterwards *)
  ir_hint : hint                       (* argument handed to _use_keep_alive_hint *)
}.

Definition okey (k : bytes) : option bytes := Some k.

Definition on_init (k : server_kind) (local : option (dict text)) (proxy : dict text)
    (close_before : bool) (outcome : init_outcome) : init_result :=
  let m := init_method k in
  let announced := match dict_get (okey ari_version_key) proxy with
                   | Some (Some v) => Some v | _ => None end in
  let h := parse_hint (dict_get (okey keepalive_hints_key) proxy) in
  let rest := dict_del (okey keepalive_hints_key) (dict_del (okey ari_version_key) proxy) in
  match negotiate k announced with
  | inr e =>
      {| ir_initialize := None; ir_listener := false; ir_reply := error_reply m e;
         ir_close_expected := close_before; ir_hint := h |}
  | inl adv =>
      let params := match local with Some l => dict_update rest l | None => rest end in
      match outcome with
      | IRaise e =>
          {| ir_initialize := Some params; ir_listener := false; ir_reply := error_reply m e;
             ir_close_expected := close_before; ir_hint := h |}
      | IRet =>
          let old := bytes_eqb adv (bs "1.8.0") || bytes_eqb adv (bs "1.8.2") in
          {| ir_initialize := Some params;
             ir_listener := match k with KData => true | KMeta => false end;
             ir_reply := if bytes_eqb adv (bs "1.8.0") then write_init_ok m []
                         else write_init_ok m [(ari_version_key, PStr adv)];
             ir_close_expected := if old then false else close_before;
             ir_hint := h |}
      end
  end.

(* the keepalive interval (seconds) in force once the init request has been
   handled, for any init outcome: _use_keep_alive_hint runs after the try block *)
Definition ka_after_init (configured : option Q) (r : init_result) : option Q :=
  match ir_hint r with
  | HAbsent => Some (ka_after configured None)
  | HValue q => Some (ka_after configured (Some q))
  | HMalformed => Some (ka_after configured None)      (* discarded: as if no hint had been sent *)
  | HUnmodelled => None
  end.
