(* Model/Writers.v — reply / notification writers: protocol._append_exceptions,
   _handle_exception, _write_init, write_credentials; data_protocol.write_* and
   _encode_value; metadata_protocol.write_*. *)
From Coq Require Import String List Ascii NArith ZArith Bool.
From LS Require Import Model.Bytes Model.Tags Gen.Consts Model.Quote Model.Base64 Model.Codec.
Import ListNotations.

Notation "x <~ r ;; k" := (wbind r (fun x => k)) (at level 61, r at next level, right associativity).

(* ---------- exceptions raised by adapters ---------- *)
Inductive exn_class :=
| ELib (c : lib_class)        (* exactly one of the ten library classes *)
| EUserSub (c : lib_class)    (* a user-defined subclass of library class c *)
| EForeign.                   (* any other Exception (RuntimeError, KeyError, ...) *)

Record exn := {
  e_class : exn_class;
  e_str : bytes;              (* str(e), UTF-8 *)
  e_code : Z;                 (* e.client_error_code, an int (credits-like classes) *)
  e_user_msg : pyval;         (* e.client_user_msg *)
  e_session : pyval           (* e.conflicting_session_id *)
}.

Definition base_class (e : exn) : option lib_class :=
  match e_class e with ELib c | EUserSub c => Some c | EForeign => None end.

(* isinstance(e, X) *)
Definition isinstance (e : exn) (X : lib_class) : bool :=
  match base_class e with Some c => lib_subclass c X | None => false end.

(* _EXCEPTIONS_MAP lookup by str(type(e)): exact class only *)
Definition exact_letter (e : exn) : option ascii :=
  match e_class e with ELib c => exceptions_map c | _ => None end.

Definition c_C : ascii := "C"%char.
Definition c_X : ascii := "X"%char.
Definition c_E : ascii := "E"%char.
Definition c_V : ascii := "V"%char.

(* _append_exceptions(response, error, subtype) *)
Definition append_exceptions (response : bytes) (e : exn) (subtype : bool) : wres bytes :=
  let letter := if subtype then exact_letter e else None in
  msg <~ encode_string (PStr (e_str e)) ;;
  match letter with
  | None => WOk (response ++ [c_pipe] ++ msg)
  | Some l =>
      if Ascii.eqb l c_C || Ascii.eqb l c_X then
        if isinstance e CCreditsError then
          um <~ encode_string (e_user_msg e) ;;
          if Ascii.eqb l c_X then
            if isinstance e CConflictingSessionError then
              sid <~ encode_string (e_session e) ;;
              WOk (response ++ join_pipe [[l]; msg; Z_to_dec (e_code e); um; sid])
            else WErr WOther            (* AttributeError *)
          else WOk (response ++ join_pipe [[l]; msg; Z_to_dec (e_code e); um])
        else WErr WOther                (* AttributeError *)
      else WOk (response ++ join_pipe [[l]; msg])
  end.

(* _handle_exception(exception, method, *excepted_errors) *)
Definition handle_exception (e : exn) (response : bytes) (designated : list lib_class) : wres bytes :=
  append_exceptions response e (existsb (isinstance e) designated).

(* designated exception classes per method: the tuples written in the write_* functions *)
Definition designated (m : meth) : list lib_class :=
  match m with
  | MDPI => [CDataProviderError]
  | MMPI => [CMetadataProviderError]
  | MSUB | MUSB => [CSubscribeError; CFailureError]
  | MNUS | MNUA => [CAccessError; CCreditsError]
  | MNNS => [CCreditsError; CNotificationError]
  | MNSC => [CNotificationError]
  | MGIS => [CItemsError]
  | MGSC => [CItemsError; CSchemaError]
  | MGIT | MGUI => []
  | MNUM | MNNT | MMDA | MMSA | MMDC => [CCreditsError; CNotificationError]
  | MNTC => [CNotificationError]
  | _ => []
  end.

Definition error_reply (m : meth) (e : exn) : wres bytes :=
  handle_exception e (join_pipe [meth_name m; [c_E]]) (designated m).

Definition void_reply (m : meth) : bytes := join_pipe [meth_name m; [c_V]].

(* ---------- init / credentials ---------- *)
(* _write_init(method, ..., proxy_parameters, exception=None): keys are not encoded *)
Fixpoint init_params (ps : list (bytes * pyval)) : wres (list bytes) :=
  match ps with
  | [] => WOk []
  | (k, v) :: r =>
      ev <~ encode_string v ;;
      rest <~ init_params r ;;
      WOk (k :: ev :: rest)
  end.

Definition write_init_ok (m : meth) (params : list (bytes * pyval)) : wres bytes :=
  if is_nil params then WOk (void_reply m)
  else ps <~ init_params params ;;
       WOk (join_pipe [meth_name m; bs "S"] ++ [c_pipe] ++ join_with (bs "|S|") ps).

Definition write_credentials (user password : pyval) : wres bytes :=
  u <~ (match user with PNone => WOk [] | _ => e <~ encode_string user ;; WOk [bs "user"; e] end) ;;
  p <~ (match password with PNone => WOk [] | _ => e <~ encode_string password ;; WOk [bs "password"; e] end) ;;
  t <~ encode_string (PStr (bs "true")) ;;
  s <~ encode_string (PStr (bs "Python Adapter SDK")) ;;
  WOk (join_pipe [meth_name MRAC; bs "S"] ++ [c_pipe]
       ++ join_with (bs "|S|") (u ++ p ++ [bs "enableClosePacket"; t; bs "SDK"; s])).

(* ---------- metadata replies ---------- *)
Definition write_notify_user (m : meth) (bw wants : pyval) : wres bytes :=
  d <~ encode_double bw ;;
  b <~ encode_boolean wants ;;
  WOk (join_pipe [meth_name m; bs "D"; d; bs "B"; b]).

(* iteration over an adapter-supplied sequence *)
Definition iter_of (v : pyval) : wres (list pyval) :=
  match v with
  | PList l => WOk l
  | PDict d => WOk (map fst d)
  | PStr _ | PBytes _ => WErr WUnmodelled     (* iterates characters / ints *)
  | _ => WErr WRemoting                       (* TypeError: not iterable -> RemotingException (fix 71617d3, finding F4) *)
  end.

Fixpoint enc_each (f : pyval -> wres bytes) (l : list pyval) : wres (list bytes) :=
  match l with
  | [] => WOk []
  | x :: r => e <~ f x ;; rest <~ enc_each f r ;; WOk (e :: rest)
  end.

(* write_get_items / write_get_schema (no exception) *)
Definition write_list_reply (m : meth) (items : pyval) : wres bytes :=
  if truthy items then
    l <~ iter_of items ;;
    es <~ enc_each encode_string l ;;
    WOk (join_pipe [meth_name m; bs "S"] ++ [c_pipe] ++ join_with (bs "|S|") es)
  else WOk (meth_name m).

(* write_get_item_data / write_get_user_item_data: per item (int, double, modes) *)
Definition enc_item_data (d : pyval * pyval * pyval) : wres bytes :=
  let '(i, f, ms) := d in
  ei <~ encode_integer i ;;
  ef <~ encode_double f ;;
  em <~ encode_modes ms ;;
  WOk (join_pipe [bs "I"; ei; bs "D"; ef; bs "M"; em]).

Fixpoint enc_items_data (l : list (pyval * pyval * pyval)) : wres (list bytes) :=
  match l with
  | [] => WOk []
  | x :: r => e <~ enc_item_data x ;; rest <~ enc_items_data r ;; WOk (e :: rest)
  end.

Definition write_item_data_reply (m : meth) (l : list (pyval * pyval * pyval)) : wres bytes :=
  if is_nil l then WOk (meth_name m)
  else es <~ enc_items_data l ;;
       WOk (meth_name m ++ [c_pipe] ++ join_pipe es).

(* ---------- data notifications ---------- *)
Definition encode_value (v : pyval) : wres bytes :=
  match v with
  | PNone | PStr _ => e <~ encode_string v ;; WOk (bs "S|" ++ e)
  | PBytes _ => e <~ encode_byte v ;; WOk (bs "Y|" ++ e)
  | _ => WErr WRemoting
  end.

Fixpoint enc_fields (d : list (pyval * pyval)) : wres (list bytes) :=
  match d with
  | [] => WOk []
  | (f, v) :: r =>
      ef <~ encode_string f ;;
      ev <~ encode_value v ;;
      rest <~ enc_fields r ;;
      WOk ((bs "S|" ++ ef ++ [c_pipe] ++ ev) :: rest)
  end.

Definition write_update_map (item rid issnapshot events : pyval) : wres bytes :=
  ei <~ encode_string item ;;
  er <~ encode_string rid ;;
  eb <~ encode_boolean issnapshot ;;
  let head := join_pipe [meth_name MUD3; bs "S"; ei; bs "S"; er; bs "B"; eb] in
  if truthy events then
    match events with
    | PDict d => fs <~ enc_fields d ;; WOk (head ++ [c_pipe] ++ join_pipe fs)
    | _ => WErr WOther                   (* AttributeError: no .items() *)
    end
  else WOk head.

Definition write_item_notify (m : meth) (item rid : pyval) : wres bytes :=
  ei <~ encode_string item ;;
  er <~ encode_string rid ;;
  WOk (join_pipe [meth_name m; bs "S"; ei; bs "S"; er]).

Definition write_eos := write_item_notify MEOS.
Definition write_cls := write_item_notify MCLS.

(* write_failure(exception): FAL|E|<str(exception)> *)
Definition write_failure (msg : bytes) : wres bytes :=
  e <~ encode_string (PStr msg) ;;
  WOk (join_pipe [meth_name MFAL; [c_E]; e]).
