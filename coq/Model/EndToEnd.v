(* Model/EndToEnd.v — one request line of an initialized Metadata server, from its bytes to
   the bytes written for it: Classify (dispatch) ; MetaHandlers (adapter calls, reply text) ;
   Envelope (request id, CRLF).  The composition of the wire-level models along the path
   on_received_request -> _handle_request -> _on_<m> -> execute_and_reply -> send_reply ->
   sender.  Executable definitions only. *)
From Coq Require Import String List Ascii NArith ZArith Bool.
From LS Require Import Model.Bytes Model.Tags Gen.Consts Model.Codec Model.Readers Model.Writers
                       Model.AriReply Model.MetaHandlers Model.Envelope Model.Classify.
Import ListNotations.

Inductive answer :=
| AnsWire (b : bytes)      (* exactly these bytes are written for the request *)
| AnsHandler               (* no line; the exception handler is notified once *)
| AnsNone                  (* no line, no notification (discarded line / stored exception) *)
| AnsUnmodelled.

Definition lift_result (id : bytes) (r : wres bytes) : answer :=
  match r with
  | WOk body => AnsWire (wire_message (reply_message id body))
  | WErr WRemoting => AnsHandler
  | WErr WOther => AnsNone
  | WErr WUnmodelled => AnsUnmodelled
  end.

Definition answer_of_job (id : bytes) (r : job_result) : answer :=
  match r with
  | JReply body => AnsWire (wire_message (reply_message id body))
  | JHandler => AnsHandler
  | JSilent => AnsNone
  | JUnmodelled => AnsUnmodelled
  end.

(* an initialized Metadata server (init done, not closed, pool accepting) receives [line];
   the adapter's successive calls have the outcomes [outs] *)
Definition answer_meta (line : bytes) (outs : list outcome) : list acall * answer :=
  match classify KMeta line with
  | CGarbage => ([], AnsNone)
  | CReq _ _ false => ([], AnsNone)              (* unknown method: discarded *)
  | CReq _ false true => ([], AnsHandler)        (* malformed: protocol error *)
  | CInit _ _ _ _ => ([], AnsHandler)            (* late init request: protocol error *)
  | CReq id true true =>
      match parse_request line with
      | Some p =>
          match meta_handler_of (p_method p) with
          | Some m =>
              match handle_tokens m (p_data p) outs with
              | Some (HJob cs r) => (cs, answer_of_job id r)
              | Some (HRejected _) => ([], AnsHandler)
              | None => ([], AnsUnmodelled)
              end
          | None => ([], AnsUnmodelled)
          end
      | None => ([], AnsUnmodelled)
      end
  | CClose _ _ | CUnmodelled => ([], AnsUnmodelled)
  end.
