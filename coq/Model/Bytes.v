(* Model/Bytes.v — byte strings and the Python str primitives the library uses
   on ASCII text.  Executable definitions only (no proofs here).

   Conventions (see DESIGN.md 2.1, 10):
   - a byte is [ascii]; wire text is [list ascii] ("bytes");
   - never pattern-match on ascii literals: compare with [Ascii.eqb] against the
     named constants below. *)
From Coq Require Import List Ascii String NArith ZArith Bool.
Import ListNotations.
Open Scope bool_scope.
Local Open Scope N_scope.

Definition byte := ascii.
Definition bytes := list ascii.

Definition bs (s : string) : bytes := list_ascii_of_string s.

Definition beq (a b : ascii) : bool := Ascii.eqb a b.

Fixpoint bytes_eqb (x y : bytes) : bool :=
  match x, y with
  | [], [] => true
  | a :: x', b :: y' => Ascii.eqb a b && bytes_eqb x' y'
  | _, _ => false
  end.

(* named characters *)
Definition c_pipe : ascii := "|"%char.
Definition c_hash : ascii := "#"%char.
Definition c_dollar : ascii := "$"%char.
Definition c_pct : ascii := "%"%char.
Definition c_plus : ascii := "+"%char.
Definition c_minus : ascii := "-"%char.
Definition c_us : ascii := "_"%char.
Definition c_space : ascii := " "%char.
Definition c_cr : ascii := ascii_of_N 13.
Definition c_lf : ascii := ascii_of_N 10.

Definition code (c : ascii) : N := N_of_ascii c.

Definition in_range (lo hi : N) (c : ascii) : bool :=
  (N.leb lo (code c)) && (N.leb (code c) hi).

Definition is_digit (c : ascii) : bool := in_range 48 57 c.
Definition is_upper (c : ascii) : bool := in_range 65 90 c.
Definition is_lower (c : ascii) : bool := in_range 97 122 c.
Definition is_alnum (c : ascii) : bool := is_digit c || is_upper c || is_lower c.

(* Python str.isspace() restricted to ASCII: \t \n \v \f \r, \x1c-\x1f, space *)
Definition is_space (c : ascii) : bool :=
  in_range 9 13 c || in_range 28 32 c.

(* ---------- split / join ---------- *)

(* Python  s.split(sep)  for a one-character separator: always >= 1 token *)
Fixpoint split_on (sep : ascii) (s : bytes) : list bytes :=
  match s with
  | [] => [[]]
  | c :: r =>
      if Ascii.eqb c sep then [] :: split_on sep r
      else match split_on sep r with
           | [] => [[c]]
           | t :: ts => (c :: t) :: ts
           end
  end.

(* Python  sep.join(l) *)
Fixpoint join_with (sep : bytes) (l : list bytes) : bytes :=
  match l with
  | [] => []
  | x :: r => match r with
              | [] => x
              | _ :: _ => x ++ sep ++ join_with sep r
              end
  end.

Definition join_pipe (l : list bytes) : bytes := join_with [c_pipe] l.

(* ---------- rstrip ---------- *)

(* Python  s.rstrip()  on ASCII text *)
Fixpoint rstrip (s : bytes) : bytes :=
  match s with
  | [] => []
  | c :: r => match rstrip r with
              | [] => if is_space c then [] else [c]
              | r' => c :: r'
              end
  end.

Fixpoint lstrip (s : bytes) : bytes :=
  match s with
  | [] => []
  | c :: r => if is_space c then lstrip r else s
  end.

Definition strip (s : bytes) : bytes := rstrip (lstrip s).

(* C isspace(): what int() skips around an ASCII numeral (NOT 0x1c-0x1f) *)
Definition is_cspace (c : ascii) : bool :=
  in_range 9 13 c || Ascii.eqb c c_space.

Fixpoint rstrip_c (s : bytes) : bytes :=
  match s with
  | [] => []
  | c :: r => match rstrip_c r with
              | [] => if is_cspace c then [] else [c]
              | r' => c :: r'
              end
  end.

Fixpoint lstrip_c (s : bytes) : bytes :=
  match s with
  | [] => []
  | c :: r => if is_cspace c then lstrip_c r else s
  end.

Definition strip_c (s : bytes) : bytes := rstrip_c (lstrip_c s).

Definition is_nil {A} (l : list A) : bool :=
  match l with [] => true | _ => false end.

(* ---------- startswith ---------- *)
Fixpoint starts_with (p s : bytes) : bool :=
  match p, s with
  | [], _ => true
  | a :: p', b :: s' => Ascii.eqb a b && starts_with p' s'
  | _ :: _, [] => false
  end.

(* ---------- hex ---------- *)

Definition hex_digit_upper (n : N) : ascii :=
  if N.ltb n 10 then ascii_of_N (48 + n) else ascii_of_N (55 + n).

Definition hex_val (c : ascii) : option N :=
  if is_digit c then Some (code c - 48)
  else if in_range 65 70 c then Some (code c - 55)
  else if in_range 97 102 c then Some (code c - 87)
  else None.

(* ---------- decimal integers ---------- *)

Definition digit_char (n : N) : ascii := ascii_of_N (48 + n).

(* digits of a positive number, most significant first; fuel = number of bits + 1
   is always enough since each step divides by 10. *)
Fixpoint dec_digits_fuel (fuel : nat) (n : N) (acc : bytes) : bytes :=
  match fuel with
  | O => acc
  | S f =>
      let q := N.div n 10 in
      let r := N.modulo n 10 in
      let acc' := digit_char r :: acc in
      if N.eqb q 0 then acc' else dec_digits_fuel f q acc'
  end.

Definition N_to_dec (n : N) : bytes :=
  dec_digits_fuel (S (N.to_nat (N.size n))) n [].

(* Python str(int) *)
Definition Z_to_dec (z : Z) : bytes :=
  match z with
  | Z0 => [digit_char 0]
  | Zpos p => N_to_dec (Npos p)
  | Zneg p => c_minus :: N_to_dec (Npos p)
  end.

(* Python int(s) for an ASCII str, base 10:
     strip C whitespace (\t \n \v \f \r space); optional sign; one or more digits with single
     underscores allowed between digits; at most 4300 digits. *)
Inductive int_tok := IDigit (d : N) | IUnder.

Fixpoint int_toks (s : bytes) : option (list int_tok) :=
  match s with
  | [] => Some []
  | c :: r =>
      match int_toks r with
      | None => None
      | Some ts =>
          if is_digit c then Some (IDigit (code c - 48) :: ts)
          else if Ascii.eqb c c_us then Some (IUnder :: ts)
          else None
      end
  end.

(* well-formed: starts with digit, ends with digit, no two underscores adjacent *)
Fixpoint int_wf (prev_digit : bool) (ts : list int_tok) : bool :=
  match ts with
  | [] => prev_digit
  | IDigit _ :: r => int_wf true r
  | IUnder :: r => prev_digit && int_wf false r
  end.

Fixpoint int_value (acc : N) (ts : list int_tok) : N :=
  match ts with
  | [] => acc
  | IDigit d :: r => int_value (acc * 10 + d) r
  | IUnder :: r => int_value acc r
  end.

Fixpoint count_digits (ts : list int_tok) : N :=
  match ts with
  | [] => 0
  | IDigit _ :: r => N.succ (count_digits r)
  | IUnder :: r => count_digits r
  end.

Definition max_str_digits : N := 4300.

Definition parse_int (s : bytes) : option Z :=
  let s1 := strip_c s in
  let '(neg, body) :=
    match s1 with
    | c :: r => if Ascii.eqb c c_minus then (true, r)
                else if Ascii.eqb c c_plus then (false, r)
                else (false, s1)
    | [] => (false, [])
    end in
  match int_toks body with
  | None => None
  | Some ts =>
      if int_wf false ts && N.leb (count_digits ts) max_str_digits then
        let v := Z.of_N (int_value 0 ts) in
        Some (if neg then Z.opp v else v)
      else None
  end.

(* ---------- splitlines(keepends=True) on ASCII text ---------- *)

(* line boundary characters other than CR/LF: \v \f \x1c \x1d \x1e *)
Definition is_other_boundary (c : ascii) : bool :=
  in_range 11 12 c || in_range 28 30 c.

(* [cur] is the current line accumulated in reverse *)
Fixpoint splitlines_aux (cur : bytes) (s : bytes) : list bytes :=
  match s with
  | [] => match cur with [] => [] | _ => [rev cur] end
  | c :: r =>
      if Ascii.eqb c c_lf || is_other_boundary c then
        rev (c :: cur) :: splitlines_aux [] r
      else if Ascii.eqb c c_cr then
        match r with
        | d :: r' =>
            if Ascii.eqb d c_lf then rev (d :: c :: cur) :: splitlines_aux [] r'
            else rev (c :: cur) :: splitlines_aux [] r
        | [] => [rev (c :: cur)]
        end
      else splitlines_aux (c :: cur) r
  end.

Definition splitlines_keep (s : bytes) : list bytes := splitlines_aux [] s.

Definition ends_with_lf (s : bytes) : bool :=
  match rev s with
  | c :: _ => Ascii.eqb c c_lf
  | [] => false
  end.

(* ---------- association lists as Python dicts (insertion ordered) ---------- *)

Section Dict.
  Context {V : Type}.
  Definition dict := list (option bytes * V).  (* keys may be None (decoded '#') *)

  Definition okey_eqb (a b : option bytes) : bool :=
    match a, b with
    | None, None => true
    | Some x, Some y => bytes_eqb x y
    | _, _ => false
    end.

  Fixpoint dict_mem (k : option bytes) (d : dict) : bool :=
    match d with
    | [] => false
    | (k', _) :: r => okey_eqb k k' || dict_mem k r
    end.

  Fixpoint dict_get (k : option bytes) (d : dict) : option V :=
    match d with
    | [] => None
    | (k', v) :: r => if okey_eqb k k' then Some v else dict_get k r
    end.

  (* d[k] = v : overwrite in place if present, else append *)
  Fixpoint dict_set (k : option bytes) (v : V) (d : dict) : dict :=
    match d with
    | [] => [(k, v)]
    | (k', v') :: r => if okey_eqb k k' then (k', v) :: r
                       else (k', v') :: dict_set k v r
    end.

  Fixpoint dict_del (k : option bytes) (d : dict) : dict :=
    match d with
    | [] => []
    | (k', v') :: r => if okey_eqb k k' then r else (k', v') :: dict_del k r
    end.

  (* dict built from pairs in order (dict comprehension) *)
  Definition dict_of_pairs (l : list (option bytes * V)) : dict :=
    fold_left (fun d kv => dict_set (fst kv) (snd kv) d) l [].

  (* d.update(e) *)
  Definition dict_update (d e : dict) : dict :=
    fold_left (fun d kv => dict_set (fst kv) (snd kv) d) e d.
End Dict.
Arguments dict V : clear implicits.
