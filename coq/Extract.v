(* Extract.v — extraction of the executable model for the correspondence driver.
   Compiled by the runner with the working directory set to ocaml/gen.
   ExtrOcamlBasic only: bool, option, unit, list, prod, sumbool, sumor are mapped
   to the OCaml types; Z, N, positive, Q, ascii stay the extracted inductives. *)
Require Coq.extraction.Extraction.
Require Import Coq.extraction.ExtrOcamlBasic.
From LS Require Import Model.Sx Model.Entry.
Extraction Language OCaml.
Extraction "model.ml" entry.
