(* Props/C02.v — Per-item subscribe/unsubscribe calls are serialized, ordered and paired.

   "For each item, the adapter's subscribe and unsubscribe invocations never
   overlap in time, happen in the order in which the corresponding requests
   arrived, and unsubscribe is invoked only when the immediately preceding
   invocation for that item was a subscribe that returned normally (so an
   unsubscription following a failed or skipped subscription is acknowledged
   without calling the adapter).  A subscription request is skipped only if a
   later request for the same item had already arrived; a subscription request
   that is the latest request received for its item is always executed."

   Statements only; proofs are in Proofs/Item*.v.  Vocabulary as in Props/C01.v:
   [reachable item s] = any interleaving, any adapter outcomes, arrivals alternate
   per item.  The properties are the monitors of Model/ItemSpec.v / ItemSpec2.v
   over the ghost history [s_hist s] (ECallB / ECallE = an adapter method is
   entered / left; ESkip = a subscription is processed as late):
   - [calls_ok h]: scanning h, no ECallB occurs while a call is open, every ECallE
     closes an open call, and at every ECallB KUsb the latest closed
     subscribe/unsubscribe invocation was a subscribe that returned (CRet);
   - [order_ok h]: every ECallB / ESkip concerns the oldest request not yet
     answered (position |replied so far| of the arrival sequence);
   - [kinds_ok h]: the snapshot query and subscribe are called for SUB requests,
     unsubscribe for USB requests;
   - [skips_ok h]: at every ESkip t some request that arrived after t has arrived.  *)
From Coq Require Import String List Ascii NArith ZArith Bool.
From LS Require Import Model.Bytes Model.Tags Gen.Consts Model.Codec Model.Writers Model.AriReply
  Model.Item Model.ItemSpec Model.ItemSpec2 Proofs.ItemInv Proofs.ItemGlobal.
From LS Require Proofs.ItemStruct Proofs.ItemLso Proofs.ItemMonA Proofs.ItemMonD.
Import ListNotations.

(* never overlap + pairing *)
Theorem c02_serial_and_paired : forall item s, reachable item s -> calls_ok (s_hist s) = true.
Proof.
  intros item s H. apply ItemLso.inv_calls_ok.
  pose proof (reachable_Inv item s H) as (_ & _ & _ & _ & _ & Hc). exact Hc.
Qed.

(* the mechanism behind it: at most one dequeuing job of the item is inside its
   loop at any time, whatever the pool size *)
Theorem c02_single_dequeuer : forall item s i j di dj,
  reachable item s ->
  nth_error (s_dqs s) i = Some di -> nth_error (s_dqs s) j = Some dj ->
  inloop di = true -> inloop dj = true -> i = j.
Proof.
  intros item s i j di dj H. destruct (inv_all_parts s (Inv_all s (reachable_Inv item s H))) as (Hs & _).
  apply ItemStruct.single_inloop. exact Hs.
Qed.

(* arrival order, right method *)
Theorem c02_arrival_order : forall item s, reachable item s -> order_ok (s_hist s) = true.
Proof. exact ItemMonD.order_ok_reachable. Qed.

Theorem c02_right_method : forall item s, reachable item s -> kinds_ok (s_hist s) = true.
Proof. exact ItemMonD.kinds_ok_reachable. Qed.

(* skipped only if a later request had already arrived *)
Theorem c02_skipped_only_if_later : forall item s, reachable item s -> skips_ok (s_hist s) = true.
Proof. exact ItemMonA.skips_ok_reachable. Qed.

(* the latest request of an item, if a subscription, is never skipped ... *)
Theorem c02_latest_not_skipped : forall item s t,
  reachable item s -> In (ESkip t) (s_hist s) -> last_task (arrived (s_hist s)) <> Some t.
Proof. exact ItemMonA.latest_not_skipped. Qed.

(* ... and once the machinery is at rest it has been executed: its id is the published one *)
Theorem c02_latest_executed : forall item s t,
  reachable item s -> quiescent s = true -> last_seen s = Some t -> t_sub t = true ->
  active_code s = Some (t_rid t) /\ In (ESetCode t) (s_hist s).
Proof. exact ItemMonD.latest_sub_published. Qed.

(* any number of items *)
Theorem c02_all_items : forall allowed g, greach allowed g -> forall i,
  calls_ok (s_hist (g i)) = true /\ order_ok (s_hist (g i)) = true /\ skips_ok (s_hist (g i)) = true.
Proof.
  intros allowed g Hg i. pose proof (greach_item allowed g Hg i) as Hr. repeat split.
  - eapply c02_serial_and_paired; exact Hr.
  - eapply c02_arrival_order; exact Hr.
  - eapply c02_skipped_only_if_later; exact Hr.
Qed.

(* the monitors do reject what the property forbids *)
Example c02_monitor_rejects :
  let t := {| t_rid := bs "r1"; t_sub := true |} in
  let u := {| t_rid := bs "r2"; t_sub := false |} in
  calls_ok [ECallB KSub t; ECallB KUsb u] = false /\                                  (* overlap *)
  calls_ok [ECallB KSub t; ECallE KSub t (CRaise late_exn); ECallB KUsb u] = false /\ (* unsubscribe after a failed subscribe *)
  calls_ok [ECallB KSub t; ECallE KSub t (CRet false); ECallB KUsb u; ECallE KUsb u (CRet false)] = true /\
  order_ok [EArr t; EArr u; ECallB KUsb u] = false /\
  skips_ok [EArr t; ESkip t] = false.
Proof. vm_compute. repeat split; reflexivity. Qed.

Print Assumptions c02_serial_and_paired.
Print Assumptions c02_single_dequeuer.
Print Assumptions c02_arrival_order.
Print Assumptions c02_right_method.
Print Assumptions c02_skipped_only_if_later.
Print Assumptions c02_latest_not_skipped.
Print Assumptions c02_latest_executed.
Print Assumptions c02_all_items.
Print Assumptions c02_monitor_rejects.
