(* Props/C20.v — Teardown: close requests stop the server; I/O failures reach the handler.

   "A close request with id 0 on a connection whose agreed protocol version supports it stops
   the server: already accepted worker tasks complete, the writer stops, the socket is closed
   and the exception handler is not invoked, whereas with an older agreed version the same
   line is ignored and a close request with any other id is a protocol error.  If instead the
   connection fails, with a read returning EOF or an error at any byte offset or the k-th
   write failing, the failure is reported to the application's I/O exception handler and the
   default reaction (process exit) happens iff no handler is installed or it returns True,
   while a read failure caused by the server's own close() is not reported.  close() may be
   called again without error."

   Statements only; proofs are in Proofs/ShellClose.v over the connection-level transition
   system Model/Shell.v (vocabulary as in Props/C04.v, Props/C10.v).  Faults are labels: the
   reader's recv returning b'' (ARecvEof) or raising (ARecvErr) at ANY point of the byte
   stream (between any two chunks: mid-line positions are chunk boundaries of the framing
   model, C15), raising because the server itself closed the socket (ARecvClosed), and the
   writer's sendall failing (ASend false) on ANY line.  [sh_close_expected]: the agreed
   version supports close requests (set by the init handling: Props/C11.v c11_close_flag).
   [settle s [LcClose id0 reason_ok]]: the reader dispatching a close line.  The close
   sequence (Server.close) is run step by step by the reader (RCl1..RCl4) or by an
   application thread (ThApp): stop flag, stop pill to the writer, join the writer, shut the
   pool down waiting for accepted jobs, close the socket.  History events: EHandIO th (I/O
   handler notified, or default handling when none installed), EExit (os._exit). *)
From Coq Require Import String List Ascii NArith ZArith Bool.
From LS Require Import Model.Bytes Model.Tags Model.AriReply Model.Shell Model.ShellSpec Proofs.ShellClose.
Import ListNotations.

(* ---- close request ---- *)
(* id 0, supported: the stop flag is raised and the reader starts the close sequence; no handler event *)
Theorem c20_close_honoured : forall s,
  sh_close_expected s = true ->
  let s' := settle s [LcClose true true] in
  sh_stop s' = true /\ sh_rpc s' = RCl1 /\ sh_hist s' = sh_hist s ++ [EStopFlag ThReader].
Proof. exact close_honoured. Qed.

(* older agreed version: the same line changes nothing (the reader goes on reading) *)
Theorem c20_close_ignored : forall s id0 rok,
  sh_close_expected s = false -> sh_init_expected s = false ->
  settle s [LcClose id0 rok] =
    (if sh_stop s then slog (set_reader s (sh_init_expected s) (sh_close_expected s) [] RDead) [EReaderEnd]
     else set_reader s (sh_init_expected s) (sh_close_expected s) [] RRecv).
Proof. exact close_ignored. Qed.

(* any other id: a protocol error (exception handler), the server is NOT stopped *)
Theorem c20_close_bad_id : forall s rok,
  sh_close_expected s = true ->
  let s' := settle s [LcClose false rok] in
  sh_stop s' = sh_stop s /\ sh_jobs s' = sh_jobs s /\ sh_outq s' = sh_outq s /\
  match sh_handler s with
  | HNone => exists tl, sh_hist s' = sh_hist s ++ EHand ThReader :: tl /\ (tl = [] \/ tl = [EReaderEnd])
  | HRet _ _ => sh_hist s' = sh_hist s /\ sh_rpc s' = RHandY
  end.
Proof. exact close_bad_id. Qed.

(* the close sequence: pill, then the join returns only when the writer has ended, then the pool shutdown
   returns only when every accepted job has ended, then the socket is closed *)
Theorem c20_close_sequence : forall s s1 s2 s3 s4,
  sh_rpc s = RCl1 ->
  step s ThReader (APut OStopPill) = Some s1 -> step s1 ThReader AJoin = Some s2 ->
  step s2 ThReader AShutdownWait = Some s3 -> step s3 ThReader ASockClose = Some s4 ->
  sh_rpc s1 = RCl2 /\ writer_dead s1 = true /\ sh_shutdown s2 = true /\ pool_drained s2 = true /\ sh_sock_closed s4 = true.
Proof. exact close_sequence_reader. Qed.

Theorem c20_join_waits_for_writer : forall s, sh_exited s = false -> sh_rpc s = RCl2 ->
  (step s ThReader AJoin <> None <-> writer_dead s = true).
Proof. exact join_waits_for_writer. Qed.

Theorem c20_shutdown_waits_for_pool : forall s, sh_exited s = false -> sh_rpc s = RCl3 ->
  (step s ThReader AShutdownWait <> None <-> pool_drained s = true).
Proof. exact shutdown_waits_for_pool. Qed.

(* in EVERY reachable state with the socket closed by the library: writer ended, pool drained, every
   accepted job completed *)
Theorem c20_closed_means_drained : forall k h n s, sreach k h n s -> inv_closed s = true.
Proof. exact inv_closed_reachable. Qed.

(* without a fault: no I/O handler notification, no process exit, whatever else happens (close
   requests, protocol errors, application close() included) ... *)
Theorem c20_no_fault_no_report : forall k h n ls s,
  run (shell_init k h n) ls = Some s -> existsb is_fault ls = false ->
  has_event is_handio (sh_hist s) = false /\ has_event is_exit (sh_hist s) = false /\ sh_exited s = false.
Proof. exact no_fault_no_report. Qed.

(* ... and once the writer has ended, everything enqueued before the stop pill was written *)
Theorem c20_writer_drains : forall k h n ls s,
  run (shell_init k h n) ls = Some s -> existsb is_fault ls = false -> sh_wpc s = WDead ->
  written_of (sh_hist s) = before_pill ThReader (puts_of (sh_hist s)).
Proof. exact writer_drains_before_pill. Qed.

(* ---- I/O failures ---- *)
(* process exit only after an I/O failure was reported (monitor exit_ok), along EVERY execution *)
Theorem c20_exit_only_after_report : forall k h n s, sreach k h n s -> exit_ok (sh_hist s) = true.
Proof. exact exit_ok_reachable. Qed.

(* a read returning EOF / raising while the server was not closed by itself: no handler installed =>
   reported by default handling and the process exits; handler installed => it is about to be asked;
   after the server's own stop flag: silent end of the reader *)
Theorem c20_read_fault : forall s a s',
  sh_exited s = false -> sh_rpc s = RRecv -> (a = ARecvEof \/ a = ARecvErr) -> sh_sock_closed s = false ->
  step s ThReader a = Some s' ->
  if sh_stop s then sh_hist s' = sh_hist s ++ [EReaderEnd] /\ sh_exited s' = false
  else match sh_handler s with
       | HNone => sh_hist s' = sh_hist s ++ [EHandIO ThReader; EExit] /\ sh_exited s' = true
       | HRet _ _ => sh_hist s' = sh_hist s /\ sh_rpc s' = RIoHand
       end.
Proof. exact read_fault_reported. Qed.

Theorem c20_own_close_silent : forall s s',
  sh_exited s = false -> sh_rpc s = RRecv -> sh_sock_closed s = true -> sh_stop s = true ->
  step s ThReader ARecvClosed = Some s' -> sh_hist s' = sh_hist s ++ [EReaderEnd] /\ sh_exited s' = false.
Proof. exact own_close_read_silent. Qed.

(* the installed handler decides: exit iff it returns True *)
Theorem c20_handler_decides_reader : forall s ret s' ex io,
  sh_exited s = false -> sh_rpc s = RIoHand -> sh_handler s = HRet ex io ->
  step s ThReader (AHandIO ret) = Some s' ->
  ret = io /\ sh_exited s' = ret /\ sh_rpc s' = RDead /\
  sh_hist s' = sh_hist s ++ (if ret then [EHandIO ThReader; EExit] else [EHandIO ThReader; EReaderEnd]).
Proof. exact io_handler_decides_reader. Qed.

(* a failing write of ANY line *)
Theorem c20_write_fault : forall s l s',
  sh_exited s = false -> sh_wpc s = WHand l -> step s ThWriter (ASend false) = Some s' ->
  match sh_handler s with
  | HNone => sh_hist s' = sh_hist s ++ [EHandIO ThWriter; EExit] /\ sh_exited s' = true /\ sh_wpc s' = WDead
  | HRet _ _ => sh_hist s' = sh_hist s /\ sh_wpc s' = WIoHand
  end.
Proof. exact write_fault_reported. Qed.

Theorem c20_handler_decides_writer : forall s ret s' ex io,
  sh_exited s = false -> sh_wpc s = WIoHand -> sh_handler s = HRet ex io ->
  step s ThWriter (AHandIO ret) = Some s' ->
  ret = io /\ sh_exited s' = ret /\ sh_wpc s' = WDead.
Proof. exact io_handler_decides_writer. Qed.

(* ---- close() again ---- *)
Theorem c20_reclose : forall s,
  sh_exited s = false -> sh_apc s = ADone -> (3 <= sh_start s)%nat -> inv_closed s = true -> sh_sock_closed s = true ->
  exists s5, run s [(ThApp, AStart); (ThApp, APut OStopPill); (ThApp, AJoin); (ThApp, AShutdownWait); (ThApp, ASockClose)] = Some s5 /\
             sh_apc s5 = ADone /\ sh_exited s5 = false.
Proof. exact reclose_possible. Qed.

(* the monitor rejects an exit that no I/O failure report precedes *)
Example c20_monitor_rejects :
  exit_ok [EHand ThReader; EExit] = false /\ exit_ok [EExit; EHandIO ThWriter] = false /\
  exit_ok [EHandIO ThWriter; EExit] = true.
Proof. vm_compute. repeat split; reflexivity. Qed.

(* a complete honoured close is reachable: start, init with a current version, close line, close sequence *)
Example c20_reachable_close :
  exists s, sreach KMeta HNone 1 s /\ sh_sock_closed s = true /\ sh_exited s = false /\
            has_event is_handio (sh_hist s) = false.
Proof.
  eexists. split.
  - exists [(ThStarter, AThreadStart); (ThStarter, APut ORac); (ThStarter, AThreadStart);
            (ThReader, ARecv [LcInit 0 true false false]);
            (ThReader, ACallB CInit); (ThReader, ACallE CInit true); (ThReader, APut (OInitReply 0 true));
            (ThReader, ARecv [LcClose true true]);
            (ThReader, APut OStopPill);
            (ThWriter, AGet); (ThWriter, ASend true); (ThWriter, AGet); (ThWriter, ASend true); (ThWriter, AGet);
            (ThReader, AJoin); (ThWorker 0, AWorkerExit); (ThReader, AShutdownWait); (ThReader, ASockClose)].
    vm_compute. reflexivity.
  - vm_compute. repeat split; reflexivity.
Qed.

(* ---- the k-th write failing, whatever it carries (timed writer loop, Model/SenderFault.v) ----
   The connection-level system above runs with keepalives off; the timed writer loop of C13 (Model/Sender.v) is
   extended with write faults: a run is a list of (label, ok), ok = false meaning that the sendall this label
   causes raised OSError.  [present h] = 1 iff a handler is installed, [exits_of h] = 1 iff none is installed
   or it returns True. *)
From Coq Require Import QArith.
From LS Require Import Model.Sender Model.SenderFault Proofs.SenderFaultProofs.

(* on every run from the start: without a fault nothing is reported and the exit primitive is not reached; with one, the
   handler (if any) is notified exactly once, the exit primitive is reached exactly once iff there is no handler or it
   returns True, the writer thread has ended, and sendall was called once more than it completed *)
Theorem c20_timed_fault_reported_once : forall h k ls f,
  frun h (fault_init k) ls = Some f ->
  match f_failed f with
  | None => f_reports f = 0%nat /\ f_exits f = 0%nat /\ f_attempts f = length (ss_out (f_s f))
  | Some _ => ss_alive (f_s f) = false /\ f_reports f = present h /\ f_exits f = exits_of h /\
              f_attempts f = S (length (ss_out (f_s f)))
  end.
Proof. exact fault_reported_once. Qed.

Theorem c20_exit_iff : forall h, exits_of h = 1%nat <-> (h = HAbsent \/ h = HReturns (Some true)).
Proof. exact exit_iff_no_handler_or_true. Qed.

(* the fault is reported alike whatever the line: a message, the answer to a pill, a timer KEEPALIVE *)
Theorem c20_fault_hits_any_write : forall h f l s' kind p line,
  f_failed f = None -> sstep (f_s f) l = Some s' -> written_by (f_s f) l = Some (kind, p, line) ->
  exists f', fstep h f l false = Some f' /\
             f_failed f' = Some (ss_now (f_s f), kind, line) /\
             f_reports f' = (f_reports f + present h)%nat /\
             f_exits f' = (f_exits f + exits_of h)%nat /\
             ss_out (f_s f') = ss_out (f_s f) /\ ss_alive (f_s f') = false.
Proof. exact fault_hits_any_write. Qed.

Theorem c20_timer_keepalive_fault_reported : forall h f s',
  f_failed f = None -> sstep (f_s f) SFire = Some s' ->
  exists f', fstep h f SFire false = Some f' /\
             f_failed f' = Some (ss_now (f_s f), WTimeout, keepalive_line) /\
             f_reports f' = (f_reports f + present h)%nat /\ f_exits f' = (f_exits f + exits_of h)%nat.
Proof. exact timer_keepalive_fault_reported. Qed.

(* after the fault: nothing more is written or attempted, no second report, no second exit *)
Theorem c20_nothing_after_fault : forall h ls f f',
  f_failed f <> None -> ss_alive (f_s f) = false -> frun h f ls = Some f' ->
  ss_out (f_s f') = ss_out (f_s f) /\ f_attempts f' = f_attempts f /\
  f_reports f' = f_reports f /\ f_exits f' = f_exits f /\ f_failed f' = f_failed f /\ ss_alive (f_s f') = false.
Proof. exact nothing_after_fault. Qed.

(* what reached the socket before the fault is what the fault-free writer (C13) wrote on the same prefix *)
Theorem c20_wire_before_fault : forall h k pre l post f,
  all_ok pre = true -> frun h (fault_init k) (pre ++ (l, false) :: post) = Some f ->
  exists s, srun (sender_init k) (labels_of pre) = Some s /\ ss_out (f_s f) = ss_out s /\
            exists kind p line, written_by s l = Some (kind, p, line) /\ f_failed f = Some (ss_now s, kind, line).
Proof. exact wire_before_fault. Qed.

(* fault-free runs are exactly the runs of Model/Sender.v: every C13 theorem applies to them *)
Theorem c20_fault_free_is_c13 : forall h ls f f',
  all_ok ls = true -> frun h f ls = Some f' ->
  srun (f_s f) (labels_of ls) = Some (f_s f') /\
  f_failed f' = f_failed f /\ f_reports f' = f_reports f /\ f_exits f' = f_exits f.
Proof. exact fault_free_refines. Qed.

(* non-vacuity: the second write, a timer KEEPALIVE, fails with no handler installed *)
Example c20_timed_fault_example :
  let ls := [(SPut 1 (Some (bs "1|MPI|V")), true); (SDelay 1, true); (SFire, false); (SDelay 5, true); (SPut 2 (Some (bs "x")), true)] in
  match frun HAbsent (fault_init 1) ls with
  | Some f => f_attempts f = 2%nat /\ f_reports f = 0%nat /\ f_exits f = 1%nat /\ length (ss_out (f_s f)) = 1%nat /\
              f_failed f = Some (1, WTimeout, keepalive_line)
  | None => False
  end.
Proof. exact fault_example. Qed.

Print Assumptions c20_close_honoured.
Print Assumptions c20_close_ignored.
Print Assumptions c20_close_bad_id.
Print Assumptions c20_close_sequence.
Print Assumptions c20_join_waits_for_writer.
Print Assumptions c20_shutdown_waits_for_pool.
Print Assumptions c20_closed_means_drained.
Print Assumptions c20_no_fault_no_report.
Print Assumptions c20_writer_drains.
Print Assumptions c20_exit_only_after_report.
Print Assumptions c20_read_fault.
Print Assumptions c20_own_close_silent.
Print Assumptions c20_handler_decides_reader.
Print Assumptions c20_write_fault.
Print Assumptions c20_handler_decides_writer.
Print Assumptions c20_reclose.
Print Assumptions c20_monitor_rejects.
Print Assumptions c20_reachable_close.
Print Assumptions c20_timed_fault_reported_once.
Print Assumptions c20_exit_iff.
Print Assumptions c20_fault_hits_any_write.
Print Assumptions c20_timer_keepalive_fault_reported.
Print Assumptions c20_nothing_after_fault.
Print Assumptions c20_wire_before_fault.
Print Assumptions c20_fault_free_is_c13.
Print Assumptions c20_timed_fault_example.
