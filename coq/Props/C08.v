(* Props/C08.v — Adapter exceptions map to the protocol's error subtype, payload intact.

   "When an adapter method raises, the error reply for that request carries the
   subtype code the ARI protocol designates for the exception's class iff that
   class is one the method is allowed to signal ..., and the generic code for
   any unrelated exception class.  The first payload token decodes to
   str(exception); a CreditsError additionally carries its client error code and
   its user message (None distinguishable from empty), a ConflictingSessionError
   also the conflicting session id, each recoverable exactly."

   Statements only; proofs are in Proofs/ErrorProofs.v.
   - [error_reply m e] (Model/Writers.v) is the library: the write_* function of
     method m called with exception=e (_handle_exception / _append_exceptions),
     with the per-method tuples of designated classes.
   - [decode_error] (Model/AriReply.v) is the reference decoder of a conforming
     Proxy Adapter; [spec_designated m c] / [spec_letter c] are the protocol's
     table (adapter interface docstrings), [spec_pair_in_scope] excludes
     ConflictingSessionError outside notify_new_session (unspecified).
   - The subtype letters and the subclass relation the model uses are
     [exceptions_map] / [lib_subclass] of Gen/Consts.v, regenerated from the live
     _EXCEPTIONS_MAP and class objects on every run: a changed letter or class
     hierarchy breaks these theorems.
   - [mk_exn cls msg code um sid]: an exception of class cls with str(e) = msg
     (any byte string, empty included), client_error_code = code,
     client_user_msg = um and conflicting_session_id = sid (texts: None or any
     byte string).  [int_len_ok code]: the code prints in at most 4300 digits. *)
From Coq Require Import String List Ascii NArith ZArith Bool.
From LS Require Import Model.Bytes Model.Tags Gen.Consts Model.Codec
  Model.Writers Model.AriReply Proofs.ErrorProofs.
Import ListNotations.

Theorem c08_library_classes : forall m c msg code um sid,
  In m request_methods -> spec_pair_in_scope m c = true -> int_len_ok code ->
  exists line, error_reply m (mk_exn (ELib c) msg code um sid) = WOk line /\
    decode_error line = Some {|
      er_method := meth_name m;
      er_subtype := if spec_designated m c then Some (spec_letter c) else None;
      er_msg := Some msg;
      er_code := if spec_designated m c && credits_like c then Some code else None;
      er_user_msg := if spec_designated m c && credits_like c then Some um else None;
      er_session := if spec_designated m c && is_conflicting c then Some sid else None |} /\
    ~ In c_cr line /\ ~ In c_lf line.
Proof. exact error_reply_lib. Qed.

Theorem c08_unrelated_class : forall m msg code um sid,
  In m request_methods ->
  exists line, error_reply m (mk_exn EForeign msg code um sid) = WOk line /\
    decode_error line = Some {| er_method := meth_name m; er_subtype := None; er_msg := Some msg;
                                er_code := None; er_user_msg := None; er_session := None |}.
Proof. exact error_reply_foreign. Qed.

Theorem c08_user_subclass : forall m c msg code um sid,
  In m request_methods ->
  exists line, error_reply m (mk_exn (EUserSub c) msg code um sid) = WOk line /\
    decode_error line = Some {| er_method := meth_name m; er_subtype := None; er_msg := Some msg;
                                er_code := None; er_user_msg := None; er_session := None |}.
Proof. exact error_reply_user_subclass. Qed.

Theorem c08_table_matches_spec : forall m c,
  In m request_methods -> spec_pair_in_scope m c = true ->
  existsb (fun X => lib_subclass c X) (designated m) = spec_designated m c.
Proof. exact designated_matches_spec. Qed.

Theorem c08_letters_match_spec : forall c, exceptions_map c = Some (spec_letter c).
Proof. exact letters_match_spec. Qed.

(* the protocol's table, spelled out to be read against the property text *)
Example c08_table_readable :
  map (fun m => filter (spec_designated m) all_lib_classes) request_methods =
  [ [CDataProviderError];                                   (* DPI *)
    [CSubscribeError; CFailureError];                       (* SUB *)
    [CSubscribeError; CFailureError];                       (* USB *)
    [CMetadataProviderError];                               (* MPI *)
    [CAccessError; CCreditsError];                          (* NUS *)
    [CAccessError; CCreditsError];                          (* NUA *)
    [CNotificationError; CCreditsError; CConflictingSessionError]; (* NNS *)
    [CNotificationError];                                   (* NSC *)
    [CItemsError];                                          (* GIS *)
    [CItemsError; CSchemaError];                            (* GSC *)
    [];                                                     (* GIT *)
    [];                                                     (* GUI *)
    [CNotificationError; CCreditsError];                    (* NUM *)
    [CNotificationError; CCreditsError];                    (* NNT *)
    [CNotificationError];                                   (* NTC *)
    [CNotificationError; CCreditsError];                    (* MDA *)
    [CNotificationError; CCreditsError];                    (* MSA *)
    [CNotificationError; CCreditsError] ].                  (* MDC *)
Proof. vm_compute. reflexivity. Qed.

(* non-vacuity: a ConflictingSessionError raised by notify_new_session with an
   EMPTY user message and a session id containing the separator *)
Example c08_example :
  error_reply MNNS (mk_exn (ELib CConflictingSessionError) (bs "dup|session") (-7) (Some []) (Some (bs "S 1|x")))
  = WOk (bs "NNS|EX|dup%7Csession|-7|$|S+1%7Cx").
Proof. vm_compute. reflexivity. Qed.

Print Assumptions c08_library_classes.
Print Assumptions c08_unrelated_class.
Print Assumptions c08_user_subclass.
Print Assumptions c08_table_matches_spec.
Print Assumptions c08_letters_match_spec.
Print Assumptions c08_table_readable.
Print Assumptions c08_example.
