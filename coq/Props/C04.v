(* Props/C04.v — Every Metadata request is answered once and dispatched once.

   "After initialization, every well-formed Metadata request of a protocol method is
   answered with exactly one reply carrying its request id and method name, and the
   corresponding adapter method(s) are invoked exactly once with the decoded
   arguments, for any pool size, any interleaving of concurrent requests and any
   adapter outcome: a normal return yields the data reply and any raised Exception
   yields an error reply.  Only a return value of the wrong type suppresses the
   reply, and then the exception handler is notified exactly once and later requests
   are unaffected."

   Statements only; proofs are in Proofs/ShellPool.v.
   - Model/Shell.v is the connection-level transition system; [sreach k h n s]: s is
     reached from a fresh server of kind k with handler h and n pool workers by ANY
     finite sequence of steps of the starter, reader, writer, workers, application
     and adapter threads (any interleaving, any chunking, any adapter outcomes,
     faults included).  A well-formed request of a known method read after the init
     request is handed to the pool as a job [JMeta rid] ([settle] / [submit]).
   - a Metadata job is: adapter calls (each of them on the worker, bracketed
     ECallB / ECallE), then EXACTLY ONE of {EPut (OReply rid) — the data reply when
     the calls returned, the error reply when one raised (contents: C07, C08; which
     adapter methods with which arguments: C06) —, EHand — the encoder rejected a
     wrong-typed return value —}, then EJobEnd.  The monitor [pool_ok]
     (Model/ShellSpec.v) scans the history for exactly that discipline.
   - [sreach_env]: additionally the request ids sent by the Proxy Adapter are distinct. *)
From Coq Require Import String List Ascii NArith ZArith Bool.
From LS Require Import Model.Bytes Model.Tags Model.AriReply Model.Shell Model.ShellSpec Proofs.ShellPool.
Import ListNotations.

(* every job started once, in FIFO order; each Metadata job: calls, then exactly one of
   {reply with ITS OWN request id, handler notification}, then its end; no second outcome *)
Theorem c04_pool_discipline : forall k h n s, sreach k h n s -> pool_ok (sh_hist s) = true.
Proof. exact pool_ok_reachable. Qed.

(* at most one reply per request id *)
Theorem c04_reply_at_most_once : forall h n s,
  sreach_env KMeta h n s -> nodup_nat (replies_of (sh_hist s)) = true.
Proof. exact replies_nodup_reachable. Qed.

(* when the pool is at rest every accepted request has been processed to its end ... *)
Theorem c04_all_jobs_end : forall k h n s, sreach k h n s -> pool_quiet s = true ->
  ended_jobs (sh_hist s) = submitted_jobs (sh_hist s).
Proof. exact quiet_all_ended. Qed.

(* ... and has produced exactly one outcome (reply or handler notification): as many outcomes as
   jobs, at most one per job by c04_pool_discipline *)
Theorem c04_one_outcome_each : forall h n s, sreach KMeta h n s -> pool_quiet s = true ->
  outcome_events (sh_hist s) = submitted_jobs (sh_hist s).
Proof. exact meta_quiet_one_outcome_each. Qed.

(* isolated: a step of one worker changes neither the state of any other worker nor the queue order *)
Theorem c04_isolated : forall s w a s' w',
  step s (ThWorker w) a = Some s' -> w' <> w ->
  (forall j, a <> AJobStart j) ->
  nth_error (sh_workers s') w' = nth_error (sh_workers s) w' /\ sh_jobs s' = sh_jobs s.
Proof.
  intros s w a s' w' H Hne Hj.
  assert (Hupd : forall l u v x, v <> u -> nth_error (updw u x l) v = nth_error l v).
  { induction l as [|y l IH]; intros u v x Huv; destruct u; destruct v; cbn; try reflexivity; try congruence.
    apply IH. congruence. }
  unfold step in H. destruct (sh_exited s); [discriminate|].
  destruct a; try discriminate; try (exfalso; eapply Hj; reflexivity);
    repeat match type of H with
           | context [match ?x with _ => _ end] => destruct x eqn:?; try discriminate
           end;
    inversion H; subst; cbn; rewrite ?(Hupd _ _ _ _ Hne); split; reflexivity.
Qed.

(* the monitor rejects what the property forbids *)
Example c04_monitor_rejects :
  let sub := ESubmit 0 (JMeta 5) in
  pool_ok [sub; EJobStart 0 0; EPut (ThWorker 0) (OReply 5); EPut (ThWorker 0) (OReply 5)] = false /\   (* two replies *)
  pool_ok [sub; EJobStart 0 0; EPut (ThWorker 0) (OReply 6)] = false /\                                (* reply with another id *)
  pool_ok [sub; EJobStart 0 0; EJobEnd 0 0] = false /\                                                 (* no reply and no handler *)
  pool_ok [sub; EJobStart 0 0; EHand (ThWorker 0); EPut (ThWorker 0) (OReply 5)] = false /\            (* handler AND reply *)
  pool_ok [sub; EJobStart 0 0; EJobStart 1 0] = false /\                                               (* dispatched twice *)
  pool_ok [sub; ECallB ThReader COther] = false /\                                                     (* adapter called off the pool *)
  pool_ok [sub; EJobStart 0 0; ECallB (ThWorker 0) COther; ECallE (ThWorker 0) COther false;
           EPut (ThWorker 0) (OReply 5); EJobEnd 0 0] = true.
Proof. vm_compute. repeat split; reflexivity. Qed.

Print Assumptions c04_pool_discipline.
Print Assumptions c04_reply_at_most_once.
Print Assumptions c04_all_jobs_end.
Print Assumptions c04_one_outcome_each.
Print Assumptions c04_isolated.
Print Assumptions c04_monitor_rejects.

(* ------------------------------------------------------------------------------------------
   Content of the job: WHICH adapter methods, with WHICH of the decoded values in which
   argument position, how the values returned / the exception raised become the reply.
   Model/MetaHandlers.v mirrors _on_nus ... _on_mdc and execute_and_reply; proofs in
   Proofs/MetaHandlersProofs.v.
   - [spec_calls q] (specification side, restated independently in the harness and compared on
     every run) is the interface table: the adapter calls request q stands for, a function of
     the request alone;
   - [handle_tokens m d outs]: the server's treatment of the tokens d of a request of method m
     when the successive adapter calls have the outcomes outs (ORet v / ORaise e; any script);
   - [n_calls q outs]: the whole table, or up to and including the first call that raises. *)
From LS Require Import Model.Codec Model.Readers Model.Writers Model.AriSpec Model.MetaHandlers
                       Proofs.ReadersRoundtrip Proofs.MetaHandlersProofs.

(* every entry of the interface table once, in table order, cut only by a raising call *)
Theorem c04_calls : forall m q p outs,
  MetaHandlers.handler m q = Some p ->
  fst (exec m p outs) = firstn (n_calls q outs) (spec_calls q).
Proof. exact exec_calls. Qed.

(* a normal return yields the data reply built from the returned values (decodable: C07) ... *)
Theorem c04_data_reply : forall m q p outs,
  MetaHandlers.handler m q = Some p ->
  first_raise outs (length (spec_calls q)) = None ->
  snd (exec m p outs) = spec_data_reply m q outs.
Proof. exact exec_reply_ok. Qed.

(* ... any raised exception yields the error reply of the method for it (its form: C08) *)
Theorem c04_error_reply : forall m q p outs i e,
  MetaHandlers.handler m q = Some p ->
  first_raise outs (length (spec_calls q)) = Some (i, e) ->
  snd (exec m p outs) = error_reply m e.
Proof. exact exec_reply_err. Qed.

(* end to end with the request codec: for EVERY well-formed encoded request of the 14 post-init
   methods (any argument values) and EVERY script of adapter outcomes, the adapter receives the
   interface table of the ENCODED values, and the job's result is the data reply / error reply *)
Theorem c04_decoded_arguments : forall m q outs,
  post_init_meta m = true -> shape_ok m q = true -> ints_ok q ->
  exists r,
    handle_tokens m (encode_args q) outs =
      Some (HJob (firstn (n_calls (expected q) outs) (spec_calls (expected q))) r)
    /\ (first_raise outs (length (spec_calls (expected q))) = None ->
          r = job_result_of (spec_data_reply m (expected q) outs))
    /\ (forall i e, first_raise outs (length (spec_calls (expected q))) = Some (i, e) ->
          r = job_result_of (error_reply m e)).
Proof. exact handle_encoded. Qed.

(* a request its reader rejects touches no adapter method *)
Theorem c04_rejected_no_call : forall m d outs msg,
  post_init_meta m = true -> read_request m d = PErr msg ->
  handle_tokens m d outs = Some (HRejected msg).
Proof. exact handle_rejected. Qed.

(* the reply is suppressed only through the encoder's rejection of a returned value: the three
   possible results of a job, and which one a writer result gives *)
Theorem c04_result_cases : forall r,
  (exists l, r = WOk l /\ job_result_of r = JReply l) \/
  (r = WErr WRemoting /\ job_result_of r = JHandler) \/
  (r = WErr WOther /\ job_result_of r = JSilent) \/
  (r = WErr WUnmodelled /\ job_result_of r = JUnmodelled).
Proof.
  intros [l|[| |]]; [left; exists l; split; reflexivity | right; left | right; right; left | right; right; right];
  split; reflexivity.
Qed.

(* non-vacuity: a GIT request for two items makes 12 calls; a raise in the 8th stops there *)
Example c04_git_example :
  let q := QGIT [Some (bs "a"); Some (bs "b")] in
  exists p, MetaHandlers.handler MGIT q = Some p /\
            length (fst (exec MGIT p [])) = 12 /\ length (spec_calls q) = 12.
Proof. eexists; split; [reflexivity | split; vm_compute; reflexivity]. Qed.

Print Assumptions c04_calls.
Print Assumptions c04_data_reply.
Print Assumptions c04_error_reply.
Print Assumptions c04_decoded_arguments.
Print Assumptions c04_rejected_no_call.
Print Assumptions c04_result_cases.
Print Assumptions c04_git_example.

(* ------------------------------------------------------------------------------------------
   Progress: an accepted request is not left unanswered because the pool got stuck by itself
   (Proofs/ShellProgress.v).  [worker_next s w]: the library-side action worker w can take next
   (None: idle with an empty queue, exited, or inside an adapter call — whose return is the
   adapter's move).  The abstraction does not bound the number of adapter calls of a job, so this
   is enabledness (no deadlock), not a termination bound; at rest every job has ended with exactly
   one outcome (c04_all_jobs_end, c04_one_outcome_each). *)
From LS Require Import Proofs.ShellProgress.

(* whatever the worker is about to do is enabled in every reachable state *)
Theorem c04_worker_next_enabled : forall k h n s w a,
  sreach k h n s -> sh_exited s = false -> worker_next s w = Some a ->
  step s (ThWorker w) a <> None.
Proof. exact worker_next_enabled. Qed.

(* a worker that is neither waiting for work, nor gone, nor inside an adapter call has a move *)
Theorem c04_worker_can_move : forall k h n s w st,
  sreach k h n s -> sh_exited s = false -> nth_error (sh_workers s) w = Some st ->
  st <> KExited -> in_call st = false -> (st = KIdle -> sh_jobs s <> [] \/ sh_shutdown s = true) ->
  exists a, step s (ThWorker w) a <> None.
Proof. exact worker_can_move. Qed.

(* accepted jobs are never stranded: while a job is queued, not every worker has exited (both server kinds) *)
Theorem c04_never_stranded : forall k h n s,
  sreach k h n s -> (1 <= n)%nat -> sh_jobs s <> [] ->
  exists w st, nth_error (sh_workers s) w = Some st /\ st <> KExited.
Proof. exact queued_job_has_a_worker. Qed.

(* with a queued job, unless every live worker is inside an adapter call, some worker can move *)
Theorem c04_pool_not_stuck : forall k h n s,
  sreach k h n s -> (1 <= n)%nat -> sh_exited s = false -> sh_jobs s <> [] ->
  (exists w st, nth_error (sh_workers s) w = Some st /\ st <> KExited /\ in_call st = false) ->
  exists w a, step s (ThWorker w) a <> None.
Proof. exact pool_not_stuck. Qed.

(* the writer: in every reachable state a queued line can be taken and a taken line can be written *)
Theorem c04_writer_can_move : forall k h n s l,
  sreach k h n s -> sh_exited s = false ->
  (sh_wpc s = WWait -> sh_outq s <> [] -> step s ThWriter AGet <> None) /\
  (sh_wpc s = WHand l -> step s ThWriter (ASend true) <> None).
Proof. exact writer_can_move_reachable_partial. Qed.

Print Assumptions c04_worker_next_enabled.
Print Assumptions c04_worker_can_move.
Print Assumptions c04_never_stranded.
Print Assumptions c04_pool_not_stuck.
Print Assumptions c04_writer_can_move.

(* ------------------------------------------------------------------------------------------
   End to end (Model/EndToEnd.v = Classify ; MetaHandlers ; Envelope): from the BYTES of a request
   line received by an initialized Metadata server to the adapter calls made and the BYTES written
   for it, for every well-formed encoded request of the 14 methods, every request id, either
   terminator and every script of adapter outcomes. *)
From LS Require Import Model.Envelope Model.Classify Model.EndToEnd Proofs.EndToEndProofs.

Theorem c04_end_to_end : forall id m q term outs,
  wf_id id = true -> post_init_meta m = true -> shape_ok m q = true -> ints_ok q ->
  forallb is_space term = true ->
  answer_meta (encode_line id m q term) outs =
    (firstn (n_calls (expected q) outs) (spec_calls (expected q)),
     match first_raise outs (length (spec_calls (expected q))) with
     | None => lift_result id (spec_data_reply m (expected q) outs)
     | Some (_, e) => lift_result id (error_reply m e)
     end).
Proof. exact answer_meta_encoded. Qed.

(* a written line is "<request id>|<reply text>" CRLF, and the id comes off as the first token *)
Theorem c04_reply_carries_id : forall id body,
  ~ In c_pipe id ->
  lift_result id (WOk body) = AnsWire (reply_message id body ++ [c_cr; c_lf]) /\
  open_envelope (reply_message id body) = Some (id, split_on c_pipe body).
Proof. exact answer_wire_opens. Qed.

(* nothing but a well-formed request of a known method reaches the adapter *)
Theorem c04_no_call_otherwise : forall line outs,
  (forall id, classify KMeta line <> CReq id true true) ->
  fst (answer_meta line outs) = [].
Proof. exact answer_meta_no_call. Qed.

Print Assumptions c04_end_to_end.
Print Assumptions c04_reply_carries_id.
Print Assumptions c04_no_call_otherwise.
