(* Props/C03.v — Item events reach the live subscription: none lost, mis-tagged or stale.

   "Every update, end-of-snapshot or clear-snapshot notification on the wire names
   the item it was submitted for and carries the request id of a subscription
   request for that same item that the library executed rather than skipped.  An
   event the adapter submits from inside subscribe(), or after a successful
   subscribe() and before the matching unsubscribe() call begins, is always
   forwarded with that subscription's id; an event submitted while the item has no
   subscription (never subscribed, or its unsubscription fully processed) is
   dropped, and an event submitted after a newer subscribe() call has begun never
   carries an older id."

   Statements only; proofs are in Proofs/Item*.v.  Vocabulary as in Props/C01.v.
   Listener calls are steps of the LTS: ELisB o k (origin o — the library itself,
   adapter code nested in a call of dequeuer job j, adapter-owned thread l — begins
   a call of kind k), then either ENotif o k rid line (forwarded: the line was
   enqueued) or ELisDropped o k.  [notif_line item rid k] is the library's encoding
   (data_protocol.write_update_map / write_eos / write_cls, C07).  *)
From Coq Require Import String List Ascii NArith ZArith Bool.
From LS Require Import Model.Bytes Model.Tags Gen.Consts Model.Codec Model.Writers Model.AriReply
  Model.Item Model.ItemSpec Model.ItemSpec2 Proofs.ItemInv Proofs.ItemGlobal.
From LS Require Proofs.ItemCode Proofs.ItemMonB Proofs.ItemMonC Proofs.ItemMonD.
Import ListNotations.

(* names the item it was submitted for: the line is the encoding of (item, id, event) *)
Theorem c03_item_and_payload : forall item s o k rid line,
  reachable item s -> In (ENotif o k rid line) (s_hist s) -> notif_line item rid k = WOk line.
Proof. exact ItemMonB.notif_lines. Qed.

(* carries the id of a subscription the library executed (published) ... *)
Theorem c03_id_published : forall item s, reachable item s -> notif_ids_published (s_hist s) = true.
Proof. exact ItemMonB.notif_ids_published_reachable. Qed.

(* ... never of a skipped one *)
Theorem c03_published_not_skipped : forall item s t,
  reachable item s -> In (ESetCode t) (s_hist s) -> ~ In (ESkip t) (s_hist s).
Proof. exact ItemMonB.published_not_skipped. Qed.

(* from inside subscribe(): forwarded, with that subscription's id *)
Theorem c03_inside_subscribe : forall item s, reachable item s -> nested_ok (s_hist s) = true.
Proof. exact ItemMonB.nested_ok_reachable. Qed.

(* after a successful subscribe() and before the next unsubscribe()/subscribe() call begins *)
Theorem c03_between : forall item s, reachable item s -> between_ok (s_hist s) = true.
Proof. exact ItemMonC.between_ok_reachable. Qed.

(* no subscription: a listener call that reads while no id is published is dropped;
   nothing is published before the first executed subscription, after an
   unsubscription was fully processed, or (C19) in a quiescent state after a USB *)
Theorem c03_dropped : forall item s l k s',
  reachable item s -> hist_code (s_hist s) = None ->
  nth_error (s_lis s) l = Some (LRead k) -> step s (LbFreeLockM l) = Some s' ->
  s_hist s' = s_hist s ++ [ELisDropped (OFree l) k] /\ nth_error (s_lis s') l = Some LIdle.
Proof.
  intros item s l k s' H. destruct (inv_all_parts s (Inv_all s (reachable_Inv item s H))) as (_ & _ & _ & _ & Hc & _).
  apply ItemCode.free_read_dropped. exact Hc.
Qed.

Theorem c03_never_subscribed : forall h, (forall t, ~ In (ESetCode t) h) -> hist_code h = None.
Proof. exact ItemCode.no_setcode_no_code. Qed.

Theorem c03_after_unsubscription : forall item s t,
  reachable item s -> quiescent s = true -> last_seen s = Some t -> t_sub t = false ->
  s_active s = None /\ active_code s = None /\ hist_code (s_hist s) = None.
Proof. exact ItemMonD.quiescent_after_usb_clean. Qed.

(* never an older id once a newer subscribe() has begun *)
Theorem c03_no_stale_id : forall item s, reachable item s -> stale_ok (s_hist s) = true.
Proof. exact ItemMonC.stale_ok_reachable. Qed.

Theorem c03_all_items : forall allowed g, greach allowed g -> forall i,
  notif_ids_published (s_hist (g i)) = true /\ nested_ok (s_hist (g i)) = true /\
  between_ok (s_hist (g i)) = true /\ stale_ok (s_hist (g i)) = true.
Proof.
  intros allowed g Hg i. pose proof (greach_item allowed g Hg i) as Hr. repeat split.
  - eapply c03_id_published; exact Hr.
  - eapply c03_inside_subscribe; exact Hr.
  - eapply c03_between; exact Hr.
  - eapply c03_no_stale_id; exact Hr.
Qed.

(* the monitors do reject what the property forbids *)
Example c03_monitor_rejects :
  let t := {| t_rid := bs "r1"; t_sub := true |} in
  let t3 := {| t_rid := bs "r3"; t_sub := true |} in
  nested_ok [ECallB KSub t; ELisB (ONested 0) LEos; ELisDropped (ONested 0) LEos] = false /\
  nested_ok [ECallB KSub t; ELisB (ONested 0) LEos; ENotif (ONested 0) LEos (bs "r0") []] = false /\
  between_ok [ECallE KSub t (CRet false); ELisB (OFree 0) LCls; ELisDropped (OFree 0) LCls] = false /\
  stale_ok [EArr t; EArr t3; ECallB KSub t3; ELisB (OFree 0) LCls; ENotif (OFree 0) LCls (bs "r1") []] = false /\
  notif_ids_published [ENotif OLib LEos (bs "r1") []] = false.
Proof. vm_compute. repeat split; reflexivity. Qed.

Print Assumptions c03_item_and_payload.
Print Assumptions c03_id_published.
Print Assumptions c03_published_not_skipped.
Print Assumptions c03_inside_subscribe.
Print Assumptions c03_between.
Print Assumptions c03_dropped.
Print Assumptions c03_never_subscribed.
Print Assumptions c03_after_unsubscription.
Print Assumptions c03_no_stale_id.
Print Assumptions c03_all_items.
Print Assumptions c03_monitor_rejects.
