(* Props/C09.v — Malformed requests fail cleanly (decoding part).

   "For any sequence of argument tokens following a protocol method name,
   request decoding either succeeds or fails with the library's protocol error
   naming the method being parsed; no other exception type escapes.  A request
   that is truncated inside its fixed fields, carries a wrong type marker, a
   non-integer where an integer is required, or an unknown mode or platform
   code is never delivered to the adapter ..."

   Statements only; proofs are in Proofs/ReadersReject.v.
   - [read_request m ts] (Model/Readers.v) is the decorated module-level read_*
     function of method m applied to the token list ts: [POk q] = decoded,
     [PErr msg] = RemotingException(msg); the undecorated bodies raise IndexError-,
     ValueError- and RemotingException-like raw errors, which [decorate] maps.
   - [encode_args q] (Model/AriSpec.v) is the reference encoding of a
     well-formed request q of method m ([shape_ok m q]); mutations are
     [firstn k] (truncation) and [replace_nth i t'] (one token replaced).
   - [fixed_len m]: number of argument tokens before the variable-length tail
     (parameter map, item list, table list); table lists are covered by the
     dedicated theorems.  Marker positions are the even ones.
   - that a decoding failure reaches the exception handler once, causes no
     adapter call and no reply, and that service continues, is the server-level
     part of the property: see the second half of this file (Model/Classify.v
     maps the bytes of a line to the class the connection-level model
     Model/Shell.v dispatches on; Proofs/ClassifyProofs.v, Proofs/ShellReject.v);
     it is exercised on the real servers by the pipelined part of this check. *)
From Coq Require Import String List Ascii NArith ZArith Bool.
From LS Require Import Model.Bytes Model.Tags Gen.Consts Model.Codec Model.Readers Model.AriSpec
  Proofs.ReadersRoundtrip Proofs.ReadersReject.
Import ListNotations.

(* every decorated reader, on EVERY token list *)
Theorem c09_total : forall m ts,
  (exists q, read_request m ts = POk q) \/
  (exists msg, read_request m ts = PErr msg /\ mentions m msg).
Proof. exact read_request_total. Qed.

Theorem c09_truncated : forall m q k,
  shape_ok m q = true -> k < fixed_len m ->
  exists msg, read_request m (firstn k (encode_args q)) = PErr msg.
Proof. exact truncation_rejected. Qed.

Theorem c09_truncated_table_nnt : forall u s ts k,
  ints_ok (WNNT u s ts) -> k < 14 * length ts -> Nat.modulo k 14 <> 0 ->
  exists msg, read_request MNNT (firstn (4 + k) (encode_args (WNNT u s ts))) = PErr msg.
Proof. exact table_truncation_rejected_nnt. Qed.

Theorem c09_truncated_table_ntc : forall s ts k,
  ints_ok (WNTC s ts) -> k < 14 * length ts -> Nat.modulo k 14 <> 0 ->
  exists msg, read_request MNTC (firstn (2 + k) (encode_args (WNTC s ts))) = PErr msg.
Proof. exact table_truncation_rejected_ntc. Qed.

Theorem c09_wrong_marker : forall m q i t',
  shape_ok m q = true -> ints_ok q -> i < fixed_len m -> Nat.even i = true ->
  nth_error (encode_args q) i <> Some t' ->
  exists msg, read_request m (replace_nth i t' (encode_args q)) = PErr msg.
Proof. exact marker_replaced_rejected. Qed.

Theorem c09_wrong_marker_tables : forall m q i t',
  (m = MNNT \/ m = MNTC) -> shape_ok m q = true -> ints_ok q ->
  i < length (encode_args q) -> Nat.even i = true -> nth_error (encode_args q) i <> Some t' ->
  exists msg, read_request m (replace_nth i t' (encode_args q)) = PErr msg.
Proof. exact tables_marker_replaced_rejected. Qed.

(* typed values: i is a marker position (even) holding I / M / P, the value
   after it is replaced by a token outside the type's grammar *)
Theorem c09_non_integer : forall m q i t',
  shape_ok m q = true -> ints_ok q -> S i < fixed_len m -> Nat.even i = true ->
  nth_error (encode_args q) i = Some [c_I] -> parse_int t' = None ->
  exists msg, read_request m (replace_nth (S i) t' (encode_args q)) = PErr msg.
Proof. exact int_corrupted_rejected. Qed.

Theorem c09_non_integer_tables : forall m q i t',
  (m = MNNT \/ m = MNTC) -> shape_ok m q = true -> ints_ok q -> Nat.even i = true ->
  nth_error (encode_args q) i = Some [c_I] -> parse_int t' = None ->
  exists msg, read_request m (replace_nth (S i) t' (encode_args q)) = PErr msg.
Proof. exact tables_int_corrupted_rejected. Qed.

Theorem c09_unknown_mode : forall m q i t',
  shape_ok m q = true -> ints_ok q -> S i < fixed_len m -> Nat.even i = true ->
  nth_error (encode_args q) i = Some [c_M] -> (exists e, decode_modes t' = DErr e) ->
  exists msg, read_request m (replace_nth (S i) t' (encode_args q)) = PErr msg.
Proof. exact mode_corrupted_rejected. Qed.

(* which mode tokens are unknown: everything but the null / empty marker and EXACTLY the code of one mode — a longer
   token that merely begins with a mode letter ("Mx", "CD", "RAW") is an unknown mode code *)
Theorem c09_mode_accepted_only_if_exact : forall t m, decode_modes t = DOk (Some m) -> t = mode_value m.
Proof. exact decode_modes_exact. Qed.

Theorem c09_mode_unknown_rejected : forall t,
  t <> null_value -> t <> empty_value -> (forall m, In m all_modes -> t <> mode_value m) ->
  exists e, decode_modes t = DErr e.
Proof. exact decode_modes_unknown. Qed.

Example c09_mode_examples :
  decode_modes (bs "M") = DOk (Some ModeMerge) /\ decode_modes (bs "#") = DOk None /\
  decode_modes (bs "Mx") = DErr (bs "Unknown mode 'Mx' found") /\
  decode_modes (bs "CD") = DErr (bs "Unknown mode 'CD' found") /\
  decode_modes (bs "RAW") = DErr (bs "Unknown mode 'RAW' found") /\
  decode_modes [] = DErr (bs "Unknown mode '' found").
Proof. exact decode_modes_examples. Qed.

Theorem c09_unknown_platform : forall m q i t',
  shape_ok m q = true -> ints_ok q -> S i < fixed_len m -> Nat.even i = true ->
  nth_error (encode_args q) i = Some [c_P] -> (exists e, decode_platform t' = DErr e) ->
  exists msg, read_request m (replace_nth (S i) t' (encode_args q)) = PErr msg.
Proof. exact platform_corrupted_rejected. Qed.

(* non-vacuity: MDA cut after 7 of its 10 fixed tokens; an unknown platform code *)
Example c09_example :
  read_request MMDA (firstn 7 (encode_args (WMDA (Some (bs "u")) (Some (bs "s"))
      {| d_platform := PlMember PlatApple; d_app := Some (bs "a"); d_token := Some (bs "t") |})))
  = PErr (bs "Token not found while parsing MDA request") /\
  read_request MMDA [bs "S"; bs "u"; bs "S"; bs "s"; bs "P"; bs "Z"; bs "S"; bs "a"; bs "S"; bs "t"]
  = PErr (bs "Unknown platform type 'Z' while parsing MDA request").
Proof. vm_compute. split; reflexivity. Qed.

Print Assumptions c09_total.
Print Assumptions c09_truncated.
Print Assumptions c09_truncated_table_nnt.
Print Assumptions c09_truncated_table_ntc.
Print Assumptions c09_wrong_marker.
Print Assumptions c09_wrong_marker_tables.
Print Assumptions c09_non_integer.
Print Assumptions c09_non_integer_tables.
Print Assumptions c09_unknown_mode.
Print Assumptions c09_unknown_platform.
Print Assumptions c09_example.

(* ------------------------------------------------------------------------------------------
   Server level.  [classify k line] (Model/Classify.v) is on_received_request /
   _handle_received_request / _handle_request up to the point where the connection state
   decides: garbage, close, init, or request (well-formed?, method known to this kind of
   server?).  [settle s lines] (Model/Shell.v) is what the reader does with the classified lines
   of one chunk; vocabulary as in Props/C10.v. *)
From LS Require Import Model.AriReply Model.Init Model.Classify Model.Shell Model.ShellSpec
                       Proofs.ClassifyProofs Proofs.ShellStart Proofs.ShellReject.

(* a request of a known method whose reader fails is classified "known, not well-formed" ... *)
Theorem c09_malformed_class_meta : forall line p m msg,
  parse_request line = Some p -> MetaHandlers.post_init_meta m = true -> p_method p = meth_name m ->
  read_request m (p_data p) = PErr msg ->
  classify KMeta line = CReq (p_id p) false true.
Proof. exact classify_malformed_meta. Qed.

Theorem c09_malformed_class_data : forall line p m msg,
  parse_request line = Some p -> (m = MSUB \/ m = MUSB) -> p_method p = meth_name m ->
  read_request m (p_data p) = PErr msg ->
  classify KData line = CReq (p_id p) false true.
Proof. exact classify_malformed_data. Qed.

(* ... whereas a well-formed encoded one is "known, well-formed" with its own id (C06 composed) *)
Theorem c09_wellformed_class : forall id m q term,
  wf_id id = true -> MetaHandlers.post_init_meta m = true -> shape_ok m q = true -> ints_ok q ->
  forallb is_space term = true ->
  classify KMeta (encode_line id m q term) = CReq id true true.
Proof. exact classify_encoded_meta. Qed.

(* such a line, read after initialization: pool queue, job counter, outbound queue, workers, init / close /
   stop flags unchanged (no adapter call, no reply); exactly one notification of the exception handler
   (or the default handling when none is installed) *)
Theorem c09_rejected : forall s rid,
  sh_init_expected s = false ->
  let s' := settle s [LcReq rid false true] in
  quiet_fields s s' /\
  (match sh_handler s with
   | HNone => sh_hist s' = sh_hist s ++ [EHand ThReader] /\ sh_rpc s' = (if is_data s then RFalPut else (if sh_stop s then RDead else RRecv)) \/
              sh_hist s' = sh_hist s ++ [EHand ThReader; EReaderEnd]
   | HRet _ _ => sh_hist s' = sh_hist s /\ sh_rpc s' = RHandY
   end).
Proof. exact malformed_request_rejected. Qed.

(* service continues: the lines after it in the same chunk are dispatched as if it had not been there *)
Theorem c09_service_continues : forall s rid rest,
  sh_init_expected s = false -> is_data s = false -> sh_handler s = HNone ->
  settle s (LcReq rid false true :: rest) = settle (slog s [EHand ThReader]) rest.
Proof. exact malformed_then_rest_meta. Qed.

Print Assumptions c09_malformed_class_meta.
Print Assumptions c09_malformed_class_data.
Print Assumptions c09_wellformed_class.
Print Assumptions c09_rejected.
Print Assumptions c09_service_continues.
Print Assumptions c09_mode_accepted_only_if_exact.
Print Assumptions c09_mode_unknown_rejected.
Print Assumptions c09_mode_examples.
