(* Props/C09.v — Malformed requests fail cleanly (decoding part).

   "For any sequence of argument tokens following a protocol method name,
   request decoding either succeeds or fails with the library's protocol error
   naming the method being parsed; no other exception type escapes.  A request
   that is truncated inside its fixed fields, carries a wrong type marker, a
   non-integer where an integer is required, or an unknown mode or platform
   code is never delivered to the adapter ..."

   Statements only; proofs are in Proofs/ReadersReject.v.
   - [read_request m ts] (Model/Readers.v) is the decorated module-level read_*
     function of method m applied to the token list ts: [POk q] = decoded,
     [PErr msg] = RemotingException(msg); the undecorated bodies raise IndexError-,
     ValueError- and RemotingException-like raw errors, which [decorate] maps.
   - [encode_args q] (Model/AriSpec.v) is the reference encoding of a
     well-formed request q of method m ([shape_ok m q]); mutations are
     [firstn k] (truncation) and [replace_nth i t'] (one token replaced).
   - [fixed_len m]: number of argument tokens before the variable-length tail
     (parameter map, item list, table list); table lists are covered by the
     dedicated theorems.  Marker positions are the even ones.
   - that a decoding failure reaches the exception handler once, causes no
     adapter call and no reply, and that service continues, is the server-level
     part of the property: the model of it is Dispatch (Props/C10.v, c10_reject
     shows the shape) and it is exercised on the real servers by the
     correspondence / oracle run of this check. *)
From Coq Require Import String List Ascii NArith ZArith Bool.
From LS Require Import Model.Bytes Model.Tags Gen.Consts Model.Codec Model.Readers Model.AriSpec
  Proofs.ReadersRoundtrip Proofs.ReadersReject.
Import ListNotations.

(* every decorated reader, on EVERY token list *)
Theorem c09_total : forall m ts,
  (exists q, read_request m ts = POk q) \/
  (exists msg, read_request m ts = PErr msg /\ mentions m msg).
Proof. exact read_request_total. Qed.

Theorem c09_truncated : forall m q k,
  shape_ok m q = true -> k < fixed_len m ->
  exists msg, read_request m (firstn k (encode_args q)) = PErr msg.
Proof. exact truncation_rejected. Qed.

Theorem c09_truncated_table_nnt : forall u s ts k,
  ints_ok (WNNT u s ts) -> k < 14 * length ts -> Nat.modulo k 14 <> 0 ->
  exists msg, read_request MNNT (firstn (4 + k) (encode_args (WNNT u s ts))) = PErr msg.
Proof. exact table_truncation_rejected_nnt. Qed.

Theorem c09_truncated_table_ntc : forall s ts k,
  ints_ok (WNTC s ts) -> k < 14 * length ts -> Nat.modulo k 14 <> 0 ->
  exists msg, read_request MNTC (firstn (2 + k) (encode_args (WNTC s ts))) = PErr msg.
Proof. exact table_truncation_rejected_ntc. Qed.

Theorem c09_wrong_marker : forall m q i t',
  shape_ok m q = true -> ints_ok q -> i < fixed_len m -> Nat.even i = true ->
  nth_error (encode_args q) i <> Some t' ->
  exists msg, read_request m (replace_nth i t' (encode_args q)) = PErr msg.
Proof. exact marker_replaced_rejected. Qed.

Theorem c09_wrong_marker_tables : forall m q i t',
  (m = MNNT \/ m = MNTC) -> shape_ok m q = true -> ints_ok q ->
  i < length (encode_args q) -> Nat.even i = true -> nth_error (encode_args q) i <> Some t' ->
  exists msg, read_request m (replace_nth i t' (encode_args q)) = PErr msg.
Proof. exact tables_marker_replaced_rejected. Qed.

(* typed values: i is a marker position (even) holding I / M / P, the value
   after it is replaced by a token outside the type's grammar *)
Theorem c09_non_integer : forall m q i t',
  shape_ok m q = true -> ints_ok q -> S i < fixed_len m -> Nat.even i = true ->
  nth_error (encode_args q) i = Some [c_I] -> parse_int t' = None ->
  exists msg, read_request m (replace_nth (S i) t' (encode_args q)) = PErr msg.
Proof. exact int_corrupted_rejected. Qed.

Theorem c09_non_integer_tables : forall m q i t',
  (m = MNNT \/ m = MNTC) -> shape_ok m q = true -> ints_ok q -> Nat.even i = true ->
  nth_error (encode_args q) i = Some [c_I] -> parse_int t' = None ->
  exists msg, read_request m (replace_nth (S i) t' (encode_args q)) = PErr msg.
Proof. exact tables_int_corrupted_rejected. Qed.

Theorem c09_unknown_mode : forall m q i t',
  shape_ok m q = true -> ints_ok q -> S i < fixed_len m -> Nat.even i = true ->
  nth_error (encode_args q) i = Some [c_M] -> (exists e, decode_modes t' = DErr e) ->
  exists msg, read_request m (replace_nth (S i) t' (encode_args q)) = PErr msg.
Proof. exact mode_corrupted_rejected. Qed.

Theorem c09_unknown_platform : forall m q i t',
  shape_ok m q = true -> ints_ok q -> S i < fixed_len m -> Nat.even i = true ->
  nth_error (encode_args q) i = Some [c_P] -> (exists e, decode_platform t' = DErr e) ->
  exists msg, read_request m (replace_nth (S i) t' (encode_args q)) = PErr msg.
Proof. exact platform_corrupted_rejected. Qed.

(* non-vacuity: MDA cut after 7 of its 10 fixed tokens; an unknown platform code *)
Example c09_example :
  read_request MMDA (firstn 7 (encode_args (WMDA (Some (bs "u")) (Some (bs "s"))
      {| d_platform := PlMember PlatApple; d_app := Some (bs "a"); d_token := Some (bs "t") |})))
  = PErr (bs "Token not found while parsing MDA request") /\
  read_request MMDA [bs "S"; bs "u"; bs "S"; bs "s"; bs "P"; bs "Z"; bs "S"; bs "a"; bs "S"; bs "t"]
  = PErr (bs "Unknown platform type 'Z' while parsing MDA request").
Proof. vm_compute. split; reflexivity. Qed.

Print Assumptions c09_total.
Print Assumptions c09_truncated.
Print Assumptions c09_truncated_table_nnt.
Print Assumptions c09_truncated_table_ntc.
Print Assumptions c09_wrong_marker.
Print Assumptions c09_wrong_marker_tables.
Print Assumptions c09_non_integer.
Print Assumptions c09_non_integer_tables.
Print Assumptions c09_unknown_mode.
Print Assumptions c09_unknown_platform.
Print Assumptions c09_example.
