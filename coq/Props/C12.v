(* Props/C12.v — Keepalive negotiation: a positive Proxy hint is always honoured
   (1 s floor).  Statements only; proofs are in Proofs/KeepaliveProofs.v.
   ka_after c h : interval in force (seconds) after the init request, for the
   constructor argument c (None or seconds) and the hint h (None or ms).
   The literals 1, 10, 1000, 10000 below are those of the property text; the
   model takes them from Gen/Consts.v (reflected from the live Server class), so
   a changed constant breaks these theorems. *)
From Coq Require Import QArith Qminmax.
From LS Require Import Model.Keepalive Proofs.KeepaliveProofs Model.Init Proofs.InitProofs.
Local Open Scope Q_scope.

(* with no hint the configured value stands (1 s if none was configured) *)
Theorem c12_no_hint : forall c,
  ka_after c None == match c with None => 1 | Some x => Qmax 0 x end.
Proof. exact ka_no_hint. Qed.

(* a non-positive hint changes nothing: 10 s default or the configured value *)
Theorem c12_nonpositive : forall c h, h <= 0 ->
  ka_after c (Some h) == match c with None => 10 | Some x => Qmax 0 x end.
Proof. exact ka_nonpositive. Qed.

(* a positive hint stricter than the configured (or default 10 s) interval is
   adopted, raised to the 1 s floor; if keepalives were configured off every
   positive hint is stricter *)
Theorem c12_positive : forall c h, 0 < h ->
  ka_after c (Some h) ==
    match (match c with
           | None => Some 10000
           | Some x => if Qle_bool x 0 then None else Some (x * 1000)
           end) with
    | Some b => if Qle_bool b h
                then match c with None => 10 | Some x => Qmax 0 x end
                else Qmax h 1000 / 1000
    | None => Qmax h 1000 / 1000
    end.
Proof. exact ka_positive. Qed.

(* consequently: enabled, and never above max(hint, 1 s) *)
Theorem c12_bound : forall c h, 0 < h ->
  0 < ka_after c (Some h) /\ ka_after c (Some h) <= Qmax (h / 1000) 1.
Proof. exact ka_bound. Qed.

(* a hint the server cannot read as a number (Props/C11.v c11_malformed_hint_discarded) is no hint: the interval in
   force after the init request is the one of c12_no_hint *)
Theorem c12_malformed_hint_as_absent : forall configured r,
  ir_hint r = HMalformed -> ka_after_init configured r = Some (ka_after configured None).
Proof. exact malformed_hint_as_absent. Qed.

(* non-vacuity: keepalives configured off, hint 500 ms -> 1 s *)
Example c12_example : ka_after (Some 0) (Some 500) == 1.
Proof. exact ka_example_off_hint. Qed.

(* the code before the repair of finding F2 violated c12_bound *)
Theorem c12_legacy_refuted :
  exists c h, 0 < h /\ ~ (0 < ka_after_legacy c (Some h)).
Proof. exact ka_legacy_refuted. Qed.

Print Assumptions c12_no_hint.
Print Assumptions c12_nonpositive.
Print Assumptions c12_positive.
Print Assumptions c12_bound.
Print Assumptions c12_legacy_refuted.
Print Assumptions c12_malformed_hint_as_absent.
