(* Props/C11.v — Version negotiation and init parameters follow the compatibility table.

   "For every protocol version announced (or omitted) by the Proxy Adapter the
   init reply is determined by it and by the adapter's own outcome alone: a
   Metadata server refuses only the reserved 1.8.1 and an explicitly announced
   1.8.0, answers a missing version with a bare success, echoes 1.8.2 and
   otherwise answers 1.8.3; a Data server refuses a missing version, every 1.8.x
   and 1.9.0 and otherwise answers 1.8.3.  On refusal the adapter is not
   initialized; on acceptance initialize receives exactly the Proxy-supplied
   parameters minus the two reserved negotiation keys, overlaid by the locally
   configured parameters (local wins) ..., and a failing initialize becomes an
   error reply typed by the provider error class.  Close requests are honoured
   afterwards unless initialization succeeded with an agreed version older than
   1.8.3."

   Statements only; proofs are in Proofs/InitProofs.v.
   - [on_init k local proxy close_before outcome] (Model/Init.v) is
     Server._on_init with the getSupportedVersion of server kind k: [local] the
     adapter_params dict (or None), [proxy] the decoded parameter dict of the
     init request, [outcome] what adapter.initialize does.
   - [spec_version], [spec_close_honoured] (Model/AriReply.v) are the table of
     the property text; [announced_of proxy] is the announced version (None when
     the key is absent or carries the null value).
   - the version ranges over ALL byte strings: the theorems have no hypothesis
     on it. *)
From Coq Require Import String List Ascii NArith ZArith QArith Bool.
From LS Require Import Model.Bytes Model.Tags Gen.Consts Model.Codec Model.Writers
  Model.AriReply Model.Keepalive Model.Init Proofs.InitProofs.
Import ListNotations.

Theorem c11_table : forall k local proxy cb outcome,
  let r := on_init k local proxy cb outcome in
  let m := init_method k in
  match spec_version k (announced_of proxy) with
  | VRefuse => ir_initialize r = None /\ ir_listener r = false /\
               exists line, ir_reply r = WOk line /\ generic_error m line
  | VBare => ir_initialize r <> None /\
             (outcome = IRet -> ir_reply r = WOk (void_reply m) /\ decode_void (void_reply m) = Some (meth_name m))
  | VAnswer a => ir_initialize r <> None /\
             (outcome = IRet -> exists line, ir_reply r = WOk line /\
                 decode_params line = Some (meth_name m, [(ari_version_key, Some a)]))
  end.
Proof. exact init_table. Qed.

(* the table itself, in the words of the property *)
Theorem c11_table_meta : forall v,
  spec_version KMeta None = VBare /\
  spec_version KMeta (Some (bs "1.8.1")) = VRefuse /\ spec_version KMeta (Some (bs "1.8.0")) = VRefuse /\
  spec_version KMeta (Some (bs "1.8.2")) = VAnswer (bs "1.8.2") /\
  (v <> bs "1.8.0" -> v <> bs "1.8.1" -> v <> bs "1.8.2" -> spec_version KMeta (Some v) = VAnswer (bs "1.8.3")).
Proof. exact spec_version_meta. Qed.

Theorem c11_table_data : forall v,
  spec_version KData None = VRefuse /\
  (starts_with (bs "1.8.") v = true -> spec_version KData (Some v) = VRefuse) /\
  spec_version KData (Some (bs "1.9.0")) = VRefuse /\
  (starts_with (bs "1.8.") v = false -> v <> bs "1.9.0" -> spec_version KData (Some v) = VAnswer (bs "1.8.3")).
Proof. exact spec_version_data. Qed.

(* parameters: local wins; the two reserved keys never come from the Proxy side.
   [dict_wf]: keys are unique, as in every Python dict (c11_decoded_dict_wf for
   the decoder's output) *)
Theorem c11_params : forall k local proxy cb outcome params key,
  dict_wf proxy ->
  (forall l, local = Some l -> dict_wf l) ->
  ir_initialize (on_init k local proxy cb outcome) = Some params ->
  dict_get key params =
    match (match local with Some l => dict_get key l | None => None end) with
    | Some v => Some v
    | None => if reserved key then None else dict_get key proxy
    end.
Proof. exact init_params_partial. Qed.

Theorem c11_decoded_dict_wf : forall (V : Type) (l : list (option bytes * V)), dict_wf (dict_of_pairs l).
Proof. exact dict_of_pairs_wf. Qed.

Theorem c11_listener : forall k local proxy cb outcome,
  ir_listener (on_init k local proxy cb outcome) = true <->
  (k = KData /\ outcome = IRet /\ ir_initialize (on_init k local proxy cb outcome) <> None).
Proof. exact init_listener. Qed.

(* a failing initialize: the C08 error reply of that exception *)
Theorem c11_error_typed : forall k local proxy cb e,
  ir_initialize (on_init k local proxy cb (IRaise e)) <> None ->
  ir_reply (on_init k local proxy cb (IRaise e)) = error_reply (init_method k) e.
Proof. exact init_error_typed. Qed.

Theorem c11_close_flag : forall k local proxy outcome,
  ir_close_expected (on_init k local proxy true outcome) =
  spec_close_honoured k (announced_of proxy) (is_ret outcome).
Proof. exact init_close_flag. Qed.

(* C12 "whether or not initialization itself succeeds": the hint handed to the
   keepalive negotiation does not depend on refusal or on the adapter's outcome *)
Theorem c11_hint_regardless : forall k local proxy cb outcome,
  ir_hint (on_init k local proxy cb outcome) = parse_hint (dict_get (okey keepalive_hints_key) proxy).
Proof. exact init_hint_regardless. Qed.

(* "all Proxy parameter maps ... including the reserved keys": the value of the reserved hint key is arbitrary text.
   The init reply never depends on it (c11_table does not mention it); a value that float() certainly rejects —
   empty, or containing an ASCII character that occurs in no float literal — is discarded *)
Theorem c11_malformed_hint_discarded : forall s,
  surely_not_float s = true -> parse_hint (Some (Some s)) = HMalformed.
Proof. exact malformed_hint_discarded. Qed.

Example c11_malformed_hint_examples :
  parse_hint (Some (Some (bs "abc"))) = HMalformed /\ parse_hint (Some (Some [])) = HMalformed /\
  parse_hint (Some (Some (bs "0x10"))) = HMalformed /\ parse_hint (Some (Some (bs "1,5"))) = HMalformed /\
  parse_hint (Some (Some (bs "1500"))) = HValue 1500 /\ parse_hint (Some (Some (bs "2e3"))) = HUnmodelled.
Proof. exact malformed_hint_examples. Qed.

(* non-vacuity *)
Example c11_example :
  let proxy := dict_of_pairs [(Some (bs "ARI.version"), Some (bs "1.10.2")); (Some (bs "a"), Some (bs "1"));
                              (Some (bs "keepalive_hint.millis"), Some (bs "1500"))] in
  let r := on_init KData (Some [(Some (bs "a"), Some (bs "L"))]) proxy true IRet in
  ir_initialize r = Some [(Some (bs "a"), Some (bs "L"))] /\
  ir_reply r = WOk (bs "DPI|S|ARI.version|S|1.8.3") /\ ir_listener r = true /\ ir_close_expected r = true.
Proof. vm_compute. repeat split; reflexivity. Qed.

Print Assumptions c11_table.
Print Assumptions c11_table_meta.
Print Assumptions c11_table_data.
Print Assumptions c11_params.
Print Assumptions c11_decoded_dict_wf.
Print Assumptions c11_listener.
Print Assumptions c11_error_typed.
Print Assumptions c11_close_flag.
Print Assumptions c11_hint_regardless.
Print Assumptions c11_example.

(* "typed by the provider error class": of the ten library exception classes, exactly the provider error of the
   server kind is an instance of the class designated for its init method (the class hierarchy is reflected from the
   live interfaces package on every run: re-parenting an exception class breaks this) *)
Example c11_only_provider_typed :
  forallb (fun c => Bool.eqb (lib_subclass c CDataProviderError)
                             (match c with CDataProviderError => true | _ => false end)) all_lib_classes = true /\
  forallb (fun c => Bool.eqb (lib_subclass c CMetadataProviderError)
                             (match c with CMetadataProviderError => true | _ => false end)) all_lib_classes = true /\
  designated MDPI = [CDataProviderError] /\ designated MMPI = [CMetadataProviderError].
Proof. vm_compute. repeat split; reflexivity. Qed.

Print Assumptions c11_only_provider_typed.
Print Assumptions c11_malformed_hint_discarded.
Print Assumptions c11_malformed_hint_examples.
