(* Props/C10.v — Initialization gates everything: first, once, before any other adapter call.

   "The adapter's initialize is invoked at most once per server, in response to the first
   init request received, and it has returned before any other adapter method is invoked; a
   Data Adapter is handed its listener after initialize and before any subscribe.  Any other
   request (apart from a close request) received before the init request, and any second init
   request, is rejected as a protocol error without touching the adapter and without a reply,
   and the init reply precedes the reply to every later request."

   Statements only; proofs are in Proofs/ShellStart.v.  Vocabulary as in Props/C04.v:
   Model/Shell.v is the connection-level transition system, [sreach k h n s] = s is reached
   from a fresh server of kind k (KMeta / KData) with exception handler h and n pool workers by
   ANY finite sequence of steps of the starter, reader, writer, worker, application and adapter
   threads — any interleaving, any split of the inbound bytes into chunks (all requests in one
   chunk included), any adapter outcome, faults included.
   - the ghost history [sh_hist s] records ECallB th c / ECallE th c ok (adapter call c begins /
     ends on thread th; c = CInit, CSetListener or COther), ESubmit (job handed to the pool),
     EPut th line (line enqueued), EHand th (exception handler notified) ...
   - [gate_ok data h] (Model/ShellSpec.v) scans the history: initialize begins at most once and only
     while no other adapter call has begun; nothing else begins while it runs; for a Data server
     set_listener begins only right after a SUCCESSFUL initialize and ends before any other call
     begins, and no other call begins after a successful initialize until the listener is set.
   - [settle s lines] is what the reader does with the lines of one chunk. *)
From Coq Require Import String List Ascii NArith ZArith Bool.
From LS Require Import Model.Bytes Model.Tags Model.AriReply Model.Shell Model.ShellSpec Proofs.ShellStart.
Import ListNotations.

(* initialize: at most once, first, returned before anything else; listener after it and before any
   subscribe — along EVERY execution *)
Theorem c10_gate : forall k h n s, sreach k h n s -> gate_ok (is_data s) (sh_hist s) = true.
Proof. exact gate_ok_reachable. Qed.

(* while the init request has not been seen, nothing was handed to the pool and no adapter method
   was touched — whatever arrived before it *)
Theorem c10_nothing_before_init : forall k h n s, sreach k h n s -> inv_gate s = true.
Proof. exact inv_gate_reachable. Qed.

(* at most one initialize and at most one init reply per server *)
Theorem c10_once : forall k h n s, sreach k h n s -> init_once (sh_hist s) = true.
Proof. exact init_once_reachable. Qed.

(* the init reply is enqueued before the reply to any request *)
Theorem c10_init_reply_first : forall k h n s, sreach k h n s -> init_reply_first (sh_hist s) = true.
Proof. exact init_reply_first_reachable. Qed.

(* a request (of any method, well-formed or not) read while the init request is still expected is a
   protocol error: no job, no adapter call, no line; only the exception handler (or the default
   handling) sees it.  [quiet_fields]: pool queue, job counter, outbound queue, workers, init / close
   flags unchanged *)
Theorem c10_early_request_rejected : forall s rid wf known,
  sh_init_expected s = true ->
  let s' := settle s [LcReq rid wf known] in
  quiet_fields s s' /\
  (match sh_handler s with
   | HNone => sh_hist s' = sh_hist s ++ [EHand ThReader] /\ sh_rpc s' = (if is_data s then RFalPut else (if sh_stop s then RDead else RRecv)) \/
              sh_hist s' = sh_hist s ++ [EHand ThReader; EReaderEnd]
   | HRet _ _ => sh_hist s' = sh_hist s /\ sh_rpc s' = RHandY
   end).
Proof. exact early_request_rejected. Qed.

(* a second init request: the same *)
Theorem c10_late_init_rejected : forall s rid wf refused oldv,
  sh_init_expected s = false ->
  let s' := settle s [LcInit rid wf refused oldv] in
  quiet_fields s s' /\
  (match sh_handler s with
   | HNone => sh_hist s' = sh_hist s ++ [EHand ThReader] /\ sh_rpc s' = (if is_data s then RFalPut else (if sh_stop s then RDead else RRecv)) \/
              sh_hist s' = sh_hist s ++ [EHand ThReader; EReaderEnd]
   | HRet _ _ => sh_hist s' = sh_hist s /\ sh_rpc s' = RHandY
   end).
Proof. exact late_init_rejected. Qed.

(* the monitor is not vacuous: it rejects an adapter call that begins while initialize runs, a second
   initialize, a subscribe before the listener is set, and accepts the regular Data start-up *)
Example c10_monitor_rejects :
  gate_ok false [ECallB ThReader CInit; ECallB (ThWorker 0) COther] = false /\
  gate_ok false [ECallB ThReader CInit; ECallE ThReader CInit true; ECallB ThReader CInit] = false /\
  gate_ok false [ECallB (ThWorker 0) COther; ECallB ThReader CInit] = false /\
  gate_ok true [ECallB ThReader CInit; ECallE ThReader CInit true; ECallB (ThWorker 0) COther] = false /\
  gate_ok true [ECallB ThReader CInit; ECallE ThReader CInit true; ECallB ThReader CSetListener;
                ECallE ThReader CSetListener true; ECallB (ThWorker 0) COther] = true /\
  init_reply_first [EPut (ThWorker 0) (OReply 5); EPut ThReader (OInitReply 0 true)] = false.
Proof. vm_compute. repeat split; reflexivity. Qed.

(* sreach is inhabited by runs that do initialise: a Metadata server started, init line read, initialize
   called and returned, init reply enqueued *)
Example c10_reachable_example :
  exists s, sreach KMeta HNone 2 s /\ sh_init_expected s = false /\
            existsb (fun e => match e with ECallE _ CInit true => true | _ => false end) (sh_hist s) = true.
Proof.
  eexists. split.
  - exists [(ThStarter, AThreadStart); (ThStarter, APut ORac); (ThStarter, AThreadStart);
            (ThReader, ARecv [LcInit 0 true false false]);
            (ThReader, ACallB CInit); (ThReader, ACallE CInit true); (ThReader, APut (OInitReply 0 true))].
    vm_compute. reflexivity.
  - vm_compute. split; reflexivity.
Qed.

Print Assumptions c10_gate.
Print Assumptions c10_nothing_before_init.
Print Assumptions c10_once.
Print Assumptions c10_init_reply_first.
Print Assumptions c10_early_request_rejected.
Print Assumptions c10_late_init_rejected.
Print Assumptions c10_monitor_rejects.
Print Assumptions c10_reachable_example.
