(* Props/C17.v — An empty snapshot is closed by the library before updates and the reply.

   "When the adapter declares that no snapshot is available for an item, the
   library itself emits exactly one end-of-snapshot notification for each executed
   subscription, tagged with that subscription's request id, before any event the
   adapter submits from within or after the corresponding subscribe() call and
   before the subscription's reply.  When a snapshot is declared available the
   library emits none, and when the availability query itself raises, the
   subscription is answered with that error and subscribe is not called."

   Statements only; proofs are in Proofs/Item*.v.  Vocabulary as in Props/C01.v.
   The monitor [eos_ok] (Model/ItemSpec.v) scans the history with a state:
     ECallE KSnap t (CRet true)   (issnapshot_available returned exactly False)  -> want an EOS for t
     ECallE KSnap t (CRet false)  (any other return value)                       -> no EOS for t
     ECallE KSnap t (CRaise e)                                                   -> no subscribe for t
     ENotif OLib k rid line  (a notification of LIBRARY origin): only legal when an EOS for t is
                             wanted, with k = end-of-snapshot and rid = t's id; then it is "got"
     ECallB KSub t : only legal when the EOS for t was got, or none was wanted for t
     EReply t line : only legal when nothing is pending, or after a raising query for t
   so: exactly one library EOS per executed subscription without snapshot, with its id,
   after the query and BEFORE subscribe() begins (hence before every event submitted from
   within or after that call, and before the reply, which follows the call); none otherwise;
   no subscribe() after a raising query, whose exception is what the reply reports (C01 status). *)
From Coq Require Import String List Ascii NArith ZArith Bool.
From LS Require Import Model.Bytes Model.Tags Gen.Consts Model.Codec Model.Writers Model.AriReply
  Model.Item Model.ItemSpec Proofs.ItemInv Proofs.ItemGlobal.
From LS Require Proofs.ItemCode Proofs.ItemMonA Proofs.ItemMonB.
Import ListNotations.

Theorem c17_library_eos : forall item s, reachable item s -> eos_ok (s_hist s) = true.
Proof. exact ItemMonB.eos_ok_reachable. Qed.

(* the library's own end-of-snapshot carries the id of the subscription being executed *)
Theorem c17_eos_tag : forall item s j d t c s',
  reachable item s -> nth_error (s_dqs s) j = Some d -> d_pc d = PEosPut t c ->
  step s (LbPut j) = Some s' ->
  exists line, s_hist s' = s_hist s ++ [ENotif OLib LEos (t_rid t) line].
Proof.
  intros item s j d t c s' H. destruct (inv_all_parts s (Inv_all s (reachable_Inv item s H))) as (_ & _ & _ & _ & Hc & _).
  apply ItemCode.eos_put_tag. exact Hc.
Qed.

(* when the query raises, the reply is the error reply of that exception (with c17_library_eos: and subscribe is not called) *)
Theorem c17_query_error_reported : forall item s, reachable item s -> status_ok (s_hist s) = true.
Proof. exact ItemMonA.status_ok_reachable. Qed.

(* a skipped subscription has no library EOS: the library publishes no id for it (C03) and
   library notifications carry published ids only *)
Theorem c17_none_for_skipped : forall item s t,
  reachable item s -> In (ESetCode t) (s_hist s) -> ~ In (ESkip t) (s_hist s).
Proof. exact ItemMonB.published_not_skipped. Qed.

Theorem c17_all_items : forall allowed g, greach allowed g -> forall i, eos_ok (s_hist (g i)) = true.
Proof. intros allowed g Hg i. eapply c17_library_eos. apply (greach_item allowed g Hg i). Qed.

(* the monitor rejects what the property forbids *)
Example c17_monitor_rejects :
  let t := {| t_rid := bs "r1"; t_sub := true |} in
  eos_ok [ECallE KSnap t (CRet true); ECallB KSub t] = false /\                                    (* EOS missing *)
  eos_ok [ECallE KSnap t (CRet true); ENotif OLib LEos (bs "r0") []; ECallB KSub t] = false /\      (* wrong id *)
  eos_ok [ECallE KSnap t (CRet true); ENotif OLib LEos (bs "r1") []; ENotif OLib LEos (bs "r1") []] = false /\ (* twice *)
  eos_ok [ECallE KSnap t (CRet false); ENotif OLib LEos (bs "r1") []] = false /\                    (* snapshot available *)
  eos_ok [ECallE KSnap t (CRaise late_exn); ECallB KSub t] = false /\                               (* subscribe after a raising query *)
  eos_ok [ECallE KSnap t (CRet true); ENotif OLib LEos (bs "r1") []; ECallB KSub t; EReply t []] = true.
Proof. vm_compute. repeat split; reflexivity. Qed.

Print Assumptions c17_library_eos.
Print Assumptions c17_eos_tag.
Print Assumptions c17_query_error_reported.
Print Assumptions c17_none_for_skipped.
Print Assumptions c17_all_items.
Print Assumptions c17_monitor_rejects.
