(* Props/C01.v — Every SUB/USB request is answered exactly once, under every interleaving.

   "For every subscribe or unsubscribe request the Proxy Adapter sends for an item
   (alternating per item as the protocol prescribes, but possibly pipelined
   without waiting for replies), the Remote Server writes exactly one reply line
   carrying that request's id and method, whatever the adapter does (returns,
   raises, blocks for a while) and however the reader, pool and writer threads
   interleave.  The reply reports success iff the adapter call was made and
   returned normally or an unsubscription had nothing to undo, reports the
   adapter's error iff the call was made and raised, and a subscription that is
   skipped because a later request for the same item was already queued is
   answered with an error, never left unanswered."

   Statements only; proofs are in Proofs/Item*.v.
   - Model/Item.v is the per-item labelled transition system at lock-region
     granularity ([step]); [reachable item s] (Proofs/ItemInv.v): s is reached
     from the initial state of the item by ANY finite sequence of steps — any
     interleaving of the reader, any number of dequeuer jobs and adapter threads,
     any adapter outcomes — in which arrivals respect the environment assumption
     [env_ok] (Model/ItemSpec.v): per-item SUB/USB alternation starting with SUB,
     distinct non-empty request ids.  No bound on requests, jobs, threads, steps.
   - [greach] (Proofs/ItemGlobal.v): the same for any number of items under any
     further restriction of the global system (pool size, scheduling).
   - the ghost history [s_hist s] records every event; [seen] = requests read for
     the item, [replied] = requests whose reply line was enqueued, [dropped] =
     unsubscriptions discarded because no bookkeeping existed.
   - "the writer writes every enqueued line exactly once, in order" is C16.
   - blocking adapter calls: a call that has not returned is simply a thread that
     takes no step; the theorems hold in every state, quiescent or not.
   - progress: [measure] (Model/ItemSpec3.v) strictly decreases on every step of the
     library itself ([internal]: everything except arrivals and the start of
     listener calls), and a reachable state that is not quiescent always has such
     a step enabled (given that the adapter call in progress returns): with
     finitely many arrivals and listener calls every maximal execution is finite
     and ends quiescent, whatever the scheduler does and whatever the pool size
     (the pool only decides WHEN an enabled job step happens; with n >= 1 workers a
     queued job is eventually picked up once running ones end: Props/C04.v). *)
From Coq Require Import String List Ascii NArith ZArith Bool.
From LS Require Import Model.Bytes Model.Tags Gen.Consts Model.Codec Model.Writers Model.AriReply
  Model.Item Model.ItemSpec Proofs.ItemInv Proofs.ItemGlobal.
From LS Require Import Model.ItemSpec3.
From LS Require Proofs.ItemFifo Proofs.ItemMonA Proofs.ItemProgress.
Import ListNotations.

(* at most once: no request id has two reply lines, in any reachable state *)
Theorem c01_at_most_once : forall item s,
  reachable item s -> NoDup (map t_rid (replied (s_hist s))).
Proof.
  intros item s H. destruct (inv_all_parts s (Inv_all s (reachable_Inv item s H))) as (_ & Hr & Hf & _).
  apply ItemFifo.replied_nodup; assumption.
Qed.

(* replies are given in arrival order and only to accepted requests *)
Theorem c01_replies_are_requests : forall item s,
  reachable item s -> exists rest, arrived (s_hist s) = replied (s_hist s) ++ rest.
Proof.
  intros item s H. destruct (inv_all_parts s (Inv_all s (reachable_Inv item s H))) as (_ & _ & Hf & _).
  apply ItemFifo.replied_prefix; assumption.
Qed.

(* exactly once: when no thread has anything left to do for the item, the requests
   answered are exactly the requests seen (in order, hence each exactly once by
   c01_at_most_once), and no request was discarded *)
Theorem c01_exactly_once_at_rest : forall item s,
  reachable item s -> quiescent s = true ->
  replied (s_hist s) = seen (s_hist s) /\ dropped (s_hist s) = [].
Proof.
  intros item s H Hq. pose proof (reachable_Inv item s H) as (Hall & _ & _ & _ & Hi & _).
  apply ItemFifo.quiescent_all_replied; assumption.
Qed.

(* under alternation no unsubscription is ever discarded, at any time *)
Theorem c01_never_discarded : forall item s, reachable item s -> dropped (s_hist s) = [].
Proof.
  intros item s H. destruct (inv_all_parts s (Inv_all s (reachable_Inv item s H))) as (_ & _ & Hf & _).
  unfold inv_fifo in Hf. apply andb_true_iff in Hf. destruct Hf as [_ Hd].
  destruct (dropped (s_hist s)); [reflexivity | discriminate Hd].
Qed.

(* the status: the monitor [status_ok] (Model/ItemSpec.v) accepts the history: each
   reply line is  <id>|<payload>  where the payload is
     - the SubscribeError reply "come too late" if the subscription was skipped,
     - METHOD|V if the adapter call (subscribe / unsubscribe) returned,
     - the C08 error reply of the exception if issnapshot_available, subscribe or
       unsubscribe raised,
     - USB|V if the unsubscription had nothing to undo (no adapter call) *)
Theorem c01_status : forall item s, reachable item s -> status_ok (s_hist s) = true.
Proof. exact ItemMonA.status_ok_reachable. Qed.

(* never left unanswered — progress: every step of the library strictly decreases a natural-number
   measure, so no execution of the library alone is infinite ... *)
Theorem c01_measure_decreases : forall s lb s',
  step s lb = Some s' -> internal lb = true -> (measure s' < measure s)%nat.
Proof. exact ItemProgress.internal_step_decreases. Qed.

Theorem c01_internal_runs_bounded : forall ls s s',
  run s ls = Some s' -> forallb internal ls = true -> (length ls + measure s' <= measure s)%nat.
Proof. exact ItemProgress.internal_run_bounded. Qed.

(* ... and the library is never stuck before it is at rest: some thread can always move *)
Theorem c01_no_deadlock : forall item s,
  reachable item s -> quiescent s = false ->
  exists lb s', next_label s = Some lb /\ internal lb = true /\ env_ok s lb = true /\ step s lb = Some s'.
Proof. exact ItemProgress.not_quiescent_can_step. Qed.

(* hence from every reachable state the library alone reaches a state of rest within [measure s]
   steps, where every request seen has exactly one reply *)
Theorem c01_eventually_answered : forall item s,
  reachable item s ->
  exists ls s', run_env s ls = Some s' /\ forallb internal ls = true /\
    replied (s_hist s') = seen (s_hist s') /\ NoDup (map t_rid (replied (s_hist s'))).
Proof. exact ItemProgress.eventually_all_answered. Qed.

(* any number of items, any pool size, any scheduling policy *)
Theorem c01_all_items : forall allowed g,
  greach allowed g -> forall i,
    NoDup (map t_rid (replied (s_hist (g i)))) /\
    status_ok (s_hist (g i)) = true /\
    (quiescent (g i) = true -> replied (s_hist (g i)) = seen (s_hist (g i)) /\ dropped (s_hist (g i)) = []).
Proof.
  intros allowed g Hg i. pose proof (greach_item allowed g Hg i) as Hr. repeat split.
  - eapply c01_at_most_once; exact Hr.
  - eapply c01_status; exact Hr.
  - eapply c01_exactly_once_at_rest; eassumption.
  - eapply c01_exactly_once_at_rest; eassumption.
Qed.

(* non-vacuity, and the shape of finding F1: SUB r1, USB r2, SUB r3 arrive while
   the first job has not started; r1 is skipped (r2 is behind it) and answered with
   the error, r2 is acknowledged without adapter call, r3 is executed *)
Definition c01_demo : list label :=
  [LbR1 {| t_rid := bs "r1"; t_sub := true |}; LbR2;
   LbR1 {| t_rid := bs "r2"; t_sub := false |}; LbR2;
   LbR1 {| t_rid := bs "r3"; t_sub := true |}; LbR2;
   LbJobStart 0; LbLockI 0; LbPut 0; LbLockI 0; LbPut 0; LbLockM 0; LbLockI 0; LbLockM 0;
   LbCallB 0; LbCallE 0 (CRet false); LbCallB 0; LbCallE 0 (CRet false); LbPut 0;
   LbLockI 0; LbLockM 0].

Example c01_example :
  match run_env (init_state (bs "item")) c01_demo with
  | Some s =>
      quiescent s = true /\
      map t_rid (replied (s_hist s)) = [bs "r1"; bs "r2"; bs "r3"] /\
      flat_map (fun e => match e with EReply _ l => [l] | _ => [] end) (s_hist s) =
        [bs "r1|SUB|EU|Subscribe+request+come+too+late"; bs "r2|USB|V"; bs "r3|SUB|V"]
  | None => False
  end.
Proof. vm_compute. repeat split; reflexivity. Qed.

Print Assumptions c01_at_most_once.
Print Assumptions c01_replies_are_requests.
Print Assumptions c01_exactly_once_at_rest.
Print Assumptions c01_never_discarded.
Print Assumptions c01_status.
Print Assumptions c01_measure_decreases.
Print Assumptions c01_internal_runs_bounded.
Print Assumptions c01_no_deadlock.
Print Assumptions c01_eventually_answered.
Print Assumptions c01_all_items.
Print Assumptions c01_example.
