(* Props/C07.v — Replies and notifications are well-formed and decode to the adapter's data.

   "Every reply and notification the library produces is one line that a
   conforming ARI decoder parses into the expected method, arity and token
   types, recovering exactly what the adapter supplied: item and field lists
   element by element in order, one (integer, float, mode-set) triple per
   requested item in request order, bandwidth/flag pairs, update events as
   ordered field/value pairs whose values may be text, bytes or None ...  The
   token structure depends only on the shape of the data, never on its content,
   and a value of an unsupported type yields a protocol error and no line at
   all rather than a partial or mistyped one."

   Statements only; proofs are in Proofs/WritersProofs.v.
   - write_* (Model/Writers.v) are the library's writers; a Python value handed
     over by the adapter is a [pyval]; [WOk line] = the line (without request id /
     timestamp prefix and terminator), [WErr _] = an exception and no line.
   - decode_* (Model/AriReply.v) are the reference decoders of a conforming
     Proxy Adapter, by type marker.
   - texts are [option bytes] (None, or the UTF-8 bytes of any str, "" included);
     lists, dicts and field lists have any length.
   - floats: a float is carried as the token repr() prints for it ([ftok_ok]:
     non-empty, free of '|', CR, LF — true of every repr of a float); the decoder
     returns the token.  That float(repr(x)) = x is a CPython fact checked by the
     correspondence oracle, not proved here (DESIGN.md section 8).
   - [clean line]: no CR / LF anywhere in the line ("one line").
   - [length (toks line)] is given as a function of the list lengths alone
     ("structure depends only on the shape"). *)
From Coq Require Import String List Ascii NArith ZArith Bool.
From LS Require Import Model.Bytes Model.Tags Gen.Consts Model.Codec
  Model.Writers Model.AriReply Proofs.WritersProofs.
Import ListNotations.

(* GIS / GSC: item and field lists element by element in order *)
Theorem c07_lists : forall m (l : list text),
  exists line, write_list_reply m (PList (map py_of_text l)) = WOk line /\
    decode_strings line = Some (meth_name m, l) /\ clean line /\
    length (toks line) = 1 + 2 * length l.
Proof. exact write_list_decodes. Qed.

(* GIT / GUI: one (integer, float, mode-set) triple per item in order; every
   subset and order of modes *)
Theorem c07_item_data : forall m (l : list (Z * bytes * list mode)),
  Forall (fun x => ftok_ok (snd (fst x)) /\ int_len_ok (fst (fst x))) l ->
  exists line, write_item_data_reply m (map item_triple l) = WOk line /\
    decode_item_data line = Some (meth_name m, map (fun x => (fst (fst x), snd (fst x), Some (snd x))) l) /\
    clean line /\ length (toks line) = 1 + 6 * length l.
Proof. exact write_item_data_decodes. Qed.

(* NUS / NUA: bandwidth / flag pair *)
Theorem c07_notify_user : forall m bw b, ftok_ok bw ->
  exists line, write_notify_user m (PFloat bw) (PBool b) = WOk line /\
    decode_notify_user line = Some (meth_name m, bw, b) /\ clean line.
Proof. exact write_notify_user_decodes. Qed.

(* UD3: ordered field / value pairs, values text, bytes or None *)
Theorem c07_update : forall (item rid : text) snap (fields : list (text * uval)),
  exists line, write_update_map (py_of_text item) (py_of_text rid) (PBool snap)
                 (PDict (map (fun fv => (py_of_text (fst fv), py_of_uval (snd fv))) fields)) = WOk line /\
    decode_update line = Some (item, rid, snap, fields) /\ clean line /\
    length (toks line) = 7 + 4 * length fields.
Proof. exact write_update_decodes. Qed.

(* EOS / CLS *)
Theorem c07_item_notify : forall m (item rid : text),
  exists line, write_item_notify m (py_of_text item) (py_of_text rid) = WOk line /\
    decode_item_notify line = Some (meth_name m, item, rid) /\ clean line.
Proof. exact write_item_notify_decodes. Qed.

(* FAL *)
Theorem c07_failure : forall msg,
  exists line, write_failure msg = WOk line /\ decode_failure line = Some (Some msg) /\ clean line.
Proof. exact write_failure_decodes. Qed.

(* void replies and init replies *)
Theorem c07_void : forall m, decode_void (void_reply m) = Some (meth_name m) /\ clean (void_reply m).
Proof. exact void_reply_decodes. Qed.

Theorem c07_init_reply : forall m (v : bytes),
  write_init_ok m [] = WOk (void_reply m) /\
  exists line, write_init_ok m [(ari_version_key, PStr v)] = WOk line /\
    decode_params line = Some (meth_name m, [(ari_version_key, Some v)]) /\ clean line.
Proof. exact write_init_ok_decodes. Qed.

(* unsupported types: an error, never a line *)
Theorem c07_lists_unsupported : forall m l,
  existsb (fun v => negb (text_like v)) l = true ->
  exists e, write_list_reply m (PList l) = WErr e.
Proof. exact write_list_unsupported. Qed.

Theorem c07_item_data_unsupported : forall m l,
  existsb (fun d : pyval * pyval * pyval =>
             negb (match fst (fst d) with PInt _ => true | _ => false end) ||
             negb (match snd (fst d) with PFloat _ => true | _ => false end)) l = true ->
  exists e, write_item_data_reply m l = WErr e.
Proof. exact write_item_data_unsupported. Qed.

Theorem c07_notify_user_unsupported : forall m bw b,
  (match bw with PFloat _ => False | _ => True end) \/ (match b with PBool _ => False | _ => True end) ->
  exists e, write_notify_user m bw b = WErr e.
Proof. exact write_notify_user_unsupported. Qed.

Theorem c07_update_unsupported : forall item rid snap (fields : list (pyval * pyval)),
  negb (text_like item) || negb (text_like rid)
  || negb (match snap with PBool _ => true | _ => false end)
  || existsb (fun fv : pyval * pyval => negb (text_like (fst fv)) || negb (text_like (snd fv))) fields = true ->
  exists e, write_update_map item rid snap (PDict fields) = WErr e.
Proof. exact write_update_unsupported. Qed.

(* non-vacuity *)
Example c07_example_update :
  write_update_map (PStr (bs "it|1")) (PStr (bs "r1")) (PBool true)
    (PDict [(PStr (bs "f 1"), PStr (bs "v+1")); (PStr (bs "f2"), PBytes (bs "abc")); (PStr (bs "f3"), PNone)])
  = WOk (bs "UD3|S|it%7C1|S|r1|B|1|S|f+1|S|v%2B1|S|f2|Y|YWJj|S|f3|S|#").
Proof. vm_compute. reflexivity. Qed.

Example c07_example_item_data :
  write_item_data_reply MGIT [item_triple (5%Z, bs "1.5", [ModeRaw; ModeCommand]); item_triple ((-3)%Z, bs "0.0", [])]
  = WOk (bs "GIT|I|5|D|1.5|M|RC|I|-3|D|0.0|M|$").
Proof. vm_compute. reflexivity. Qed.

(* the code before the repair of finding F3 violated c07_lists_unsupported:
   a falsy non-text element (the int 0) was written as the empty-string token *)
Example c07_legacy_refuted :
  encode_string_legacy (PInt 0) = WOk (bs "$") /\ text_like (PInt 0) = false.
Proof. vm_compute. split; reflexivity. Qed.

Print Assumptions c07_lists.
Print Assumptions c07_item_data.
Print Assumptions c07_notify_user.
Print Assumptions c07_update.
Print Assumptions c07_item_notify.
Print Assumptions c07_failure.
Print Assumptions c07_void.
Print Assumptions c07_init_reply.
Print Assumptions c07_lists_unsupported.
Print Assumptions c07_item_data_unsupported.
Print Assumptions c07_notify_user_unsupported.
Print Assumptions c07_update_unsupported.
Print Assumptions c07_example_update.
Print Assumptions c07_example_item_data.
Print Assumptions c07_legacy_refuted.

(* ------------------------------------------------------------------------------------------
   The envelope around those texts (Model/Envelope.v: _RequestManager.send_reply, the @notify
   timestamp prefix, the CRLF of the writer): the Proxy Adapter finds the request id /
   the millisecond timestamp as the first token and the text, token for token, after it. *)
From LS Require Import Model.Envelope Proofs.BytesProofs Proofs.EnvelopeProofs.

Theorem c07_reply_envelope : forall rid resp,
  ~ In c_pipe rid ->
  open_envelope (reply_message rid resp) = Some (rid, split_on c_pipe resp).
Proof. exact reply_envelope. Qed.

Theorem c07_notify_envelope : forall ts ntfy,
  open_envelope (notify_message ts ntfy) = Some (Z_to_dec ts, split_on c_pipe ntfy)
  /\ dec_value (Z_to_dec ts) = ts.
Proof. exact notify_envelope. Qed.

Theorem c07_reply_envelope_injective : forall r1 r2 a b,
  ~ In c_pipe r1 -> ~ In c_pipe r2 ->
  reply_message r1 a = reply_message r2 b -> r1 = r2 /\ a = b.
Proof. exact reply_envelope_injective. Qed.

Print Assumptions c07_reply_envelope.
Print Assumptions c07_notify_envelope.
Print Assumptions c07_reply_envelope_injective.
