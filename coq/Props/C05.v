(* Props/C05.v — Text codec (protocol.py encode_string / decode_string).
   Statements only; proofs are in Proofs/CodecProofs.v.

   A text value is  None  or a Python str; a str without lone surrogates is a
   list of Unicode scalar values (valid_scalar), put on the wire through its
   UTF-8 bytes:
     encode_utext : option (list scalar) -> bytes
     decode_utext : bytes -> option (option (list scalar))   (None = the decoder raises)
   and, one level below, on the UTF-8 / raw bytes themselves:
     encode_text : option bytes -> bytes,   decode_string : bytes -> option bytes.
   tok_char c  says that c is one of  A-Z a-z 0-9 _ . - ~ + %  (c05_alphabet_chars).
   The literals "#" = [c_hash] and "$" = [c_dollar] below are those of the
   property text; the model takes them from Gen/Consts.v (null_value,
   empty_value, reflected from the live library), so a changed constant breaks
   these theorems. *)
From Coq Require Import List Ascii String NArith Bool.
From LS Require Import Model.Bytes Gen.Consts Model.Quote Model.Utf8 Model.Codec
  Proofs.QuoteProofs Proofs.CodecProofs.
Import ListNotations.
Local Open Scope N_scope.

(* "the wire encoding is a single non-empty token over the characters
   A-Z a-z 0-9 _ . - ~ + %" : None is "#", the empty string is "$", every other
   string gives a non-empty token of tok_chars *)
Theorem c05_alphabet :
  encode_utext None = [c_hash] /\
  encode_utext (Some []) = [c_dollar] /\
  forall s : list scalar, s <> [] ->
    encode_utext (Some s) <> [] /\
    forallb tok_char (encode_utext (Some s)) = true.
Proof. exact encode_utext_shape. Qed.

(* tok_char is exactly membership in the alphabet named by the property *)
Theorem c05_alphabet_chars : forall c,
  tok_char c = existsb (Ascii.eqb c)
    (bs "ABCDEFGHIJKLMNOPQRSTUVWXYZabcdefghijklmnopqrstuvwxyz0123456789_.-~+%").
Proof. exact tok_char_spec. Qed.

(* "hence free of the field separator, CR, LF and blanks" : for every value
   (None and "" included) the token is non-empty and contains no '|', CR, LF
   nor any whitespace character *)
Theorem c05_sep_free : forall t : option (list scalar),
  encode_utext t <> [] /\
  forall c, In c (encode_utext t) ->
    c <> c_pipe /\ c <> c_cr /\ c <> c_lf /\ is_space c = false.
Proof. exact encode_utext_sep_free. Qed.

(* "decoding it returns exactly the original value" *)
Theorem c05_roundtrip : forall t : option (list scalar),
  (match t with Some s => forallb valid_scalar s = true | None => True end) ->
  decode_utext (encode_utext t) = Some t.
Proof. exact decode_encode_utext. Qed.

(* "the tokens '#' and '$' are produced only for None and for the empty
   string" *)
Theorem c05_special_only : forall t : option (list scalar),
  (encode_utext t = [c_hash] <-> t = None) /\
  (encode_utext t = [c_dollar] <-> t = Some []).
Proof. exact encode_utext_special. Qed.

(* "so distinct values never share an encoding" *)
Theorem c05_injective : forall a b : option (list scalar),
  (match a with Some s => forallb valid_scalar s = true | None => True end) ->
  (match b with Some s => forallb valid_scalar s = true | None => True end) ->
  encode_utext a = encode_utext b -> a = b.
Proof. exact encode_utext_injective. Qed.

(* "decoding also accepts every standard URL-encoding of a value (upper/lower-
   case hex, literal '*', escaped '~', '+' for space)" : alt_enc b t
   (Proofs/QuoteProofs.v) says that t is a concatenation of encodings of the
   bytes of b, each byte written literally (ASCII other than '%' and '+'), as
   '+' for a space, or as %XY with hex digits of either case *)
Theorem c05_alt : forall (s : list scalar) (t : bytes),
  forallb valid_scalar s = true ->
  alt_enc (utf8_enc s) t -> t <> [c_hash] -> t <> [c_dollar] ->
  decode_utext t = Some (Some s).
Proof. exact decode_alt_utext. Qed.

(* the same round trip one level below, on arbitrary byte strings: covers
   bytes arguments and is what c05_roundtrip is built on *)
Theorem c05_bytes_roundtrip : forall t : option bytes,
  decode_string (encode_text t) = t.
Proof. exact decode_encode_text. Qed.

(* the writer encode_string is encode_text on None / str / bytes arguments ... *)
Theorem c05_writer_text : forall t : option bytes,
  encode_string (py_of_text t) = WOk (encode_text t).
Proof. exact encode_string_text. Qed.

Theorem c05_writer_bytes : forall b : bytes,
  encode_string (PBytes b) = WOk (encode_text (Some b)).
Proof. exact encode_string_bytes. Qed.

(* ... and raises the library's exception on anything else *)
Theorem c05_writer_unsupported : forall v,
  (match v with PNone | PStr _ | PBytes _ => False | _ => True end) ->
  encode_string v = WErr WRemoting.
Proof. exact encode_string_unsupported. Qed.

(* the safe set used by the model of quote_plus is the one reflected from the
   live urllib.parse._ALWAYS_SAFE *)
Theorem c05_safe_set_reflected : forall c,
  always_safe c = existsb (Ascii.eqb c) always_safe_chars.
Proof. exact always_safe_reflected. Qed.

(* non-vacuity: "a b|é€😀#$%+" is a valid text value; its token is the one
   CPython's quote_plus prints, and decodes back *)
Example c05_example :
  forallb valid_scalar [97; 32; 98; 124; 233; 8364; 128512; 35; 36; 37; 43] = true /\
  encode_utext (Some [97; 32; 98; 124; 233; 8364; 128512; 35; 36; 37; 43])
  = bs "a+b%7C%C3%A9%E2%82%AC%F0%9F%98%80%23%24%25%2B" /\
  decode_utext (bs "a+b%7C%C3%A9%E2%82%AC%F0%9F%98%80%23%24%25%2B")
  = Some (Some [97; 32; 98; 124; 233; 8364; 128512; 35; 36; 37; 43]).
Proof. exact utext_example. Qed.

(* non-vacuity of c05_alt: "é*~ x+" written with lower-case hex, a literal
   '*', an escaped '~', '+' for the space and an escaped '+' *)
Example c05_alt_example :
  alt_enc (utf8_enc [233; 42; 126; 32; 120; 43]) (bs "%c3%A9*%7e+x%2b") /\
  decode_utext (bs "%c3%A9*%7e+x%2b") = Some (Some [233; 42; 126; 32; 120; 43]).
Proof. exact utext_alt_example. Qed.

(* the code before the repair of finding F3 violated c05_special_only /
   c05_injective: a non-text value (the int 0) was sent as "$" *)
Theorem c05_legacy_refuted :
  exists v,
    (match v with PNone | PStr _ | PBytes _ => False | _ => True end) /\
    encode_string_legacy v = WOk [c_dollar].
Proof. exact encode_string_legacy_refuted. Qed.

Print Assumptions c05_alphabet.
Print Assumptions c05_alphabet_chars.
Print Assumptions c05_sep_free.
Print Assumptions c05_roundtrip.
Print Assumptions c05_special_only.
Print Assumptions c05_injective.
Print Assumptions c05_alt.
Print Assumptions c05_bytes_roundtrip.
Print Assumptions c05_writer_text.
Print Assumptions c05_writer_bytes.
Print Assumptions c05_writer_unsupported.
Print Assumptions c05_safe_set_reflected.
Print Assumptions c05_example.
Print Assumptions c05_alt_example.
Print Assumptions c05_legacy_refuted.
