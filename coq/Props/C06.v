(* Props/C06.v — Request decoding inverts a conforming ARI encoder.

   "For each request kind (DPI, SUB, USB, MPI, NUS, NUA, NNS, NSC, GIS, GSC,
   GIT, GUI, NUM, NNT, NTC, MDA, MSA, MDC) and all argument values, decoding a
   request line produced by a conforming ARI encoder yields the request id, the
   method, and exactly those values in their roles (user vs password vs
   principal vs session id, header and context maps pair by pair, item lists
   element by element in order, table descriptors with all seven attributes,
   MPN device and subscription descriptors).  The result does not depend on
   whether the line ends in CRLF or LF."

   Statements only; proofs are in Proofs/ReadersRoundtrip.v.

   - [decode_line] (Model/Readers.v) is the library: protocol.parse_request,
     then the decorated read_* function of the method found.
   - [encode_line id m q term] (Model/AriSpec.v) is the reference encoder of a
     conforming Proxy Adapter: id|METHOD|typed tokens, then the terminator.
     [q : wire_request] carries the argument values in their roles,
     [shape_ok m q] says q is the argument shape of method m (it is false for
     the 7 non-request methods, so m ranges over exactly the 18 kinds), and
     [expected q : request] is the decoded request with the same values in
     the same roles (maps as Python dicts: first-occurrence order, last
     binding wins; for MSA the table has no selector).
   - Text values are arbitrary [option bytes] (None allowed everywhere), maps
     arbitrary pair lists (duplicate keys allowed), lists and table lists of
     arbitrary length.
   - [ints_ok q]: every integer attribute of every table in q prints in at
     most 4300 characters (Python's int() refuses longer numerals); implied by
     |z| < 2^4298 for each of them ([int_ok_bounded]). *)
From Coq Require Import String List Ascii NArith ZArith Bool.
From LS Require Import Model.Bytes Model.Tags Gen.Consts Model.Codec
  Model.Readers Model.AriSpec Proofs.ReadersRoundtrip.
Import ListNotations.

(* the hypotheses, unfolded for the reader *)
Remark c06_wf_id_def : forall id,
  wf_id id = negb (is_nil id)
             && forallb (fun c => negb (Ascii.eqb c c_pipe) && negb (is_space c)) id.
Proof. reflexivity. Qed.

Remark c06_ints_ok_def : forall q,
  ints_ok q =
  match q with
  | WNNT _ _ ts => Forall table_ints_ok ts
  | WNTC _ ts => Forall table_ints_ok ts
  | WMSA _ _ t _ => table_ints_ok t
  | _ => True
  end.
Proof. reflexivity. Qed.

Remark c06_table_ints_ok_def : forall t,
  table_ints_ok t =
  ((N.of_nat (length (Z_to_dec (t_win t))) <= 4300)%N /\
   (N.of_nat (length (Z_to_dec (t_min t))) <= 4300)%N /\
   (N.of_nat (length (Z_to_dec (t_max t))) <= 4300)%N).
Proof. reflexivity. Qed.

Remark c06_int_bound : forall z,
  (Z.abs z < 2 ^ 4298)%Z -> (N.of_nat (length (Z_to_dec z)) <= 4300)%N.
Proof. exact int_ok_bounded. Qed.

(* main theorem: id, method and every argument value in its role *)
Theorem c06_roundtrip : forall id m q term,
  wf_id id = true -> shape_ok m q = true -> (term = crlf \/ term = lf) ->
  ints_ok q ->
  decode_line (encode_line id m q term) = LReq id m (POk (expected q)).
Proof. exact decode_encode_line. Qed.

(* the argument tokens alone: the decorated reader of m inverts the encoder *)
Theorem c06_reader : forall m q,
  shape_ok m q = true -> ints_ok q ->
  read_request m (encode_args q) = POk (expected q).
Proof. exact read_request_enc. Qed.

(* terminator independence, for EVERY line body (not only encoder output, and
   whether or not the body itself ends in blanks): CRLF, LF and no terminator
   at all decode alike *)
Theorem c06_term_indep : forall body,
  decode_line (body ++ crlf) = decode_line (body ++ lf) /\
  decode_line (body ++ crlf) = decode_line body.
Proof.
  intros body.
  rewrite (decode_line_app_space body crlf crlf_space).
  rewrite (decode_line_app_space body lf lf_space).
  split; reflexivity.
Qed.

(* id and method are recovered for each of the 18 methods whatever the argument
   tokens are (also when the reader then rejects them) *)
Theorem c06_id_method : forall id m q term,
  wf_id id = true -> In m request_methods -> (term = crlf \/ term = lf) ->
  decode_line (encode_line id m q term) =
  LReq id m (read_request m (encode_args q)).
Proof.
  intros id m q term Hid Hm Hterm.
  apply decode_encode_line_id_method; [exact Hid | exact Hm |].
  apply term_space. exact Hterm.
Qed.

(* ---------- non-vacuity ---------- *)

Definition ex_id : bytes := bs "10000010c3e4d0462".

(* NNT with two tables (negative integer, empty string, null, quoted
   separator and blank inside a value) *)
Definition ex_nnt : wire_request :=
  WNNT (Some (bs "user 1")) (Some (bs "S8f3da29cfc463220T5454537"))
    [ {| t_win := 1; t_mode := Some ModeMerge; t_group := Some (bs "nasdaq100_AA_AL");
         t_schema := Some (bs "short"); t_min := 1; t_max := 5; t_selector := None |};
      {| t_win := 1; t_mode := Some ModeCommand; t_group := Some [];
         t_schema := Some (bs "a|b c"); t_min := (-6); t_max := 10;
         t_selector := Some (bs "x") |} ].

Definition ex_nnt_wire : bytes :=
  bs "10000010c3e4d0462|NNT|S|user+1|S|S8f3da29cfc463220T5454537|I|1|M|M|S|nasdaq100_AA_AL|S|short|I|1|I|5|S|#|I|1|M|C|S|$|S|a%7Cb+c|I|-6|I|10|S|x".

Example c06_example_nnt_hyps :
  wf_id ex_id = true /\ shape_ok MNNT ex_nnt = true /\ ints_ok ex_nnt.
Proof.
  split; [vm_compute; reflexivity|]. split; [reflexivity|].
  repeat constructor; apply int_ok_bounded; vm_compute; reflexivity.
Qed.

Example c06_example_nnt_wire :
  encode_line ex_id MNNT ex_nnt crlf = ex_nnt_wire ++ crlf.
Proof. vm_compute. reflexivity. Qed.

(* computed on the closed term; agrees with c06_roundtrip *)
Example c06_example_nnt :
  decode_line (ex_nnt_wire ++ crlf) = LReq ex_id MNNT (POk (expected ex_nnt))
  /\ decode_line (ex_nnt_wire ++ lf) = LReq ex_id MNNT (POk (expected ex_nnt))
  /\ expected ex_nnt =
     QNNT (Some (bs "user 1")) (Some (bs "S8f3da29cfc463220T5454537"))
       [ {| t_win := 1; t_mode := Some ModeMerge; t_group := Some (bs "nasdaq100_AA_AL");
            t_schema := Some (bs "short"); t_min := 1; t_max := 5; t_selector := None |};
         {| t_win := 1; t_mode := Some ModeCommand; t_group := Some [];
            t_schema := Some (bs "a|b c"); t_min := (-6); t_max := 10;
            t_selector := Some (bs "x") |} ].
Proof. vm_compute. repeat split. Qed.

(* NUS with a duplicated header key: one dict entry, last value, first position *)
Definition ex_nus : wire_request :=
  WNUS (Some (bs "user")) (Some (bs "pass word"))
    [ (Some (bs "host"), Some (bs "a")); (Some (bs "agent"), Some (bs "x|y"));
      (Some (bs "host"), Some (bs "b")) ].

Definition ex_nus_wire : bytes :=
  bs "10000010c3e4d0462|NUS|S|user|S|pass+word|S|host|S|a|S|agent|S|x%7Cy|S|host|S|b".

Example c06_example_nus_hyps :
  wf_id ex_id = true /\ shape_ok MNUS ex_nus = true /\ ints_ok ex_nus.
Proof. split; [vm_compute; reflexivity|]. split; [reflexivity | exact I]. Qed.

Example c06_example_nus_wire :
  encode_line ex_id MNUS ex_nus lf = ex_nus_wire ++ lf.
Proof. vm_compute. reflexivity. Qed.

Example c06_example_nus :
  decode_line (ex_nus_wire ++ lf) = LReq ex_id MNUS (POk (expected ex_nus))
  /\ decode_line (ex_nus_wire ++ crlf) = LReq ex_id MNUS (POk (expected ex_nus))
  /\ expected ex_nus =
     QNUS (Some (bs "user")) (Some (bs "pass word"))
       [ (Some (bs "host"), Some (bs "b")); (Some (bs "agent"), Some (bs "x|y")) ].
Proof. vm_compute. repeat split. Qed.

(* the theorem instantiated at the two examples (same equations, by the
   general proof rather than by computation) *)
Example c06_example_nnt_by_theorem :
  decode_line (encode_line ex_id MNNT ex_nnt crlf) = LReq ex_id MNNT (POk (expected ex_nnt)).
Proof.
  destruct c06_example_nnt_hyps as [H1 [H2 H3]].
  exact (c06_roundtrip ex_id MNNT ex_nnt crlf H1 H2 (or_introl eq_refl) H3).
Qed.

Example c06_example_nus_by_theorem :
  decode_line (encode_line ex_id MNUS ex_nus lf) = LReq ex_id MNUS (POk (expected ex_nus)).
Proof.
  destruct c06_example_nus_hyps as [H1 [H2 H3]].
  exact (c06_roundtrip ex_id MNUS ex_nus lf H1 H2 (or_intror eq_refl) H3).
Qed.

Print Assumptions c06_roundtrip.
Print Assumptions c06_reader.
Print Assumptions c06_term_indep.
Print Assumptions c06_id_method.
Print Assumptions c06_example_nnt.
Print Assumptions c06_example_nus.
Print Assumptions c06_example_nnt_by_theorem.
Print Assumptions c06_example_nus_by_theorem.
