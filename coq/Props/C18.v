(* Props/C18.v — Adapter calls run on the worker pool; pool of one is strictly sequential.

   "All adapter request-handling methods (everything except initialize and, for a Data
   Adapter, set_listener) run on the server's worker pool, whose size is the configured
   thread_pool_size (the CPU count when 0, negative or None), never on the connection's
   reader or writer thread; hence an adapter call that blocks does not stop the library
   from reading further requests or from writing other replies while a worker is free.
   With a pool size of 1, adapter invocations never overlap, and Metadata requests are
   handled in arrival order."

   Statements only; proofs are in Proofs/ShellPool.v.  Vocabulary as in Props/C04.v.
   [COther] = any adapter method other than initialize / set_listener.  A blocked
   adapter call is a worker that takes no step while at [KBusy _ _ true _]. *)
From Coq Require Import String List Ascii NArith ZArith Bool.
From LS Require Import Model.Bytes Model.Tags Model.AriReply Model.Shell Model.ShellSpec Proofs.ShellPool.
Import ListNotations.

(* pool sizing (Server.__init__) *)
Theorem c18_pool_size : forall c cpu,
  pool_size c cpu =
  match c with
  | Some z => if (0 <? z)%Z then Z.to_nat z else match cpu with Some n => n | None => 4 end
  | None => match cpu with Some n => n | None => 4 end
  end.
Proof. exact pool_size_spec. Qed.

(* never on the reader, writer, starter, application or adapter-owned threads *)
Theorem c18_on_workers_only : forall k h n s th, sreach k h n s ->
  In (ECallB th COther) (sh_hist s) -> exists w, th = ThWorker w.
Proof. exact calls_on_workers_only. Qed.

(* ... and only by a worker that is running a job, one call at a time per worker (monitor pool_ok) *)
Theorem c18_inside_jobs : forall k h n s, sreach k h n s -> pool_ok (sh_hist s) = true.
Proof. exact pool_ok_reachable. Qed.

(* a blocked adapter call stops neither the reader, nor the writer, nor a free worker: in EVERY state
   in which worker w is inside an adapter call, reading a pending chunk, taking the next line to write
   and starting the next queued job on an idle worker are enabled *)
Theorem c18_non_blocking : forall s w j kd d lines,
  sh_exited s = false ->
  nth_error (sh_workers s) w = Some (KBusy j kd true d) ->
  (sh_rpc s = RRecv -> sh_sock_closed s = false -> step s ThReader (ARecv lines) <> None) /\
  (sh_wpc s = WWait -> sh_outq s <> [] -> step s ThWriter AGet <> None) /\
  (forall w' j' k' rest, nth_error (sh_workers s) w' = Some KIdle -> sh_jobs s = (j', k') :: rest ->
     step s (ThWorker w') (AJobStart j') <> None).
Proof. exact non_blocking. Qed.

(* pool of one: adapter invocations never overlap, jobs complete in submission (= arrival) order *)
Theorem c18_pool_of_one : forall k h s, sreach k h 1 s ->
  serial_calls (sh_hist s) = true /\ ends_in_order (sh_hist s) = true.
Proof. exact one_worker_serial. Qed.

(* non-vacuity: two workers, the first blocked inside an adapter call while the second serves the next request *)
Example c18_example :
  match started KMeta HNone 2 with
  | Some s0 =>
      match run s0 [(ThReader, ARecv [LcInit 0 true false false]); (ThReader, ACallB CInit); (ThReader, ACallE CInit true);
                    (ThReader, APut (OInitReply 0 true)); (ThReader, ARecv [LcReq 1 true true; LcReq 2 true true]);
                    (ThWorker 0, AJobStart 0); (ThWorker 0, ACallB COther);
                    (ThWorker 1, AJobStart 1); (ThWorker 1, ACallB COther); (ThWorker 1, ACallE COther true);
                    (ThWorker 1, APut (OReply 2)); (ThWorker 1, AJobEnd)] with
      | Some s => map snd (puts_of (sh_hist s)) = [ORac; OInitReply 0 true; OReply 2] /\
                  nth_error (sh_workers s) 0 = Some (KBusy 0 (JMeta 1) true false)
      | None => False
      end
  | None => False
  end.
Proof. vm_compute. split; reflexivity. Qed.

Print Assumptions c18_pool_size.
Print Assumptions c18_on_workers_only.
Print Assumptions c18_inside_jobs.
Print Assumptions c18_non_blocking.
Print Assumptions c18_pool_of_one.
Print Assumptions c18_example.
