(* Props/C14.v — The credentials message is the first message on every connection.

   "On every connection the first reply or notification line written is the
   remote-credentials message with id 1, written exactly once and before the reply to any
   request, however early the Proxy Adapter's requests arrive.  It carries the user and
   password parameters iff each is configured (an empty string is sent as the empty token),
   always requests close packets and names the SDK, with every value encoded as a text token."

   Statements only.  Ordering: Proofs/ShellStart.v over the connection-level transition system
   Model/Shell.v (vocabulary as in Props/C04.v and Props/C10.v: [sreach k h n s] quantifies over
   every interleaving of the starting thread with the reader, writer, worker, application and
   adapter threads, and over every chunking of the inbound bytes — requests already readable when
   the connection is made included: the reader can take its first step as soon as it has been
   started).  [puts_of h] = the lines enqueued, in order, with the enqueuing thread;
   [written_of h] = the lines the writer has put on the socket, in order; [ORac] = the
   remote-credentials message.  Content: Proofs/WritersProofs.v over Model/Writers.v
   (write_credentials) and the reference decoder Model/AriReply.v; the id "1" is the envelope
   (Props/C07.v c07_reply_envelope; Server._send_remote_credentials passes the literal "1",
   compared on every run by the check). *)
From Coq Require Import String List Ascii NArith ZArith Bool.
From LS Require Import Model.Bytes Model.Tags Gen.Consts Model.Codec Model.Writers Model.AriReply
                       Model.Shell Model.ShellSpec Proofs.WritersProofs Proofs.ShellStart.
Import ListNotations.

(* the first line ever enqueued is the credentials message, enqueued by the starting thread, and no
   second one is ever enqueued *)
Theorem c14_enqueued_first : forall k h n s, sreach k h n s -> rac_first (sh_hist s) = true.
Proof. exact rac_first_reachable. Qed.

(* until it is enqueued nothing exists that could enqueue anything: the reader has not been started,
   the pool is empty and idle, the application has no handle to close() *)
Theorem c14_nothing_can_precede : forall k h n s, sreach k h n s -> inv_start s = true.
Proof. exact inv_start_reachable. Qed.

(* the writer writes what was enqueued, in that order (single FIFO consumer) ... *)
Theorem c14_written_in_queue_order : forall k h n s, sreach k h n s -> written_prefix (sh_hist s) = true.
Proof. exact written_prefix_reachable. Qed.

(* ... hence the first line WRITTEN on the connection is the credentials message *)
Theorem c14_first_written : forall k h n s l rest, sreach k h n s ->
  written_of (sh_hist s) = l :: rest -> l = ORac.
Proof. exact first_written_is_rac. Qed.

(* exactly once, from the moment start() has passed that point *)
Theorem c14_exactly_once : forall k h n s, sreach k h n s -> (2 <= sh_start s)%nat ->
  count (fun p => is_rac (snd p)) (puts_of (sh_hist s)) = 1%nat.
Proof. exact rac_exactly_once. Qed.

(* content, for EVERY credential configuration (user / password each absent, empty or any byte
   string): the line decodes, with the reference decoder of parameter lists, to user iff configured,
   password iff configured (an empty string as the empty value, not as absent), then
   enableClosePacket=true and the SDK name; every value is a text token; no CR / LF *)
Theorem c14_content : forall (u p : option bytes),
  exists line, write_credentials (cred u) (cred p) = WOk line /\
    decode_params line = Some (bs "RAC",
      (match u with Some s => [(bs "user", Some s)] | None => [] end) ++
      (match p with Some s => [(bs "password", Some s)] | None => [] end) ++
      [(bs "enableClosePacket", Some (bs "true")); (bs "SDK", Some (bs "Python Adapter SDK"))]) /\
    clean line.
Proof. exact write_credentials_decodes. Qed.

(* the monitor rejects a reply enqueued before the credentials, credentials enqueued by another
   thread, and a second credentials message *)
Example c14_monitor_rejects :
  rac_first [EPut ThReader (OInitReply 0 true); EPut ThStarter ORac] = false /\
  rac_first [EPut ThReader ORac] = false /\
  rac_first [EPut ThStarter ORac; EPut ThStarter ORac] = false /\
  rac_first [EPut ThStarter ORac; EPut ThReader (OInitReply 0 true)] = true /\
  written_prefix [EPut ThStarter ORac; EPut ThReader (OInitReply 0 true); EWritten (OInitReply 0 true)] = false.
Proof. vm_compute. repeat split; reflexivity. Qed.

(* the empty string is not "absent" *)
Example c14_empty_user :
  write_credentials (PStr []) PNone = WOk (bs "RAC|S|user|S|$|S|enableClosePacket|S|true|S|SDK|S|Python+Adapter+SDK").
Proof. vm_compute. reflexivity. Qed.

Print Assumptions c14_enqueued_first.
Print Assumptions c14_nothing_can_precede.
Print Assumptions c14_written_in_queue_order.
Print Assumptions c14_first_written.
Print Assumptions c14_exactly_once.
Print Assumptions c14_content.
Print Assumptions c14_monitor_rejects.
Print Assumptions c14_empty_user.
