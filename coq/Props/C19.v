(* Props/C19.v — Quiescent subscription state is exact; nothing retained after unsubscribe.

   "Once all requests for an item have been processed and the last of them was an
   unsubscription, the server retains no per-item bookkeeping for that item, so the
   memory of a long-lived server does not grow with the number of distinct items
   ever subscribed, and events for it are dropped; if the last one was a
   subscription that succeeded, exactly that subscription is the live one.  This
   holds for every interleaving of request arrival with the completion of earlier
   work for the same item."

   Statements only; proofs are in Proofs/Item*.v.  Vocabulary as in Props/C01.v.
   [quiescent s]: the reader is not between its two regions and every dequeuing
   job of the item has finished (its last step is _dec_queued).  [s_active s]: the
   item's entry in SubscriptionManager._active_items (index of the manager object),
   the only per-item bookkeeping the library keeps; "memory does not grow" is
   proved as "no entry and no live reference in the library's data structures". *)
From Coq Require Import String List Ascii NArith ZArith Bool.
From LS Require Import Model.Bytes Model.Tags Gen.Consts Model.Codec Model.Writers Model.AriReply
  Model.Item Model.ItemSpec Model.ItemSpec2 Proofs.ItemInv Proofs.ItemGlobal.
From LS Require Proofs.ItemStruct Proofs.ItemCode Proofs.ItemMonD.
Import ListNotations.

(* last request an unsubscription: no entry, no id; with c19_no_entry_no_reference nothing refers to the item *)
Theorem c19_clean_after_unsubscription : forall item s t,
  reachable item s -> quiescent s = true -> last_seen s = Some t -> t_sub t = false ->
  s_active s = None /\ active_code s = None /\ hist_code (s_hist s) = None.
Proof. exact ItemMonD.quiescent_after_usb_clean. Qed.

(* whenever there is no entry (in particular right after its removal), no reader is in
   between and no dequeuing job of the item is alive: no thread holds a reference *)
Theorem c19_no_entry_no_reference : forall item s,
  reachable item s -> s_active s = None ->
  s_pending s = None /\ forallb (fun d => pc_done (d_pc d)) (s_dqs s) = true.
Proof.
  intros item s H. destruct (inv_all_parts s (Inv_all s (reachable_Inv item s H))) as (Hs & _).
  apply ItemStruct.deleted_clean. exact Hs.
Qed.

(* events for it are dropped *)
Theorem c19_events_dropped : forall item s l k s',
  reachable item s -> hist_code (s_hist s) = None ->
  nth_error (s_lis s) l = Some (LRead k) -> step s (LbFreeLockM l) = Some s' ->
  s_hist s' = s_hist s ++ [ELisDropped (OFree l) k] /\ nth_error (s_lis s') l = Some LIdle.
Proof.
  intros item s l k s' H. destruct (inv_all_parts s (Inv_all s (reachable_Inv item s H))) as (_ & _ & _ & _ & Hc & _).
  apply ItemCode.free_read_dropped. exact Hc.
Qed.

(* last request a subscription: exactly that subscription is the live one *)
Theorem c19_live_after_subscription : forall item s t,
  reachable item s -> quiescent s = true -> last_seen s = Some t -> t_sub t = true ->
  active_code s = Some (t_rid t) /\ In (ESetCode t) (s_hist s).
Proof. exact ItemMonD.latest_sub_published. Qed.

(* an item never requested has no bookkeeping at all *)
Theorem c19_never_requested : forall item s,
  reachable item s -> seen (s_hist s) = [] -> s_active s = None /\ s_mgrs s = [].
Proof. exact ItemMonD.nothing_seen_clean. Qed.

(* in a quiescent state with an entry the counters are exact *)
Theorem c19_counters_at_rest : forall item s m,
  reachable item s -> quiescent s = true -> active_mgr s = Some m ->
  m_queued m = 0%Z /\ m_deq m = [] /\ m_running m = false.
Proof.
  intros item s m H. pose proof (reachable_Inv item s H) as (Hall & _ & Hr & _).
  destruct (inv_all_parts s Hall) as (Hs & _). apply ItemStruct.quiescent_counts; assumption.
Qed.

(* any number of items: the set of items with an entry, in a state where every item is at rest,
   is contained in the set of items whose last request is a subscription *)
Theorem c19_bounded : forall allowed g, greach allowed g -> forall i t,
  quiescent (g i) = true -> last_seen (g i) = Some t -> t_sub t = false -> s_active (g i) = None.
Proof.
  intros allowed g Hg i t Hq Hl Ht.
  destruct (c19_clean_after_unsubscription i (g i) t (greach_item allowed g Hg i) Hq Hl Ht) as [H _]. exact H.
Qed.

(* non-vacuity: SUB r1 executed, USB r2 executed; at rest nothing is left *)
Definition c19_demo : list label :=
  [LbR1 {| t_rid := bs "r1"; t_sub := true |}; LbR2; LbJobStart 0; LbLockI 0; LbLockM 0;
   LbCallB 0; LbCallE 0 (CRet false); LbCallB 0; LbCallE 0 (CRet false); LbPut 0; LbLockI 0;
   LbR1 {| t_rid := bs "r2"; t_sub := false |}; LbR2;      (* arrives between the job's loop exit and its bookkeeping update *)
   LbLockM 0; LbJobStart 1; LbLockI 1; LbCallB 1; LbCallE 1 (CRet false); LbPut 1; LbLockM 1; LbLockI 1; LbLockM 1].

Example c19_example :
  match run_env (init_state (bs "item")) c19_demo with
  | Some s => quiescent s = true /\ s_active s = None /\ map t_rid (replied (s_hist s)) = [bs "r1"; bs "r2"]
  | None => False
  end.
Proof. vm_compute. repeat split; reflexivity. Qed.

Print Assumptions c19_clean_after_unsubscription.
Print Assumptions c19_no_entry_no_reference.
Print Assumptions c19_events_dropped.
Print Assumptions c19_live_after_subscription.
Print Assumptions c19_never_requested.
Print Assumptions c19_counters_at_rest.
Print Assumptions c19_bounded.
Print Assumptions c19_example.
