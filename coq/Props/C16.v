(* Props/C16.v — Outbound messages are atomic lines in per-thread submission order.

   "Every message is written to the connection as one contiguous line terminated by
   CRLF even when many adapter threads and pool threads submit concurrently: lines
   never interleave, are never duplicated and never vanish while the connection is
   up.  Messages submitted by one thread are written in that thread's submission
   order; in particular events sent from inside subscribe() precede that
   subscription's reply."

   Statements only; proofs are in Proofs/OutboundProofs.v (and Proofs/Item*.v for
   the last clause).
   - Model/Outbound.v: any number of producer threads call send (OPut p m: thread p
     enqueues m), the single writer takes the head of the FIFO queue (OGet; or the
     keepalive timeout fires, OGetTimeout) and writes it with ONE sendall (OSend).
     [orun out_init ls = Some s]: any interleaving of any number of producers with
     the writer, scheduled arbitrarily late.  [o_puts s] is the linearization order
     of the puts (it IS the label order: c16_puts_in_program_order), so every
     thread's submissions appear in it in that thread's program order.
   - [rendered]: the submitted messages (pills excluded) as the writer renders them.
   - queue.Queue as a linearizable FIFO and sendall as atomic and complete are
     assumptions about the standard library (DESIGN.md section 8). *)
From Coq Require Import String List Ascii NArith ZArith Bool.
From LS Require Import Model.Bytes Model.Tags Gen.Consts Model.Outbound Proofs.OutboundProofs
  Model.Codec Model.Writers Model.AriReply Model.Item Model.ItemSpec Proofs.ItemInv.
From LS Require Proofs.ItemMonB.
Import ListNotations.

(* never duplicated, never vanish: written ++ in the writer's hand ++ still queued = everything submitted, in order *)
Theorem c16_no_loss_no_dup : forall ls s,
  orun out_init ls = Some s -> timeouts ls = 0%nat -> o_alive s = true ->
  Forall (fun x => bytes_eqb (snd x) keepalive_pill = false /\ bytes_eqb (snd x) stop_pill = false) (o_puts s) ->
  o_written s ++ hand_list s ++ rendered (o_queue s) = rendered (o_puts s).
Proof. exact no_loss_no_dup. Qed.

(* per-thread submission order, also with keepalives injected in between *)
Theorem c16_per_thread_order : forall ls s p,
  orun out_init ls = Some s -> (0 < p)%nat ->
  Forall (fun x => fst x = p ->
                   bytes_eqb (snd x) keepalive_pill = false /\ bytes_eqb (snd x) stop_pill = false) (o_puts s) ->
  exists rest, by_thread p (rendered (o_puts s)) = by_thread p (o_written s) ++ rest.
Proof. exact per_thread_order. Qed.

Theorem c16_puts_in_program_order : forall ls s,
  orun out_init ls = Some s ->
  o_puts s = flat_map (fun l => match l with OPut p m => [(p, m)] | _ => [] end) ls.
Proof. exact puts_are_labels. Qed.

(* one contiguous line terminated by CRLF per message ... *)
Theorem c16_stream_is_lines : forall ls s,
  orun out_init ls = Some s -> o_wire s = flat_map (fun x => snd x ++ crlf2) (o_written s).
Proof. exact wire_concat. Qed.

(* ... so lines never interleave: the receiver recovers exactly the written messages by
   splitting on CRLF (messages contain no CR / LF by C05 / C07), also in the middle of a write *)
Theorem c16_lines_recoverable : forall (lines : list bytes),
  forallb no_crlf lines = true ->
  split_crlf (flat_map (fun l => l ++ crlf2) lines) = (lines, []).
Proof. exact split_crlf_lines. Qed.

Theorem c16_lines_recoverable_partial : forall (lines : list bytes) (tail : bytes),
  forallb no_crlf lines = true -> no_crlf tail = true ->
  split_crlf (flat_map (fun l => l ++ crlf2) lines ++ tail) = (lines, tail).
Proof. exact split_crlf_partial. Qed.

(* "while the connection is up": after a failed sendall or the stop pill nothing more is written *)
Theorem c16_dead_writes_nothing : forall s l s',
  o_alive s = false -> ostep s l = Some s' ->
  o_written s' = o_written s /\ o_wire s' = o_wire s /\ o_alive s' = false.
Proof. exact dead_writes_nothing. Qed.

(* events sent from inside subscribe() precede that subscription's reply: in the per-item LTS
   (Model/Item.v) the nested event and the reply are enqueued by the same dequeuer job in program
   order — the reply step (PReply) comes after the adapter call has ended; with
   c16_per_thread_order the written order follows.  The history-level statement: every nested
   notification lies between ECallB KSub t and ECallE KSub t (monitor nested_ok keeps `insub` set
   exactly in that window), and EReply t is logged after ECallE KSub t (monitor status_ok). *)
Theorem c16_nested_before_reply : forall item s, reachable item s -> nested_ok (s_hist s) = true.
Proof. exact ItemMonB.nested_ok_reachable. Qed.

(* non-vacuity: two producers, the writer scheduled late *)
Example c16_example :
  match orun out_init [OPut 1 (bs "a|SUB|V"); OPut 2 (bs "t|UD3|x"); OGet; OPut 1 (bs "b|USB|V"); OSend true; OGet; OSend true] with
  | Some s => o_wire s = bs "a|SUB|V" ++ crlf2 ++ bs "t|UD3|x" ++ crlf2 /\
              o_queue s = [(1, bs "b|USB|V")] /\
              fst (split_crlf (o_wire s)) = [bs "a|SUB|V"; bs "t|UD3|x"]
  | None => False
  end.
Proof. vm_compute. repeat split; reflexivity. Qed.

Print Assumptions c16_no_loss_no_dup.
Print Assumptions c16_per_thread_order.
Print Assumptions c16_puts_in_program_order.
Print Assumptions c16_stream_is_lines.
Print Assumptions c16_lines_recoverable.
Print Assumptions c16_lines_recoverable_partial.
Print Assumptions c16_dead_writes_nothing.
Print Assumptions c16_nested_before_reply.
Print Assumptions c16_example.
