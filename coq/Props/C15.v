(* Props/C15.v — inbound framing is independent of transport segmentation.
   feed_all [] chunks : the reader loop of _RequestManager._do_run run over the
   list of recv() chunks: (lines dispatched, in order; buffer held back).
   A line is  body ++ LF  or  body ++ CR LF  with an ASCII body free of the eight
   characters Python's splitlines treats as boundaries (values are
   percent-encoded, so no raw control character occurs); the tail is an
   incomplete last line, possibly cut between CR and LF. *)
From Coq Require Import String List Ascii Bool.
From LS Require Import Model.Bytes Model.Framing Model.Readers
  Proofs.FramingProofs Proofs.ReadersRoundtrip.
Import ListNotations.
Open Scope list_scope.

(* the hypotheses, spelled out *)
Remark c15_clean_def : forall body,
  clean body <-> Forall (fun c => is_boundary c = false /\ is_ascii c = true) body.
Proof. intros body. unfold clean. reflexivity. Qed.

Remark c15_wf_line_def : forall l,
  wf_line l <-> exists body t, l = body ++ t /\ clean body /\ (t = [c_lf] \/ t = [c_cr; c_lf]).
Proof.
  intros l. split.
  - intros H. destruct H as [body t Hb Ht]. exists body, t. split; [reflexivity|]. split; [exact Hb|].
    destruct Ht; [left|right]; reflexivity.
  - intros [body [t [-> [Hb [-> | ->]]]]]; constructor; try exact Hb; constructor.
Qed.

Remark c15_wf_tail_def : forall p,
  wf_tail p <-> exists body, clean body /\ (p = body \/ p = body ++ [c_cr]).
Proof.
  intros p. split.
  - intros H. destruct H as [b Hb | b Hb]; exists b; split; auto.
  - intros [b [Hb [-> | ->]]]; [apply tail_body | apply tail_cr]; exact Hb.
Qed.

(* every split of the stream into read chunks (any number of chunks, empty chunks,
   cuts anywhere incl. between CR and LF): each line dispatched exactly once, in
   order, unmodified; the incomplete trailing line is held back *)
Theorem c15_segmentation :
  forall (lines : list bytes) (p : bytes) (chunks : list bytes),
    Forall wf_line lines -> wf_tail p ->
    concat chunks = concat lines ++ p ->
    feed_all [] chunks = Some (lines, p).
Proof. exact feed_all_segmentation. Qed.

(* parse_request strips the terminator: CRLF, LF or none give the same request *)
Theorem c15_parse : forall body,
  parse_request (body ++ [c_cr; c_lf]) = parse_request body /\
  parse_request (body ++ [c_lf]) = parse_request body.
Proof.
  intros body. split; apply parse_request_app_space; reflexivity.
Qed.

(* non-vacuity: three lines (mixed terminators), a tail ending in CR, a chunking
   with empty chunks and a cut between CR and LF *)
Example c15_example :
  Forall wf_line ex_lines /\ wf_tail ex_tail /\
  concat ex_chunks = concat ex_lines ++ ex_tail /\
  feed_all [] ex_chunks = Some (ex_lines, ex_tail).
Proof.
  destruct ex_hyps as [H1 [H2 H3]].
  split; [exact H1|]. split; [exact H2|]. split; [exact H3|]. exact ex_feed_all_computed.
Qed.

Print Assumptions c15_segmentation.
Print Assumptions c15_parse.
Print Assumptions c15_example.
