(* Props/C13.v — Keepalive liveness: connection never silent longer than the interval.

   "While a positive keepalive interval K is in force, a KEEPALIVE line is written
   whenever no reply or notification has been written for K seconds, so the
   connection is never silent for longer than K, and a KEEPALIVE is written only
   after a full K of silence (or once at an explicit interval change).  With
   keepalives disabled no KEEPALIVE line is ever written, and keepalive lines are
   complete lines that never split, reorder or replace other messages."

   Statements only; proofs are in Proofs/SenderProofs.v.
   - Model/Sender.v is the writer loop _Sender._do_run as a timed transition system
     in virtual time ([sstep]); [srun (sender_init k) ls = Some s]: s is reached
     from a sender configured with interval k by ANY sequence of delays, timeouts,
     submissions by any thread and interval changes that the semantics of
     queue.get(timeout) allows.  Times and intervals are exact rationals.
   - an interval change takes effect when the next wait begins (the library follows
     the change at init time by the init reply, which begins a new wait at once:
     c13_change).  [w_next w]: the timeout of the wait that begins after write w;
     it is [wait_of K] for the value K current at that moment: Some K iff K > 0.
   - what virtual time cannot show (OS timer slack, a sendall that blocks) is
     listed in DESIGN.md section 8. *)
From Coq Require Import String List Ascii NArith ZArith QArith Bool.
From LS Require Import Model.Bytes Model.Tags Gen.Consts Model.Sender Proofs.SenderProofs.
Import ListNotations.

(* never silent for longer than the interval: at every moment, while a wait with
   timeout T is in progress the silence so far is at most T (and T is positive) *)
Theorem c13_silence_bounded : forall k ls s,
  srun (sender_init k) ls = Some s -> ss_alive s = true ->
  ss_elapsed s == ss_now s - last_write_time (ss_out s) /\ 0 <= ss_elapsed s /\
  match ss_tmo s with Some T => ss_elapsed s <= T /\ 0 < T | None => True end.
Proof. exact silence_bounded. Qed.

(* consecutive writes are at most T apart, and a KEEPALIVE written by timeout comes
   after EXACTLY T of silence (a full interval, never earlier) *)
Theorem c13_gaps : forall k ls s,
  srun (sender_init k) ls = Some s -> gaps_ok 0 (wait_of k) (ss_out s).
Proof. exact gaps_bounded. Qed.

(* T is the interval in force when the wait began *)
Theorem c13_wait_is_interval : forall k ls s w,
  srun (sender_init k) ls = Some s -> In w (ss_out s) ->
  exists k', w_next w = wait_of k' /\ In k' (k :: setks ls).
Proof. exact wait_is_current_k. Qed.

Theorem c13_positive_interval_enables : forall k, (0 < k -> wait_of k = Some k) /\ (k <= 0 -> wait_of k = None).
Proof. exact wait_positive. Qed.

(* disabled: no KEEPALIVE by timeout, ever *)
Theorem c13_disabled : forall k ls s,
  k <= 0 -> Forall (fun k' => k' <= 0) (setks ls) ->
  srun (sender_init k) ls = Some s -> forallb (fun w => negb (is_timeout w)) (ss_out s) = true.
Proof. exact disabled_no_timeout. Qed.

(* an interval change followed by a submission (the init reply) is in force from that line on *)
Theorem c13_change : forall k ls s p m k' s1 s2,
  srun (sender_init k) ls = Some s -> ss_alive s = true ->
  sstep s (SSetK k') = Some s1 -> sstep s1 (SPut p (Some m)) = Some s2 -> ss_alive s2 = true ->
  ss_tmo s2 = wait_of k' /\ ss_elapsed s2 == 0.
Proof. exact change_takes_effect. Qed.

(* keepalive lines never split, reorder or replace other messages *)
Theorem c13_lines_intact : forall k ls s,
  srun (sender_init k) ls = Some s ->
  map (fun w => (w_from w, w_line w)) (filter is_msg (ss_out s)) = submitted ls.
Proof. exact lines_intact. Qed.

Theorem c13_complete_lines : forall out, wire_of out = flat_map (fun w => w_line w ++ crlf_) out.
Proof. exact wire_is_lines. Qed.

Theorem c13_only_keepalives_added : forall k ls s w,
  srun (sender_init k) ls = Some s -> In w (ss_out s) -> is_msg w = false -> w_line w = keepalive_line.
Proof. exact non_msg_is_keepalive. Qed.

(* non-vacuity: interval 3/2; a line at 1, silence until 5: keepalives at 5/2 and 4;
   a put exactly at the deadline (4 + 3/2 = 11/2) is taken instead of a keepalive *)
Example c13_example :
  match srun (sender_init (3 # 2))
             [SDelay 1; SPut 1 (Some (bs "7|NSC|V")); SDelay (3 # 2); SFire; SDelay (3 # 2); SFire;
              SDelay (3 # 2); SPut 2 (Some (bs "8|NSC|V"))] with
  | Some s => map (fun w => (Qred (w_time w), w_line w)) (ss_out s) =
              [(1, bs "7|NSC|V"); (5 # 2, bs "KEEPALIVE"); (4, bs "KEEPALIVE"); (11 # 2, bs "8|NSC|V")]
  | None => False
  end.
Proof. vm_compute. reflexivity. Qed.

(* the guards do forbid what the property forbids: time cannot pass beyond the
   deadline without the keepalive, and the timeout cannot fire early *)
Example c13_guards :
  srun (sender_init 1) [SDelay (3 # 2)] = None /\
  srun (sender_init 1) [SDelay (1 # 2); SFire] = None /\
  srun (sender_init 0) [SDelay 100; SFire] = None.
Proof. vm_compute. repeat split; reflexivity. Qed.

Print Assumptions c13_silence_bounded.
Print Assumptions c13_gaps.
Print Assumptions c13_wait_is_interval.
Print Assumptions c13_positive_interval_enables.
Print Assumptions c13_disabled.
Print Assumptions c13_change.
Print Assumptions c13_lines_intact.
Print Assumptions c13_complete_lines.
Print Assumptions c13_only_keepalives_added.
Print Assumptions c13_example.
Print Assumptions c13_guards.
