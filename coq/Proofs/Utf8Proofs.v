(* Proofs/Utf8Proofs.v — the UTF-8 model of Model/Utf8.v is a bijection between
   lists of valid Unicode scalar values and the byte strings accepted by the
   strict decoder:

     utf8_dec_enc : forallb valid_scalar s = true -> utf8_dec (utf8_enc s) = Some s
     utf8_enc_dec : utf8_dec b = Some s -> utf8_enc s = b /\ forallb valid_scalar s = true

   plus small structural facts about the encoder used by the wire-format
   proofs (ASCII is encoded as itself, non-ASCII only yields bytes >= 0x80). *)
From Coq Require Import List Ascii NArith ZArith Bool Lia ZifyBool ZifyN.
From LS Require Import Model.Bytes Model.Utf8.
Import ListNotations.
Local Open Scope N_scope.

(* let lia reason about [/] and [mod] by constants *)
Local Ltac Zify.zify_post_hook ::= Z.to_euclidean_division_equations.

(* ------------------------------------------------------------------ *)
(* Bytes as numbers                                                    *)
(* ------------------------------------------------------------------ *)

Lemma byte_lt_256 : forall c, N_of_ascii c < 256.
Proof. intros c. apply N_ascii_bounded. Qed.

Lemma byte_eq_of_N : forall c n, N_of_ascii c = n -> c = ascii_of_N n.
Proof. intros c n H. rewrite <- H. symmetry. apply ascii_N_embedding. Qed.

(* ------------------------------------------------------------------ *)
(* Structural facts about the encoder                                  *)
(* ------------------------------------------------------------------ *)

Lemma utf8_enc_cons : forall n s, utf8_enc (n :: s) = utf8_enc1 n ++ utf8_enc s.
Proof. intros n s. reflexivity. Qed.

Lemma utf8_enc_app : forall a b, utf8_enc (a ++ b) = utf8_enc a ++ utf8_enc b.
Proof. intros a b. unfold utf8_enc. apply flat_map_app. Qed.

Lemma utf8_enc1_not_nil : forall n, utf8_enc1 n <> [].
Proof.
  intros n. unfold utf8_enc1.
  destruct (n <? 0x80); [discriminate|].
  destruct (n <? 0x800); [discriminate|].
  destruct (n <? 0x10000); discriminate.
Qed.

Lemma utf8_enc_nil_iff : forall s, utf8_enc s = [] <-> s = [].
Proof.
  intros s. split.
  - destruct s as [|n s']; [reflexivity|].
    rewrite utf8_enc_cons. intros H.
    apply app_eq_nil in H. destruct H as [H _].
    exfalso. exact (utf8_enc1_not_nil n H).
  - intros H. subst s. reflexivity.
Qed.

Lemma utf8_enc1_ascii : forall n, n < 128 -> utf8_enc1 n = [ascii_of_N n].
Proof.
  intros n H. unfold utf8_enc1.
  replace (n <? 0x80) with true by lia. reflexivity.
Qed.

Lemma utf8_enc1_high : forall n,
  valid_scalar n = true -> 128 <= n ->
  Forall (fun c => 128 <= N_of_ascii c) (utf8_enc1 n).
Proof.
  intros n Hv Hn. unfold valid_scalar in Hv. unfold utf8_enc1.
  replace (n <? 0x80) with false by lia.
  destruct (n <? 0x800) eqn:E2;
    [|destruct (n <? 0x10000) eqn:E3];
    repeat (apply Forall_cons; [rewrite N_ascii_embedding by lia; lia|]);
    apply Forall_nil.
Qed.

(* ------------------------------------------------------------------ *)
(* One decoding step, per sequence length                              *)
(* ------------------------------------------------------------------ *)

Lemma dec_step1 : forall n0 r,
  n0 < 0x80 ->
  utf8_dec (ascii_of_N n0 :: r) = ocons n0 (utf8_dec r).
Proof.
  intros n0 r H0. cbn [utf8_dec].
  rewrite N_ascii_embedding by lia.
  replace (n0 <? 0x80) with true by lia. reflexivity.
Qed.

Lemma dec_step2 : forall n0 n1 r,
  0xC2 <= n0 < 0xE0 -> n1 < 256 -> snd_ok n0 n1 = true ->
  utf8_dec (ascii_of_N n0 :: ascii_of_N n1 :: r)
  = ocons ((n0 - 0xC0) * 64 + (n1 - 0x80)) (utf8_dec r).
Proof.
  intros n0 n1 r H0 H1 S1. cbn [utf8_dec].
  rewrite !N_ascii_embedding by lia. rewrite S1. cbn [negb].
  replace (n0 <? 0x80) with false by lia.
  replace (n0 <? 0xC2) with false by lia.
  replace (0xF4 <? n0) with false by lia.
  replace (n0 <? 0xE0) with true by lia. reflexivity.
Qed.

Lemma dec_step3 : forall n0 n1 n2 r,
  0xE0 <= n0 < 0xF0 -> n1 < 256 -> n2 < 256 ->
  snd_ok n0 n1 = true -> cont_ok n2 = true ->
  utf8_dec (ascii_of_N n0 :: ascii_of_N n1 :: ascii_of_N n2 :: r)
  = ocons ((n0 - 0xE0) * 4096 + (n1 - 0x80) * 64 + (n2 - 0x80)) (utf8_dec r).
Proof.
  intros n0 n1 n2 r H0 H1 H2 S1 S2. cbn [utf8_dec].
  rewrite !N_ascii_embedding by lia. rewrite S1, S2. cbn [negb].
  replace (n0 <? 0x80) with false by lia.
  replace (n0 <? 0xC2) with false by lia.
  replace (0xF4 <? n0) with false by lia.
  replace (n0 <? 0xE0) with false by lia.
  replace (n0 <? 0xF0) with true by lia. reflexivity.
Qed.

Lemma dec_step4 : forall n0 n1 n2 n3 r,
  0xF0 <= n0 <= 0xF4 -> n1 < 256 -> n2 < 256 -> n3 < 256 ->
  snd_ok n0 n1 = true -> cont_ok n2 = true -> cont_ok n3 = true ->
  utf8_dec (ascii_of_N n0 :: ascii_of_N n1 :: ascii_of_N n2 :: ascii_of_N n3 :: r)
  = ocons ((n0 - 0xF0) * 262144 + (n1 - 0x80) * 4096
           + (n2 - 0x80) * 64 + (n3 - 0x80)) (utf8_dec r).
Proof.
  intros n0 n1 n2 n3 r H0 H1 H2 H3 S1 S2 S3. cbn [utf8_dec].
  rewrite !N_ascii_embedding by lia. rewrite S1, S2, S3. cbn [negb].
  replace (n0 <? 0x80) with false by lia.
  replace (n0 <? 0xC2) with false by lia.
  replace (0xF4 <? n0) with false by lia.
  replace (n0 <? 0xE0) with false by lia.
  replace (n0 <? 0xF0) with false by lia. reflexivity.
Qed.

(* ------------------------------------------------------------------ *)
(* decode (encode s) = s                                               *)
(* ------------------------------------------------------------------ *)

Lemma utf8_dec_enc1_app : forall n r,
  valid_scalar n = true ->
  utf8_dec (utf8_enc1 n ++ r) = ocons n (utf8_dec r).
Proof.
  intros n r Hv. unfold valid_scalar in Hv. unfold utf8_enc1.
  destruct (n <? 0x80) eqn:E1;
    [|destruct (n <? 0x800) eqn:E2;
      [|destruct (n <? 0x10000) eqn:E3]];
    cbn [app].
  - apply dec_step1. lia.
  - rewrite dec_step2 by (unfold snd_ok, cont_ok; lia).
    f_equal. lia.
  - rewrite dec_step3 by (unfold snd_ok, cont_ok; lia).
    f_equal. lia.
  - rewrite dec_step4 by (unfold snd_ok, cont_ok; lia).
    f_equal. lia.
Qed.

Theorem utf8_dec_enc : forall s,
  forallb valid_scalar s = true -> utf8_dec (utf8_enc s) = Some s.
Proof.
  intros s. induction s as [|n s' IH]; intros Hs.
  - reflexivity.
  - cbn [forallb] in Hs. apply andb_true_iff in Hs. destruct Hs as [Hn Hs'].
    rewrite utf8_enc_cons, utf8_dec_enc1_app by exact Hn.
    rewrite IH by exact Hs'. reflexivity.
Qed.

Corollary utf8_enc_inj : forall s1 s2,
  forallb valid_scalar s1 = true -> forallb valid_scalar s2 = true ->
  utf8_enc s1 = utf8_enc s2 -> s1 = s2.
Proof.
  intros s1 s2 H1 H2 E.
  apply utf8_dec_enc in H1. apply utf8_dec_enc in H2.
  rewrite E in H1. rewrite H1 in H2. inversion H2. reflexivity.
Qed.

(* ------------------------------------------------------------------ *)
(* encode (decode b) = b : the encoder re-creates each accepted        *)
(* sequence from the scalar the decoder computed for it                *)
(* ------------------------------------------------------------------ *)

Lemma enc1_of_1 : forall n0,
  n0 < 0x80 ->
  utf8_enc1 n0 = [ascii_of_N n0] /\ valid_scalar n0 = true.
Proof.
  intros n0 H0. split.
  - apply utf8_enc1_ascii. lia.
  - unfold valid_scalar. lia.
Qed.

Lemma enc1_of_2 : forall n0 n1 v,
  0xC2 <= n0 < 0xE0 -> snd_ok n0 n1 = true ->
  v = (n0 - 0xC0) * 64 + (n1 - 0x80) ->
  utf8_enc1 v = [ascii_of_N n0; ascii_of_N n1] /\ valid_scalar v = true.
Proof.
  intros n0 n1 v H0 S1 Hv. unfold snd_ok, cont_ok in S1.
  assert (R : 0x80 <= v < 0x800) by lia.
  split; [|unfold valid_scalar; lia].
  unfold utf8_enc1.
  replace (v <? 0x80) with false by lia.
  replace (v <? 0x800) with true by lia.
  repeat f_equal; lia.
Qed.

Lemma enc1_of_3 : forall n0 n1 n2 v,
  0xE0 <= n0 < 0xF0 -> snd_ok n0 n1 = true -> cont_ok n2 = true ->
  v = (n0 - 0xE0) * 4096 + (n1 - 0x80) * 64 + (n2 - 0x80) ->
  utf8_enc1 v = [ascii_of_N n0; ascii_of_N n1; ascii_of_N n2]
  /\ valid_scalar v = true.
Proof.
  intros n0 n1 n2 v H0 S1 S2 Hv. unfold snd_ok, cont_ok in S1, S2.
  assert (R : 0x800 <= v < 0x10000) by lia.
  split; [|unfold valid_scalar; lia].
  unfold utf8_enc1.
  replace (v <? 0x80) with false by lia.
  replace (v <? 0x800) with false by lia.
  replace (v <? 0x10000) with true by lia.
  repeat f_equal; lia.
Qed.

Lemma enc1_of_4 : forall n0 n1 n2 n3 v,
  0xF0 <= n0 <= 0xF4 ->
  snd_ok n0 n1 = true -> cont_ok n2 = true -> cont_ok n3 = true ->
  v = (n0 - 0xF0) * 262144 + (n1 - 0x80) * 4096
      + (n2 - 0x80) * 64 + (n3 - 0x80) ->
  utf8_enc1 v = [ascii_of_N n0; ascii_of_N n1; ascii_of_N n2; ascii_of_N n3]
  /\ valid_scalar v = true.
Proof.
  intros n0 n1 n2 n3 v H0 S1 S2 S3 Hv. unfold snd_ok, cont_ok in S1, S2, S3.
  assert (R : 0x10000 <= v < 0x110000) by lia.
  split; [|unfold valid_scalar; lia].
  unfold utf8_enc1.
  replace (v <? 0x80) with false by lia.
  replace (v <? 0x800) with false by lia.
  replace (v <? 0x10000) with false by lia.
  repeat f_equal; lia.
Qed.

(* Inversion of one decoder step: a successful decode of a non-empty input
   splits it as (encoding of a valid scalar) ++ (rest that decodes). *)
Lemma utf8_dec_cons_inv : forall c0 r0 s,
  utf8_dec (c0 :: r0) = Some s ->
  exists v r s',
    s = v :: s' /\ utf8_dec r = Some s' /\
    c0 :: r0 = utf8_enc1 v ++ r /\ valid_scalar v = true.
Proof.
  intros c0 r0 s H. cbn [utf8_dec] in H.
  rewrite (byte_eq_of_N c0 _ eq_refl).
  pose proof (byte_lt_256 c0) as B0.
  set (n0 := N_of_ascii c0) in *.
  destruct (n0 <? 0x80) eqn:E1.
  { (* one byte *)
    destruct (utf8_dec r0) as [l|] eqn:D; cbn [ocons] in H; [|discriminate].
    inversion H. destruct (enc1_of_1 n0 ltac:(lia)) as [He Hv].
    exists n0, r0, l. rewrite He. cbn [app]. auto. }
  destruct (n0 <? 0xC2) eqn:E2; [discriminate|].
  destruct (0xF4 <? n0) eqn:E3; [discriminate|].
  destruct r0 as [|c1 r1]; [discriminate|].
  rewrite (byte_eq_of_N c1 _ eq_refl).
  set (n1 := N_of_ascii c1) in *.
  destruct (snd_ok n0 n1) eqn:S1; cbn [negb] in H; [|discriminate].
  destruct (n0 <? 0xE0) eqn:E4.
  { (* two bytes *)
    destruct (utf8_dec r1) as [l|] eqn:D; cbn [ocons] in H; [|discriminate].
    inversion H.
    destruct (enc1_of_2 n0 n1 _ ltac:(lia) S1 eq_refl) as [He Hv].
    eexists _, r1, l. rewrite He. cbn [app]. auto. }
  destruct r1 as [|c2 r2]; [discriminate|].
  rewrite (byte_eq_of_N c2 _ eq_refl).
  set (n2 := N_of_ascii c2) in *.
  destruct (cont_ok n2) eqn:S2; cbn [negb] in H; [|discriminate].
  destruct (n0 <? 0xF0) eqn:E5.
  { (* three bytes *)
    destruct (utf8_dec r2) as [l|] eqn:D; cbn [ocons] in H; [|discriminate].
    inversion H.
    destruct (enc1_of_3 n0 n1 n2 _ ltac:(lia) S1 S2 eq_refl) as [He Hv].
    eexists _, r2, l. rewrite He. cbn [app]. auto. }
  destruct r2 as [|c3 r3]; [discriminate|].
  rewrite (byte_eq_of_N c3 _ eq_refl).
  set (n3 := N_of_ascii c3) in *.
  destruct (cont_ok n3) eqn:S3; cbn [negb] in H; [|discriminate].
  (* four bytes *)
  destruct (utf8_dec r3) as [l|] eqn:D; cbn [ocons] in H; [|discriminate].
  inversion H.
  destruct (enc1_of_4 n0 n1 n2 n3 _ ltac:(lia) S1 S2 S3 eq_refl) as [He Hv].
  eexists _, r3, l. rewrite He. cbn [app]. auto.
Qed.

Lemma utf8_enc_dec_len : forall k b s,
  (length b <= k)%nat ->
  utf8_dec b = Some s ->
  utf8_enc s = b /\ forallb valid_scalar s = true.
Proof.
  intros k. induction k as [|k IH]; intros b s Hlen H.
  - destruct b as [|c0 r0]; [|cbn [length] in Hlen; lia].
    cbn [utf8_dec] in H. inversion H. split; reflexivity.
  - destruct b as [|c0 r0].
    + cbn [utf8_dec] in H. inversion H. split; reflexivity.
    + apply utf8_dec_cons_inv in H.
      destruct H as (v & r & s' & Hs & Hr & Hb & Hv).
      assert (Hk : (length r <= k)%nat).
      { pose proof (utf8_enc1_not_nil v) as Hne.
        rewrite Hb, app_length in Hlen.
        destruct (utf8_enc1 v) as [|x xs]; [congruence|].
        cbn [length] in Hlen. lia. }
      destruct (IH r s' Hk Hr) as [He Hf].
      subst s. rewrite utf8_enc_cons, He, Hb.
      cbn [forallb]. rewrite Hv, Hf. split; reflexivity.
Qed.

Theorem utf8_enc_dec : forall b s,
  utf8_dec b = Some s -> utf8_enc s = b /\ forallb valid_scalar s = true.
Proof.
  intros b s H. exact (utf8_enc_dec_len (length b) b s (le_n _) H).
Qed.

(* Consequences: the accepted byte strings are exactly the encodings of
   valid scalar lists, and the decoder is injective where defined. *)
Corollary utf8_dec_some_iff : forall b s,
  utf8_dec b = Some s <-> (utf8_enc s = b /\ forallb valid_scalar s = true).
Proof.
  intros b s. split.
  - apply utf8_enc_dec.
  - intros [He Hv]. subst b. apply utf8_dec_enc. exact Hv.
Qed.

Corollary utf8_dec_inj : forall b1 b2 s,
  utf8_dec b1 = Some s -> utf8_dec b2 = Some s -> b1 = b2.
Proof.
  intros b1 b2 s H1 H2.
  apply utf8_enc_dec in H1. apply utf8_enc_dec in H2.
  destruct H1 as [H1 _]. destruct H2 as [H2 _]. congruence.
Qed.

Print Assumptions utf8_dec_enc.
Print Assumptions utf8_enc_dec.
Print Assumptions utf8_enc_inj.
Print Assumptions utf8_dec_some_iff.
Print Assumptions utf8_dec_inj.
Print Assumptions utf8_enc_nil_iff.
Print Assumptions utf8_enc_app.
Print Assumptions utf8_enc1_ascii.
Print Assumptions utf8_enc1_high.
