(* Proofs/KeepaliveProofs.v — C12: the keepalive decision tree. *)
From Coq Require Import QArith Qminmax ZArith Bool Lqa.
From LS Require Import Gen.Consts Model.Keepalive.
Local Open Scope Q_scope.

Lemma Qle_bool_false a b : Qle_bool a b = false -> b < a.
Proof.
  intros H. apply Qnot_le_lt. intro Hle. apply Qle_bool_iff in Hle. congruence.
Qed.

Ltac qb :=
  repeat match goal with
  | H : Qle_bool _ _ = true |- _ => apply Qle_bool_iff in H
  | H : Qle_bool _ _ = false |- _ => apply Qle_bool_false in H
  end.

(* the reflected constants have the values the property text names *)
Lemma consts_values :
  strict_ms == 1000 /\ default_ms == 10000 /\ min_ms == 1000.
Proof. repeat split; reflexivity. Qed.

(* expected interval (seconds) when nothing but the constructor argument counts *)
Definition ka_configured (c : option Q) : Q :=
  match c with None => 10 | Some x => Qmax 0 x end.

Ltac unfold_ka :=
  unfold ka_configured, ka_after, ka_after_legacy, ka_change_legacy, ka_change, ka_branch_of,
         configured_ms, ka_init, Qltb, Qleb, Qmaxb, strict_ms, default_ms, min_ms,
         q_of_Z, strict_keepalive, default_keepalive, min_keepalive in *;
  change (inject_Z 1000) with (1000 # 1) in *;
  change (inject_Z 10000) with (10000 # 1) in *.

Lemma ka_init_spec c : ka_init c == ka_configured c.
Proof.
  destruct c as [x|]; unfold ka_init, ka_configured, Qmaxb.
  - destruct (Qle_bool 0 x) eqn:E; qb.
    + rewrite Q.max_r; [reflexivity|assumption].
    + rewrite Q.max_l; [reflexivity|lra].
  - unfold default_ms, q_of_Z, default_keepalive. reflexivity.
Qed.

(* no hint: the configured value stands; 1 s if none was configured *)
Theorem ka_no_hint c :
  ka_after c None == match c with None => 1 | Some x => Qmax 0 x end.
Proof.
  destruct c as [x|].
  - unfold ka_after, ka_change, ka_branch_of. apply (ka_init_spec (Some x)).
  - unfold_ka. reflexivity.
Qed.

(* a non-positive hint changes nothing *)
Theorem ka_nonpositive c h : h <= 0 -> ka_after c (Some h) == ka_configured c.
Proof.
  intros Hh. rewrite <- ka_init_spec.
  unfold ka_after, ka_change, ka_branch_of, Qleb.
  apply Qle_bool_iff in Hh. rewrite Hh. reflexivity.
Qed.

(* the interval against which a positive hint is compared, in ms:
   10 000 when nothing is configured, configured*1000 when positive,
   and no bound at all (None) when keepalives were configured off *)
Definition ka_base (c : option Q) : option Q :=
  match c with
  | None => Some 10000
  | Some x => if Qle_bool x 0 then None else Some (x * 1000)
  end.

(* a positive hint stricter than the base is adopted, raised to the 1 s floor;
   otherwise nothing changes *)
Theorem ka_positive c h :
  0 < h ->
  ka_after c (Some h) ==
    match ka_base c with
    | Some b => if Qle_bool b h then ka_configured c else Qmax h 1000 / 1000
    | None => Qmax h 1000 / 1000
    end.
Proof.
  intros Hh. destruct c as [x|].
  - unfold ka_base. destruct (Qle_bool x 0) eqn:Ex.
    + (* configured off *)
      unfold_ka.
      assert (E0 : Qle_bool h 0 = false).
      { destruct (Qle_bool h 0) eqn:E; [qb; lra|reflexivity]. }
      rewrite E0.
      assert (E1 : Qle_bool (x * 1000) 0 = true).
      { apply Qle_bool_iff. qb. lra. }
      rewrite E1. cbn [negb].
      destruct (Qle_bool (1000 # 1) h) eqn:E2; qb.
      * rewrite Q.max_l; [reflexivity|lra].
      * rewrite Q.max_r; [reflexivity|lra].
    + unfold_ka.
      assert (E0 : Qle_bool h 0 = false).
      { destruct (Qle_bool h 0) eqn:E; [qb; lra|reflexivity]. }
      rewrite E0.
      assert (E1 : Qle_bool (x * 1000) 0 = false).
      { destruct (Qle_bool (x * 1000) 0) eqn:E; [qb; lra|reflexivity]. }
      rewrite E1. cbn [negb].
      destruct (Qle_bool (x * 1000) h) eqn:E2; cbn [negb].
      * destruct (Qle_bool 0 x) eqn:E3; qb.
        -- rewrite Q.max_r; [reflexivity|lra].
        -- lra.
      * destruct (Qle_bool (1000 # 1) h) eqn:E3; qb.
        -- rewrite Q.max_l; [reflexivity|lra].
        -- rewrite Q.max_r; [reflexivity|lra].
  - unfold ka_base. unfold_ka.
    assert (E0 : Qle_bool h 0 = false).
    { destruct (Qle_bool h 0) eqn:E; [qb; lra|reflexivity]. }
    rewrite E0.
    destruct (Qle_bool (10000 # 1) h) eqn:E2; cbn [negb].
    + reflexivity.
    + destruct (Qle_bool (1000 # 1) h) eqn:E3; qb.
      * rewrite Q.max_l; [reflexivity|lra].
      * rewrite Q.max_r; [reflexivity|lra].
Qed.

(* "Consequently": a positive hint always leaves keepalives enabled with an
   interval of at most max(hint, 1 s) *)
Theorem ka_bound c h :
  0 < h -> 0 < ka_after c (Some h) /\ ka_after c (Some h) <= Qmax (h / 1000) 1.
Proof.
  intros Hh. rewrite (ka_positive c h Hh).
  unfold Qdiv. change (/ 1000) with (1 # 1000).
  assert (Hm : Qmax h 1000 * (1 # 1000) == Qmax (h * (1 # 1000)) 1).
  { destruct (Qlt_le_dec h 1000) as [Hl|Hl].
    - rewrite (Q.max_r h 1000) by lra. rewrite (Q.max_r (h * (1 # 1000)) 1) by lra. reflexivity.
    - rewrite (Q.max_l h 1000) by lra. rewrite (Q.max_l (h * (1 # 1000)) 1) by lra. reflexivity. }
  assert (Hpos : 0 < Qmax (h * (1 # 1000)) 1).
  { apply Qlt_le_trans with 1; [reflexivity|apply Q.le_max_r]. }
  destruct (ka_base c) as [b|] eqn:Eb.
  - destruct (Qle_bool b h) eqn:E.
    + qb. destruct c as [x|]; unfold ka_base in Eb.
      * destruct (Qle_bool x 0) eqn:Ex; [discriminate|]. injection Eb as <-. qb.
        unfold ka_configured. rewrite Q.max_r by lra. split; [lra|].
        apply Qle_trans with (h * (1 # 1000)); [lra|apply Q.le_max_l].
      * injection Eb as <-. unfold ka_configured. split; [reflexivity|].
        apply Qle_trans with (h * (1 # 1000)); [lra|apply Q.le_max_l].
    + rewrite Hm. split; [assumption|apply Qle_refl].
  - rewrite Hm. split; [assumption|apply Qle_refl].
Qed.

(* non-vacuity and the behaviour that was the defect F2 *)
Example ka_example_off_hint : ka_after (Some 0) (Some 500) == 1.
Proof. vm_compute. reflexivity. Qed.

Theorem ka_legacy_refuted :
  exists c h, 0 < h /\ ~ (0 < ka_after_legacy c (Some h)).
Proof.
  exists (Some 0), 500. split; [reflexivity|]. vm_compute. discriminate.
Qed.
